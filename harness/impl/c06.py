"""Driver: run the real bilinear code on the given cases (C06). JSON on stdin -> JSON on stdout.

No model logic here: the kernels of pyresample/bilinear/_base.py are called directly with the harness' inputs,
and the full resamplers (NumpyBilinearResampler, XArrayBilinearResampler) are run on geometries built from specs.
Floats travel as float.hex() strings in the kernel sections (bit-exact), as plain JSON numbers elsewhere
(Python's repr round-trips binary64)."""
import json
import os
import sys
import types
import warnings

import numpy as np

warnings.simplefilter("ignore")
np.seterr(all="ignore")

from pyresample.bilinear import _base as B  # noqa: E402

req = json.load(sys.stdin)
out = {}


def fh(x):
    return float.fromhex(x) if isinstance(x, str) else float(x)


def hx(a):
    return [float(v).hex() for v in np.asarray(a, dtype=np.float64).ravel()]


def err(e):
    return {"error": type(e).__name__, "msg": str(e)[:200]}


# ---------------------------------------------------------------- scalar kernels (vectorised over the cases)
if "kernels" in req:
    cases = req["kernels"]           # each: 10 hex floats x1 y1 x2 y2 x3 y3 x4 y4 ox oy
    a = np.array([[fh(v) for v in c] for c in cases], dtype=np.float64).reshape(len(cases), 10)
    pts = tuple(np.ascontiguousarray(a[:, 2 * i:2 * i + 2]) for i in range(4))
    ox, oy = a[:, 8].copy(), a[:, 9].copy()
    k = {}
    abc = B._calc_abc(pts, oy, ox)
    k["abc"] = [hx(v) for v in abc]
    pts_sw = (pts[0], pts[2], pts[1], pts[3])
    abc2 = B._calc_abc(pts_sw, oy, ox)
    k["abc_swapped"] = [hx(v) for v in abc2]
    k["quad"] = hx(B._solve_quadratic(*abc, min_val=0., max_val=1.))
    k["quad_swapped"] = hx(B._solve_quadratic(*abc2, min_val=0., max_val=1.))
    ti, si = B._get_fractional_distances_irregular(pts, oy, ox)
    k["irregular"] = [hx(ti), hx(si)]
    tu, su = B._get_fractional_distances_uprights_parallel(pts, oy, ox)
    k["uprights"] = [hx(tu), hx(su)]
    tp, sp = B._get_fractional_distances_parallellogram(pts[:3], oy, ox)
    k["parallelogram"] = [hx(tp), hx(sp)]
    tf, sf = B._get_fractional_distances(pts, ox, oy)
    k["full"] = [hx(tf), hx(sf)]
    # one element at a time as well (the `if np.any(idxs)` in _update_fractional_distances is a whole-array switch)
    single = [[], []]
    for i in range(len(cases)):
        p1 = tuple(p[i:i + 1] for p in pts)
        t1, s1 = B._get_fractional_distances(p1, ox[i:i + 1], oy[i:i + 1])
        single[0].append(float(np.ravel(t1)[0]).hex())
        single[1].append(float(np.ravel(s1)[0]).hex())
    k["full_single"] = single
    out["kernels"] = k

if "other" in req:                   # _solve_another_fractional_distance(f, (y1,y2,y3,y4), out_y): 6 hex floats each
    a = np.array([[fh(v) for v in c] for c in req["other"]], dtype=np.float64).reshape(len(req["other"]), 6)
    g = B._solve_another_fractional_distance(a[:, 0], (a[:, 1], a[:, 2], a[:, 3], a[:, 4]), a[:, 5])
    out["other"] = hx(g)

if "quadratic" in req:               # _solve_quadratic(a, b, c, min, max): 5 hex floats each
    a = np.array([[fh(v) for v in c] for c in req["quadratic"]], dtype=np.float64).reshape(len(req["quadratic"]), 5)
    # min/max are scalars in the code: group the cases by (min, max)
    vals = [None] * len(a)
    groups = {}
    for i, r in enumerate(a):
        groups.setdefault((float(r[3]), float(r[4])), []).append(i)
    for (lo, hi), idx in groups.items():
        x = B._solve_quadratic(a[idx, 0], a[idx, 1], a[idx, 2], min_val=lo, max_val=hi)
        for j, i in enumerate(idx):
            vals[i] = float(x[j]).hex()
    out["quadratic"] = vals

if "resample_k" in req:              # _resample((p1..p4), (s, t)): 6 hex floats each
    a = np.array([[fh(v) for v in c] for c in req["resample_k"]], dtype=np.float64).reshape(len(req["resample_k"]), 6)
    out["resample_k"] = hx(B._resample((a[:, 0], a[:, 1], a[:, 2], a[:, 3]), (a[:, 4], a[:, 5])))

# ---------------------------------------------------------------- corner choice
if "corners" in req:
    res = []
    for c in req["corners"]:
        try:
            k = c["k"]
            in_x = np.array([[fh(v) for v in row] for row in c["in_x"]], dtype=np.float64).reshape(-1, k)
            in_y = np.array([[fh(v) for v in row] for row in c["in_y"]], dtype=np.float64).reshape(-1, k)
            ox = np.array([fh(v) for v in c["out_x"]], dtype=np.float64)
            oy = np.array([fh(v) for v in c["out_y"]], dtype=np.float64)
            idx = np.array(c["index"], dtype=np.int64).reshape(-1, k)
            pts, ind = B._get_four_closest_corners(in_x, in_y, ox, oy, k, idx)
            res.append({"pts": [[hx(p[:, 0]), hx(p[:, 1])] for p in pts],
                        "index": [[int(v) for v in row] for row in np.asarray(ind)]})
        except Exception as e:
            res.append(err(e))
    out["corners"] = res

# ---------------------------------------------------------------- slice look-ups
if "slices" in req:
    res = []
    for c in req["slices"]:
        try:
            shape = tuple(c["shape"])
            valid = np.array(c["valid"], dtype=bool)
            index = np.array(c["index"], dtype=np.int64).reshape(-1, 4)
            obj = B.BilinearBase(types.SimpleNamespace(shape=shape, size=int(np.prod(shape))), None, 1.0)
            obj._valid_input_index = valid
            obj._index_array = index
            obj._get_slices()
            r = {"slices_y": np.asarray(obj.slices_y).astype(int).tolist(),
                 "slices_x": np.asarray(obj.slices_x).astype(int).tolist(),
                 "mask": np.asarray(obj.mask_slices).astype(int).tolist()}
            if "data" in c:
                data = np.array(c["data"], dtype=np.float64)
                fill = fh(c["fill"])
                slicer = B.get_slicer(data)
                four = slicer(data, obj.slices_x, obj.slices_y, obj.mask_slices, fill)
                r["sliced"] = [hx(v) for v in four]
                r["ndim"] = data.ndim
            res.append(r)
        except Exception as e:
            res.append(err(e))
    out["slices"] = res


# ---------------------------------------------------------------- wrappers of the resampler classes, called directly
if "limit" in req:
    import dask
    import dask.array as da
    dask.config.set(scheduler="synchronous")
    from pyresample.bilinear import XArrayBilinearResampler
    res_ = []
    for c in req["limit"]:
        data = np.array([fh(v) for v in c["data"]], dtype=np.float64)
        resv = np.array([fh(v) for v in c["res"]], dtype=np.float64)
        o = XArrayBilinearResampler._limit_output_values_to_input(None, da.from_array(data, chunks=c.get("chunks", 3)),
                                                                  da.from_array(resv, chunks=2), fh(c["fill"]))
        res_.append(hx(np.asarray(o)))
    out["limit"] = res_

if "scatter" in req:
    import dask
    import dask.array as da
    dask.config.set(scheduler="synchronous")
    from pyresample.bilinear import NumpyBilinearResampler, XArrayBilinearResampler
    res_ = []
    for c in req["scatter"]:
        r = {}
        h, w = c["shape"]
        valid = np.array(c["valid"], dtype=bool)
        bands = np.array([[fh(v) for v in b] for b in c["bands"]], dtype=np.float64).reshape(len(c["bands"]), -1)
        geo = types.SimpleNamespace(shape=(h, w), size=h * w)
        for cls, name in ((NumpyBilinearResampler, "np"), (XArrayBilinearResampler, "xr")):
            try:
                obj = cls.__new__(cls)
                obj._target_geo_def = geo
                obj._valid_output_indices = valid
                if c["ndim"] == 3:
                    arr = bands.copy() if name == "np" else da.from_array(bands.copy(), chunks=(1, 3))
                    o = np.asarray(obj._reshape_to_target_area(arr, 3))
                    if name == "np":
                        o = np.moveaxis(o.reshape(h, w, -1), -1, 0)        # numpy puts the bands last
                    r[name] = [hx(b) for b in o.reshape(len(c["bands"]), -1)]
                else:
                    arr = bands[0].copy() if name == "np" else da.from_array(bands[0].copy(), chunks=3)
                    o = np.asarray(obj._reshape_to_target_area(arr, 2))
                    r[name] = [hx(o.reshape(-1))]
            except Exception as e:
                r[name] = err(e)
        res_.append(r)
    out["scatter"] = res_


# ---------------------------------------------------------------- full resamplers
def layout_fn(name):
    """the same logical 2-D array in another memory layout"""
    def strided(a):
        big = np.full((a.shape[0], 2 * a.shape[1]), 7, dtype=a.dtype)
        big[:, ::2] = a
        return big[:, ::2]
    return {"C": np.ascontiguousarray, "F": np.asfortranarray, "T": lambda a: np.ascontiguousarray(a.T).T, "strided": strided,
            "neg": lambda a: np.ascontiguousarray(a[::-1, ::-1])[::-1, ::-1]}[name]


def build_geo(spec, cover=None):
    from pyresample.geometry import AreaDefinition, SwathDefinition
    from pyproj import Proj
    if spec["kind"] == "area":
        h, w = spec["shape"]
        return AreaDefinition("a", "a", "a", spec["proj"], w, h, tuple(spec["extent"]))
    if spec["kind"] == "cover":
        # a regular grid (AreaDefinition) in another projection that covers the given area plus a margin
        h, w = spec["shape"]
        lons, lats = cover.get_lonlats()
        x, y = Proj(spec["proj"])(np.asarray(lons).ravel(), np.asarray(lats).ravel())
        x, y = x[np.isfinite(x)], y[np.isfinite(y)]
        mx, my = spec["margin"] * (x.max() - x.min()), spec["margin"] * (y.max() - y.min())
        return AreaDefinition("a", "a", "a", spec["proj"], w, h,
                              (float(x.min() - mx), float(y.min() - my), float(x.max() + mx), float(y.max() + my)))
    if spec["kind"] == "fan":
        # fine curvilinear swath directly in degrees: spacing d, column spacing growing with the row number and vice versa
        h, w = spec["shape"]
        jj, ii = np.mgrid[0:h, 0:w].astype(np.float64)
        d = spec["d"]
        lons = spec["lon0"] + d * ii * (1 + spec["f1"] * jj) + spec["g1"] * d * jj
        lats = spec["lat0"] - d * jj * (1 + spec["f2"] * ii) + spec["g2"] * d * ii
        lay = layout_fn(spec.get("layout", "C"))
        return SwathDefinition(lay(lons), lay(lats))
    # swath: a lattice in the coordinates of a base projection, mapped by an affine transform, jittered, inverse-projected
    h, w = spec["shape"]
    p = Proj(spec["proj"])
    x0, y0 = spec["origin"]
    (a11, a12), (a21, a22) = spec["matrix"]
    jj, ii = np.meshgrid(np.arange(w, dtype=np.float64), np.arange(h, dtype=np.float64))
    rs = np.random.RandomState(spec.get("jitter_seed", 0))
    amp = spec.get("jitter", 0.0)
    ju = jj + amp * (rs.rand(h, w) - 0.5)
    iu = ii + amp * (rs.rand(h, w) - 0.5)
    bend = spec.get("bend", 0.0)
    x = x0 + a11 * ju + a12 * iu + bend * ju * iu
    y = y0 + a21 * ju + a22 * iu + bend * ju * ju
    lons, lats = p(x, y, inverse=True)
    orient = spec.get("orient", 0)
    if orient & 1:
        lons, lats = lons[::-1], lats[::-1]
    if orient & 2:
        lons, lats = lons[:, ::-1], lats[:, ::-1]
    if orient & 4:
        lons, lats = lons.T, lats.T
    lons = np.ascontiguousarray(lons)
    lats = np.ascontiguousarray(lats)
    for (i, j) in spec.get("invalid", []):
        lons[i % lons.shape[0], j % lons.shape[1]] = 1e30
    lay = layout_fn(spec.get("layout", "C"))
    return SwathDefinition(lay(lons), lay(lats))


def fields(spec, sx, sy):
    """The source fields of one case: constant, affine in the target's projection coordinates, random; 3-D stack."""
    rs = np.random.RandomState(spec["data_seed"])
    c0, cx, cy = spec["affine"]
    const = np.full(sx.shape, float(spec["const"]))
    aff = c0 + cx * (sx - spec["centre"][0]) + cy * (sy - spec["centre"][1])
    rnd = rs.uniform(spec["rand_range"][0], spec["rand_range"][1], sx.shape)
    return {"const": const, "affine": aff, "random": rnd}


def jl(a):
    return np.asarray(a, dtype=np.float64).ravel().tolist()


if "resample" in req:
    import dask
    dask.config.set(scheduler="synchronous")
    from pyproj import Proj
    from pyresample.bilinear import NumpyBilinearResampler
    res = []
    for c in req["resample"]:
        r = {}
        try:
            tgt = build_geo(c["target"])
            src = build_geo(c["source"], tgt)
            light = bool(c.get("light"))
            layout = c["source"].get("layout", "C")
            lay = layout_fn(layout)           # the data arrays are passed in the same memory layout as the source lon/lat
            kw = dict(neighbours=c["neighbours"], reduce_data=bool(c.get("reduce_data", False)))
            lons, lats = src.get_lonlats()
            lons = np.asarray(lons, dtype=np.float64)
            lats = np.asarray(lats, dtype=np.float64)
            bad = (lons < -180) | (lons > 180) | (lats < -90) | (lats > 90)
            sx, sy = Proj(tgt.proj_str)(np.where(bad, np.nan, lons), np.where(bad, np.nan, lats))
            sx = np.where(np.isfinite(sx), sx, np.nan)
            sy = np.where(np.isfinite(sy), sy, np.nan)
            ox, oy = tgt.get_proj_coords()
            fl = fields(c, np.where(np.isnan(sx), 0.0, sx), np.where(np.isnan(sy), 0.0, sy))
            r["shape_src"] = list(lons.shape)
            r["shape_tgt"] = list(ox.shape)
            if c.get("want_numpy", True):
                rn = NumpyBilinearResampler(src, tgt, c["radius"], **kw)
                rn.get_bil_info()
                r["ox"], r["oy"] = jl(ox), jl(oy)
                r["t"], r["s"] = jl(rn.bilinear_t), jl(rn.bilinear_s)
                r["slices_x"] = np.asarray(rn.slices_x).astype(int).tolist()
                r["slices_y"] = np.asarray(rn.slices_y).astype(int).tolist()
                r["mask"] = np.asarray(rn.mask_slices).astype(int).tolist()
                # the flat source position each corner index refers to (a gather through the validity mask; no arithmetic):
                # the look-up tables must address exactly these pixels
                r["corner_flat"] = np.flatnonzero(np.asarray(rn._valid_input_index))[np.asarray(rn._index_array)].astype(int).tolist()
                # masked-array input: hidden values (instrument fill) that differ wildly from their neighbours
                rs2 = np.random.RandomState(c["data_seed"] + 1)
                msk = rs2.rand(*lons.shape) < 0.12
                hid = fl["random"].copy()
                hid[msk] = 1e6 * (1 + rs2.rand(int(msk.sum())))
                if light:
                    # very large source: only the pixels the tables (or the corner indices) point at travel back
                    W_ = lons.shape[1]
                    used = np.unique(np.concatenate([(np.asarray(rn.slices_y).astype(np.int64) * W_ + np.asarray(rn.slices_x)).ravel(),
                                                     np.asarray(r["corner_flat"], dtype=np.int64).ravel()]))
                    used = used[(used >= 0) & (used < lons.size)]
                    sp = lambda a: {str(int(f)): float(np.ravel(a)[f]) for f in used}   # noqa: E731
                    r["sx"], r["sy"] = sp(sx), sp(sy)
                    r["data"] = {k: sp(v) for k, v in fl.items()}
                    r["mask_src"] = {str(int(f)): int(np.ravel(msk)[f]) for f in used}
                else:
                    r["sx"], r["sy"] = jl(sx), jl(sy)
                    r["data"] = {k: jl(v) for k, v in fl.items()}
                    r["mask_src"] = msk.astype(int).ravel().tolist()
                r["affine_range"] = [float(fl["affine"].min()), float(fl["affine"].max())]
                r["valid_out"] = np.flatnonzero(rn._valid_output_indices).astype(int).tolist()
                ints_ = {}
                if c.get("int_dtypes"):
                    jj, ii = np.mgrid[0:lons.shape[0], 0:lons.shape[1]]
                    for dt in c["int_dtypes"]:
                        hi_, a_, b_ = c["int_ramp"]
                        ints_[dt] = (hi_ - a_ * ii - b_ * jj).astype(np.dtype(dt))     # decreasing towards east and south
                    r["int_data"] = {dt: jl(v) for dt, v in ints_.items()}
                try:
                    r["np"] = {}
                    for name, d in fl.items():
                        r["np"][name] = jl(rn.get_sample_from_bil_info(lay(d.copy()), fill_value=np.nan))
                    stack = np.stack([fl["const"], fl["affine"], fl["random"]])     # (3, y, x): "bands first"
                    r["np"]["stack"] = jl(np.moveaxis(np.asarray(
                        rn.get_sample_from_bil_info(stack.copy(), fill_value=np.nan)), -1, 0))
                    md = np.ma.array(hid, mask=msk)
                    r["np"]["masked:2d"] = jl(np.ma.filled(np.ma.asarray(rn.get_sample_from_bil_info(md.copy(), fill_value=np.nan)), np.nan))
                    md3 = np.ma.array(np.stack([hid, fl["affine"]]), mask=np.stack([msk, np.zeros_like(msk)]))
                    r["np"]["masked:3d"] = jl(np.moveaxis(np.ma.filled(np.ma.asarray(
                        rn.get_sample_from_bil_info(md3.copy(), fill_value=np.nan)), np.nan), -1, 0))
                    if not light:
                        from pyresample.bilinear._numpy_resampler import resample_bilinear as rb_
                        r["np"]["masked:legacy"] = jl(np.ma.filled(np.ma.asarray(rb_(
                            md.copy(), src, tgt, radius=c["radius"], neighbours=c["neighbours"], fill_value=np.nan,
                            reduce_data=bool(c.get("reduce_data", False)))), np.nan))
                        r["np"]["masked:fill0"] = jl(np.ma.filled(np.ma.asarray(rn.get_sample_from_bil_info(md.copy(), fill_value=0)), np.nan))
                    for dt, v in ints_.items():
                        r["np"]["int:" + dt] = jl(np.asarray(rn.get_sample_from_bil_info(lay(v.copy()), fill_value=0), dtype=np.float64))
                        r["np"]["intref:" + dt] = jl(rn.get_sample_from_bil_info(v.astype(np.float64), fill_value=0))
                except Exception as e:
                    r.pop("np", None)
                    r["np_error"] = err(e)
                # the neighbour tables the pipeline works on (kd-tree and PROJ are oracles for the model): same calls, same
                # order as BilinearBase.get_bil_info
                if c.get("pixel_sample"):
                    r2 = NumpyBilinearResampler(src, tgt, c["radius"], **kw)
                    r2._get_valid_input_index_and_kdtree()
                    if r2._resample_kdtree is not None:
                        r2._target_lons, r2._target_lats = tgt.get_lonlats()
                        r2._get_index_array()
                        in_x, in_y = r2._get_input_xy()
                        r["nb_x"], r["nb_y"] = jl(in_x), jl(in_y)
                        r["nb_i"] = np.asarray(r2._index_array).astype(int).ravel().tolist()
                        r["valid_out"] = np.flatnonzero(r2._valid_output_indices).astype(int).tolist()
                        r["valid_data_random"] = jl(fl["random"].ravel()[np.asarray(r2._valid_input_index)])
                if "np" in r and layout != "C":
                    src_c = build_geo(dict(c["source"], layout="C"), tgt)
                    rc = NumpyBilinearResampler(src_c, tgt, c["radius"], **kw)
                    rc.get_bil_info()
                    r["np_c"] = {"t": jl(rc.bilinear_t), "s": jl(rc.bilinear_s)}
                    for name, d in fl.items():
                        r["np_c"][name] = jl(rc.get_sample_from_bil_info(np.ascontiguousarray(d.copy()), fill_value=np.nan))
                if "np" in r:
                    # histories on one resampler object: a repeated call gives the same result, the inputs are not modified
                    keep = fl["const"].copy()
                    again = rn.get_sample_from_bil_info(fl["const"], fill_value=np.nan)
                    r["history"] = {"repeat_same": bool(np.array_equal(jl(again), r["np"]["const"], equal_nan=True)),
                                    "data_unchanged": bool(np.array_equal(keep, fl["const"])),
                                    "tables_unchanged": bool(np.array_equal(np.asarray(rn.bilinear_t), np.array(r["t"]), equal_nan=True)
                                                             and np.array_equal(np.asarray(rn.slices_x), np.array(r["slices_x"])))}
                    # legacy (deprecated) entry points of _numpy_resampler.py
                    if len(r["valid_out"]) == ox.size and not light:
                        from pyresample.bilinear._numpy_resampler import get_bil_info, get_sample_from_bil_info, resample_bilinear
                        try:
                            lg = {}
                            lg["resample_bilinear"] = jl(resample_bilinear(lay(fl["random"].copy()), src, tgt, radius=c["radius"],
                                                                           neighbours=c["neighbours"], fill_value=np.nan,
                                                                           reduce_data=bool(c.get("reduce_data", False))))
                            t_, s_, iidx, idxarr = get_bil_info(src, tgt, radius=c["radius"], neighbours=c["neighbours"],
                                                                reduce_data=bool(c.get("reduce_data", False)))
                            lg["t"], lg["s"] = jl(t_), jl(s_)
                            for name in ("const", "affine", "random"):
                                lg[name] = jl(get_sample_from_bil_info(fl[name].ravel().copy(), t_, s_, iidx, idxarr,
                                                                       output_shape=tgt.shape))
                            r["legacy"] = lg
                        except Exception as e:
                            r["legacy"] = err(e)
                # one-call API as well
                if "np" in r and not light:
                    r["np"]["resample_api"] = jl(NumpyBilinearResampler(src, tgt, c["radius"], **kw).resample(
                        lay(fl["random"].copy()), fill_value=np.nan))
            if c.get("want_xarray", True):
                import dask.array as da
                import xarray as xr
                from pyresample.bilinear import XArrayBilinearResampler
                r["xr"] = {}
                for chunks in c["chunkings"]:
                    key = json.dumps(chunks)
                    r["xr"][key] = {}
                    ch2 = tuple(chunks) if isinstance(chunks, list) else chunks
                    if light:       # very large source: one resampler object, one neighbour search
                        rx = XArrayBilinearResampler(src, tgt, c["radius"], **kw)
                        rx.get_bil_info()
                        for name, d in fl.items():
                            arr = xr.DataArray(da.from_array(d.copy(), chunks=ch2), dims=("y", "x"))
                            r["xr"][key][name] = jl(rx.get_sample_from_bil_info(arr, fill_value=np.nan).values)
                        stack = np.stack([fl["const"], fl["affine"], fl["random"]])
                        arr = xr.DataArray(da.from_array(stack, chunks=(1,) + ch2), dims=("bands", "y", "x"))
                        r["xr"][key]["stack"] = jl(rx.get_sample_from_bil_info(arr, fill_value=np.nan).values)
                        continue
                    for name, d in fl.items():
                        rx = XArrayBilinearResampler(src, tgt, c["radius"], **kw)
                        arr = xr.DataArray(da.from_array(lay(d.copy()), chunks=ch2), dims=("y", "x"))
                        r["xr"][key][name] = jl(rx.resample(arr, fill_value=np.nan).values)
                    stack = np.stack([fl["const"], fl["affine"], fl["random"]])
                    ch3 = ((1,) + ch2) if isinstance(ch2, tuple) else ch2
                    rx = XArrayBilinearResampler(src, tgt, c["radius"], **kw)
                    arr = xr.DataArray(da.from_array(stack.copy(), chunks=ch3), dims=("bands", "y", "x"))
                    r["xr"][key]["stack"] = jl(rx.resample(arr, fill_value=np.nan).values)
                    # several lazy results of ONE resampler evaluated in ONE dask.compute (one merged graph): inputs of the same
                    # shape carrying the same xarray name (a channel at several time slots), and unnamed inputs
                    for nm in ("band", None):
                        rj = XArrayBilinearResampler(src, tgt, c["radius"], **kw)
                        rj.get_bil_info()
                        lazy = [rj.get_sample_from_bil_info(
                            xr.DataArray(da.from_array(fl[k].copy(), chunks=ch2), dims=("y", "x"), name=nm), fill_value=np.nan)
                            for k in ("const", "affine", "random")]
                        lazy.append(rj.get_sample_from_bil_info(
                            xr.DataArray(da.from_array(stack.copy(), chunks=ch3), dims=("bands", "y", "x"), name=nm), fill_value=np.nan))
                        got = dask.compute(*[z.data for z in lazy])
                        for k, g in zip(("const", "affine", "random", "stack"), got):
                            r["xr"][key]["joint[%s]:%s" % (nm, k)] = jl(g)
                    # the SAME resampler object used again, for 2-D data after 3-D data (stored coordinates, look-up tables)
                    arr = xr.DataArray(da.from_array(fl["affine"].copy(), chunks=ch2), dims=("y", "x"))
                    r["xr"][key]["reuse:affine"] = jl(rx.get_sample_from_bil_info(arr, fill_value=np.nan).values)
                    if c.get("int_dtypes"):
                        jj, ii = np.mgrid[0:lons.shape[0], 0:lons.shape[1]]
                        for dt in c["int_dtypes"]:
                            hi_, a_, b_ = c["int_ramp"]
                            v = (hi_ - a_ * ii - b_ * jj).astype(np.dtype(dt))
                            rx = XArrayBilinearResampler(src, tgt, c["radius"], **kw)
                            arr = xr.DataArray(da.from_array(v, chunks=ch2), dims=("y", "x"))
                            r["xr"][key]["int:" + dt] = jl(np.asarray(rx.resample(arr, fill_value=0).values, dtype=np.float64))
                r["chunk_size_env"] = os.environ.get("PYTROLL_CHUNK_SIZE", "")
        except Exception as e:
            import traceback
            r = err(e)
            r["trace"] = traceback.format_exc()[-600:]
        res.append(r)
    out["resample"] = res

json.dump(out, sys.stdout)
