"""Driver: run the REAL pyresample EWA code on the given cases (C08). JSON on stdin -> JSON on stdout.

No model logic here: every number returned is produced by pyresample / pyproj / dask; floats travel as float.hex().
Operations (keys of the request):
  ll2cr   : ewa.ll2cr on a swath + area; also the PROJ coordinates the implementation computes (same Transformer
            call) and the area's own array coordinates of those points.
  fornav  : ewa.fornav one-shot on given cols/rows/data; weights/accums of fornav_weights_and_sums_wrapper;
            per-pixel footprint tables (all pixels blanked but one); write_grid_image_single of weights/accums.
  scene   : area + lon/lat swath + data: one-shot ll2cr+fornav, DaskEWAResampler (and the legacy resampler) for the
            given input row chunking and output chunks, per-input-chunk _call_ll2cr placeholders, the slices that
            _generate_fornav_dask_tasks emits, and per (input chunk, output chunk) footprint tables as seen by
            _delayed_fornav's call.
  wgrid   : write_grid_image_single on explicit weights/accums (float32/float64/int8 grids).
"""
import json
import os
import sys
import warnings

import numpy as np

# _fornav rebuilt out-of-tree from the CURRENT _fornav.cpp + _fornav_templates.cpp/.h (harness/c08.py:build_fornav):
# pre-loaded under the module's own name so that edits of the hand-written C++ take effect.
_SO = os.environ.get("C08_FORNAV_SO")
if _SO:
    import importlib.util
    _spec = importlib.util.spec_from_file_location("pyresample.ewa._fornav", _SO)
    _mod = importlib.util.module_from_spec(_spec)
    sys.modules["pyresample.ewa._fornav"] = _mod
    _spec.loader.exec_module(_mod)

warnings.filterwarnings("ignore")
import dask  # noqa: E402
import dask.array as da  # noqa: E402
import xarray as xr  # noqa: E402
from pyproj import Transformer  # noqa: E402

from pyresample.ewa import _fornav  # noqa: E402
from pyresample.ewa import dask_ewa  # noqa: E402
from pyresample.ewa import fornav, ll2cr  # noqa: E402
from pyresample.geometry import AreaDefinition, SwathDefinition  # noqa: E402

dask.config.set(scheduler="synchronous")
if _SO:
    assert os.path.samefile(_fornav.__file__, _SO) and dask_ewa.fornav_weights_and_sums_wrapper.__module__ == _fornav.__name__


def H(x):
    return float(x).hex()


def unhex2(a):
    return np.array([[float.fromhex(s) for s in row] for row in a], dtype=np.float64)


def hex2(a):
    return [[H(v) for v in row] for row in np.asarray(a)]


def hexflat(a):
    return [H(v) for v in np.asarray(a).ravel()]


def relayout(a, layout, pad=1.0e6):
    """The same values in a different memory layout (input construction only): views into larger arrays whose
    other elements are `pad`, Fortran order, negative strides."""
    a = np.ascontiguousarray(a)
    R, C = a.shape
    pad = a.dtype.type(99 if a.dtype.kind == "i" else pad)
    if layout in (None, "c"):
        return a
    if layout == "strided_cols":
        big = np.full((R, 2 * C), pad, dtype=a.dtype)
        big[:, ::2] = a
        return big[:, ::2]
    if layout == "strided_rows":
        big = np.full((2 * R, C), pad, dtype=a.dtype)
        big[::2] = a
        return big[::2]
    if layout == "window":
        big = np.full((R + 2, C + 3), pad, dtype=a.dtype)
        big[1:-1, 2:-1] = a
        return big[1:-1, 2:-1]
    if layout == "fortran":
        return np.asfortranarray(a)
    if layout == "transposed":
        return np.ascontiguousarray(a.T).T
    if layout == "negative":
        return np.ascontiguousarray(a[::-1, ::-1])[::-1, ::-1]
    raise ValueError("unknown layout %r" % layout)


def mk_area(c):
    h, w = c["shape"]
    return AreaDefinition("a", "a", "a", c["proj"], w, h, tuple(float.fromhex(s) for s in c["extent"]))


def err(e):
    return {"error": type(e).__name__, "msg": str(e)[:200]}


def wkw(p):
    return dict(weight_count=int(p["weight_count"]), weight_min=float(p["weight_min"]),
                weight_distance_max=float(p["weight_distance_max"]), weight_delta_max=float(p["weight_delta_max"]),
                weight_sum_min=float(p["weight_sum_min"]))


def run_ll2cr(c):
    area = mk_area(c)
    lons, lats = unhex2(c["lons"]), unhex2(c["lats"])
    fill = float.fromhex(c.get("fill", "nan"))
    swath = SwathDefinition(lons.copy(), lats.copy())
    t = Transformer.from_crs(swath.crs, area.crs, always_xy=True)
    x, y = t.transform(lons.copy(), lats.copy())
    n, cols, rows = ll2cr(swath, area, fill=fill)
    with np.errstate(all="ignore"):
        oc, orr = area.get_array_coordinates_from_projection_coordinates(np.asarray(x), np.asarray(y))
        try:
            lc, lr = area.get_array_coordinates_from_lonlat(lons.copy(), lats.copy())
        except Exception:
            lc, lr = np.full(lons.shape, np.nan), np.full(lons.shape, np.nan)
    res = {"n": int(n), "x": hexflat(x), "y": hexflat(y), "cols": hexflat(cols), "rows": hexflat(rows),
           "own_c": hexflat(oc), "own_r": hexflat(orr), "ll_c": hexflat(lc), "ll_r": hexflat(lr),
           "psx": H(area.pixel_size_x), "psy": H(area.pixel_size_y)}
    if c.get("geo_layout", "c") != "c":
        try:
            n2, c2, r2 = ll2cr(SwathDefinition(relayout(lons, c["geo_layout"], 1e6), relayout(lats, c["geo_layout"], 1e6)), area, fill=fill)
            res["layout_run"] = {"n": int(n2), "cols": hexflat(c2), "rows": hexflat(r2)}
        except Exception as e:
            res["layout_run"] = err(e)
    return res


def footprints(cols, rows, shape, rps, kw, which):
    """Per-pixel footprint tables of the real kernel: all pixels blanked (NaN) but one, whose value is 1."""
    R, C = cols.shape
    d = np.full((R, C), np.nan, dtype=np.float32)
    out = []
    for i in range(R):
        for j in range(C):
            if not which[i, j]:
                out.append(None)
                continue
            d[i, j] = 1.0
            w = np.zeros(shape, np.float32)
            a = np.zeros(shape, np.float32)
            try:
                _fornav.fornav_weights_and_sums_wrapper(cols, rows, d, w, a, float("nan"), float("nan"),
                                                        rows_per_scan=rps, **kw)
            except RuntimeError:
                pass
            d[i, j] = np.nan
            rr, cc = np.nonzero(w)
            out.append([[int(r), int(q), H(w[r, q]), H(a[r, q])] for r, q in zip(rr, cc)])
    return out


def fornav_all(cols, rows, data, dtype, rps, p, mwm, shape, fill, want_fp=True, fill_kw=True, ws_wsm=None,
               layout="c", geo_layout="c", masked=False):
    """One-shot fornav + weights/accums + footprints + write_grid_image_single, all from the real code."""
    kw = wkw(p)
    dt = np.dtype(dtype)
    fill = int(fill) if dt.kind == "i" else float(fill)      # the fused-type wrappers want a Python int for integer data
    d = np.ascontiguousarray(data.astype(dt))
    cols = np.ascontiguousarray(cols, dtype=np.float64)
    rows = np.ascontiguousarray(rows, dtype=np.float64)
    res = {}

    class _Shape:  # fornav only reads area_def.shape
        pass
    a = _Shape()
    a.shape = tuple(shape)
    kws = dict(kw)
    if fill_kw and (dt.kind == "i" or not np.isnan(fill)):
        kws["fill"] = fill

    def oneshot(cc, rr, dd):
        try:
            n, out = fornav(cc, rr, a, dd, rows_per_scan=rps, maximum_weight_mode=bool(mwm), **kws)
            return {"n": int(n), "out": hexflat(out), "dtype": str(out.dtype)}
        except Exception as e:
            return err(e)
    # the data array is handed over in the requested memory layout (same values)
    res["oneshot"] = oneshot(cols.copy(), rows.copy(), relayout(d, layout))
    if layout != "c":
        res["oneshot_c"] = oneshot(cols.copy(), rows.copy(), d.copy())
    if geo_layout != "c":
        res["oneshot_geo"] = oneshot(relayout(cols, geo_layout, 3.0), relayout(rows, geo_layout, 3.0), d.copy())
    if masked:
        # masked-array entry point: invalid pixels are masked (their stored value is arbitrary), the result is re-masked
        with np.errstate(invalid="ignore"):
            inval = np.isnan(d) | (d == dt.type(fill))
        md = np.ma.masked_array(np.where(inval, dt.type(12345.0), d), mask=inval)
        try:
            n, out = fornav(cols.copy(), rows.copy(), a, md, rows_per_scan=rps, maximum_weight_mode=bool(mwm), **kws)
            res["oneshot_masked"] = {"n": int(n), "is_masked": bool(isinstance(out, np.ma.MaskedArray)),
                                     "mask": [bool(v) for v in np.ma.getmaskarray(out).ravel()],
                                     "out": hexflat(np.ma.filled(out, fill))}
        except Exception as e:
            res["oneshot_masked"] = err(e)
    w = np.zeros(shape, np.float32)
    acc = np.zeros(shape, np.float32)
    pyfill = fill
    try:
        ok = _fornav.fornav_weights_and_sums_wrapper(cols, rows, d, w, acc, pyfill, pyfill, rows_per_scan=rps,
                                                     maximum_weight_mode=bool(mwm), **kw)
        res["ws"] = {"ok": bool(ok), "weights": hexflat(w), "accums": hexflat(acc)}
        out2 = np.full(shape, pyfill, dtype=dt)
        nv = _fornav.write_grid_image_single(out2, w, acc, pyfill,
                                             weight_sum_min=kw["weight_sum_min"] if ws_wsm is None else float(ws_wsm),
                                             maximum_weight_mode=bool(mwm))
        res["ws"]["grid"] = hexflat(out2)
        res["ws"]["n"] = int(nv)
    except Exception as e:
        res["ws"] = err(e)
    if want_fp:
        with np.errstate(invalid="ignore"):
            valid = ~np.isnan(d) & ~(d == dt.type(fill))
        res["fp"] = footprints(cols, rows, tuple(shape), rps, kw, valid)
    return res


def run_fornav(c):
    cols, rows, data = unhex2(c["cols"]), unhex2(c["rows"]), unhex2(c["data"])
    fill = float.fromhex(c.get("fill", "nan"))
    return fornav_all(cols, rows, data, c["dtype"], int(c["rps"]), c["params"], c["mwm"], tuple(c["grid"]), fill,
                      ws_wsm=c.get("ws_wsm"), layout=c.get("layout", "c"), geo_layout=c.get("geo_layout", "c"),
                      masked=bool(c.get("masked")))


def run_scene(c):
    area = mk_area(c)
    lons, lats, data = unhex2(c["lons"]), unhex2(c["lats"]), unhex2(c["data"])
    fill = float.fromhex(c.get("fill", "nan"))
    dt = np.dtype(c["dtype"])
    fill = int(fill) if dt.kind == "i" else float(fill)
    explicit_fill = not c.get("dask_fill_default", dt.kind != "i" and np.isnan(fill))    # False: fill_value is left at None
    rps = int(c["rps"])
    p = c["params"]
    kw = wkw(p)
    mwm = bool(c["mwm"])
    res = {}
    # ---- one shot
    swath = SwathDefinition(lons.copy(), lats.copy())
    t = Transformer.from_crs(swath.crs, area.crs, always_xy=True)
    x, y = t.transform(lons.copy(), lats.copy())
    n, cols, rows = ll2cr(swath, area)
    res["ll2cr"] = {"n": int(n), "x": hexflat(x), "y": hexflat(y), "cols": hexflat(cols), "rows": hexflat(rows)}
    layout, geo_layout = c.get("layout", "c"), c.get("geo_layout", "c")
    res["fornav"] = fornav_all(cols, rows, data, dt, rps, p, mwm, area.shape, fill, want_fp=c.get("want_fp", True),
                               ws_wsm=c.get("ws_wsm"), layout=layout)
    # ---- dask
    in_rows = int(c["in_rows"])
    out_chunks = tuple(tuple(int(v) for v in ax) for ax in c["out_chunks"])
    d = np.ascontiguousarray(data.astype(dt))
    R, C = lons.shape
    persist = bool(c.get("persist", False))

    # rows_per_scan as the caller gives it: geolocation attrs['rows_per_scan'] (or none) and the keyword (a number, 0 = whole
    # swath, or absent); `rps` above is the scan size these mean and is what the one-shot path gets
    attr_rps, rps_kw = c.get("attr_rps"), c.get("rps_kw", rps)

    def run_dask(lo, la, dd, persist=persist, attr=attr_rps, kwrps=rps_kw):
        try:
            attrs = {} if attr is None else {"rows_per_scan": int(attr)}
            sw = SwathDefinition(xr.DataArray(da.from_array(lo, chunks=(in_rows, C)), dims=("y", "x"), attrs=dict(attrs)),
                                 xr.DataArray(da.from_array(la, chunks=(in_rows, C)), dims=("y", "x"), attrs=dict(attrs)))
            rs = dask_ewa.DaskEWAResampler(sw, area)
            kws = dict(kw)
            if explicit_fill:
                kws["fill_value"] = fill
            if kwrps is not None:
                kws["rows_per_scan"] = int(kwrps)
            out = rs.resample(da.from_array(dd, chunks=(in_rows, C)), chunks=out_chunks,
                              maximum_weight_mode=mwm, persist=persist, **kws)
            return {"out": hexflat(out.compute()), "dtype": str(out.dtype), "chunks": [list(a) for a in out.chunks],
                    "in_chunks": list(rs.cache["ll2cr_result"].chunks[-2]) if hasattr(rs.cache["ll2cr_result"], "chunks") else None,
                    "kept_blocks": len(rs.cache["ll2cr_blocks"])}
        except Exception as e:
            return err(e)
    # numpy arrays behind the dask arrays in the requested memory layouts (same values)
    res["dask"] = run_dask(relayout(lons, geo_layout, 1e6), relayout(lats, geo_layout, 1e6), relayout(d, layout))
    if layout != "c" or geo_layout != "c":
        res["dask_c"] = run_dask(lons.copy(), lats.copy(), d.copy())
    if persist:
        res["dask_nopersist"] = run_dask(lons.copy(), lats.copy(), d.copy(), persist=False)
    if attr_rps is not None or rps_kw != rps:
        # the same request spelled plainly: no attrs, the scan size as keyword
        res["dask_plain_rps"] = run_dask(lons.copy(), lats.copy(), d.copy(), attr=None, kwrps=rps)
    # _get_rows_per_scan itself, for combinations of keyword and attrs
    obs = []
    for attr in (None, 0, 2, rps, R):
        for kwv in (None, 0, 3, rps):
            attrs = {} if attr is None else {"rows_per_scan": int(attr)}
            try:
                sw = SwathDefinition(xr.DataArray(da.from_array(lons.copy(), chunks=(in_rows, C)), dims=("y", "x"), attrs=dict(attrs)),
                                     xr.DataArray(da.from_array(lats.copy(), chunks=(in_rows, C)), dims=("y", "x"), attrs=dict(attrs)))
                v = dask_ewa.DaskEWAResampler(sw, area)._get_rows_per_scan(kwv)
                obs.append([kwv, attr, R, int(v)])
            except ValueError:
                obs.append([kwv, attr, R, None])
            except Exception as e:
                obs.append([kwv, attr, R, type(e).__name__])
    res["get_rps"] = obs
    # no scan size anywhere: nothing to resample with -> a loud error is the only right answer
    probe = run_dask(lons.copy(), lats.copy(), d.copy(), attr=None, kwrps=None)
    res["dask_no_rps"] = {"error": probe["error"]} if "error" in probe else {"returned_grid": True}
    # a history of resample() calls on ONE resampler object, each compared with a fresh object by the harness
    if c.get("history"):
        hist = []
        try:
            sw = SwathDefinition(xr.DataArray(da.from_array(lons.copy(), chunks=(in_rows, C)), dims=("y", "x")),
                                 xr.DataArray(da.from_array(lats.copy(), chunks=(in_rows, C)), dims=("y", "x")))
            rs = dask_ewa.DaskEWAResampler(sw, area)
        except Exception as e:
            rs = None
            hist.append(err(e))
        for call in (c["history"] if rs is not None else []):
            dd = d * dt.type(call["scale"]) + dt.type(call["shift"])
            kws = dict(kw)
            if explicit_fill:
                kws["fill_value"] = fill
                dd = np.where(d == dt.type(fill), dt.type(fill), dd)
            oc = tuple(tuple(int(v) for v in ax) for ax in call["out_chunks"])
            ent = {}
            for name, obj in (("same", rs), ("fresh", None)):
                try:
                    if obj is None:
                        sw2 = SwathDefinition(xr.DataArray(da.from_array(lons.copy(), chunks=(in_rows, C)), dims=("y", "x")),
                                              xr.DataArray(da.from_array(lats.copy(), chunks=(in_rows, C)), dims=("y", "x")))
                        obj = dask_ewa.DaskEWAResampler(sw2, area)
                    out = obj.resample(da.from_array(dd.copy(), chunks=(in_rows, C)), rows_per_scan=rps, chunks=oc,
                                       maximum_weight_mode=bool(call["mwm"]), persist=bool(call["persist"]), **kws)
                    ent[name] = {"out": hexflat(out.compute())}
                except Exception as e:
                    ent[name] = err(e)
            hist.append(ent)
        res["history"] = hist
    # _new_chunks: the row chunk the resampler re-chunks its input to
    try:
        sw = SwathDefinition(xr.DataArray(da.from_array(lons.copy(), chunks=(int(c.get("probe_rows", in_rows)), C)), dims=("y", "x")),
                             xr.DataArray(da.from_array(lats.copy(), chunks=(int(c.get("probe_rows", in_rows)), C)), dims=("y", "x")))
        nc = dask_ewa.DaskEWAResampler(sw, area)._new_chunks(sw.lons, rps)
        res["new_chunks"] = [int(nc[0]), int(nc[1])]
    except Exception as e:
        res["new_chunks"] = err(e)
    if c.get("legacy"):
        try:
            from pyresample.ewa import _legacy_dask_ewa
            sw = SwathDefinition(xr.DataArray(da.from_array(lons.copy(), chunks=(in_rows, C)), dims=("y", "x")),
                                 xr.DataArray(da.from_array(lats.copy(), chunks=(in_rows, C)), dims=("y", "x")))
            rs = _legacy_dask_ewa.LegacyDaskEWAResampler(sw, area)
            out = rs.resample(da.from_array(relayout(d, layout), chunks=(in_rows, C)), rows_per_scan=rps, maximum_weight_mode=mwm, **kw)
            res["legacy"] = {"out": hexflat(np.asarray(out.compute()))}
        except Exception as e:
            res["legacy"] = err(e)
    # ---- observations of the plumbing: placeholders, slices, per-(input chunk, output chunk) footprints
    starts = list(range(0, R, in_rows))
    blocks = []
    for s in starts:
        r = dask_ewa._call_ll2cr(lons[s:s + in_rows].copy(), lats[s:s + in_rows].copy(), area)
        blocks.append(r)
    res["placeholders"] = [bool(isinstance(b[0], tuple)) for b in blocks]
    ll2cr_blocks = [(("ll2cr", i, 0), ("ll2cr", i, 0)) for i in range(len(starts))]
    tasks = dask_ewa.DaskEWAResampler._generate_fornav_dask_tasks(out_chunks, ll2cr_blocks, "t", "inp", area, fill, {})
    res["tasks"] = sorted([[k[1], k[2], k[3], v[3].start, v[3].stop, v[4].start, v[4].stop, v[5][1]] for k, v in tasks.items()])
    # the task dictionary in insertion order, for the full block list and for a block list with entries left out
    # (what persist=True produces): z_idx then differs from in_row_idx
    raw = []
    for keep in (list(range(len(starts))), [i for i in range(len(starts)) if i % 2 == 1 or i == len(starts) - 1]):
        blks = [(("ll2cr", i, 0), 1000 + i) for i in keep]
        td = dask_ewa.DaskEWAResampler._generate_fornav_dask_tasks(out_chunks, blks, "t", "inp", area, fill, {})
        raw.append({"blocks": [[i, 0, 1000 + i] for i in keep],
                    "items": [[k[1], k[2], k[3], v[3].start, v[3].stop, v[4].start, v[4].stop, v[5][1], v[5][2], v[1]] for k, v in td.items()],
                    "ok": all(k[0] == "t" and v[0] is dask_ewa._delayed_fornav and v[2] is area and v[5][0] == "inp" for k, v in td.items())})
    res["tasks_raw"] = raw
    if c.get("want_sub_fp"):
        sub = []
        pyfill = fill
        y0 = 0
        for nr in out_chunks[0]:
            x0 = 0
            for nc in out_chunks[1]:
                ysl, xsl = slice(y0, y0 + nr), slice(x0, x0 + nc)
                per_in = []
                for s, b in zip(starts, blocks):
                    dd = d[s:s + in_rows]
                    kwf = dict(kw, rows_per_scan=rps, maximum_weight_mode=mwm)
                    seen = {}
                    orig = dask_ewa.fornav_weights_and_sums_wrapper

                    def spy(cols_, rows_, data_, weights_, accums_, *a_, **k_):
                        # observe the geolocation and grid shape _delayed_fornav really hands to the kernel
                        seen["cols"], seen["rows"], seen["shape"] = np.array(cols_), np.array(rows_), weights_.shape
                        return orig(cols_, rows_, data_, weights_, accums_, *a_, **k_)
                    dask_ewa.fornav_weights_and_sums_wrapper = spy
                    try:
                        got = dask_ewa._delayed_fornav(b, area, ysl, xsl, dd, pyfill, kwf)
                    finally:
                        dask_ewa.fornav_weights_and_sums_wrapper = orig
                    entry = {"empty": bool(isinstance(got[0], tuple))}
                    if not entry["empty"]:
                        entry["weights"] = hexflat(got[0])
                        entry["accums"] = hexflat(got[1])
                        entry["shape"] = list(got[0].shape)
                    if seen:
                        with np.errstate(invalid="ignore"):
                            valid = ~np.isnan(dd) & ~(dd == dt.type(fill))
                        entry["fp"] = footprints(np.ascontiguousarray(seen["cols"]), np.ascontiguousarray(seen["rows"]),
                                                 tuple(seen["shape"]), rps, kw, valid)
                        entry["kshape"] = list(seen["shape"])
                    per_in.append(entry)
                sub.append({"y0": y0, "x0": x0, "nr": nr, "nc": nc, "in": per_in})
                x0 += nc
            y0 += nr
        res["sub"] = sub
    return res


def run_wgrid(c):
    shape = tuple(c["shape"])
    w = np.array([float.fromhex(s) for s in c["weights"]], dtype=np.float32).reshape(shape)
    a = np.array([float.fromhex(s) for s in c["accums"]], dtype=np.float32).reshape(shape)
    dt = np.dtype(c["dtype"])
    fill = c["fill"]
    fill = int(fill) if dt.kind == "i" else float.fromhex(fill)
    out = np.full(shape, fill, dtype=dt)
    n = _fornav.write_grid_image_single(out, w, a, fill, weight_sum_min=float(c["weight_sum_min"]),
                                        maximum_weight_mode=bool(c["mwm"]))
    return {"n": int(n), "out": [int(v) for v in out.ravel()] if dt.kind == "i" else hexflat(out)}


OPS = {"ll2cr": run_ll2cr, "fornav": run_fornav, "scene": run_scene, "wgrid": run_wgrid}

req = json.load(sys.stdin)
resp = {}
for op, fn in OPS.items():
    outl = []
    for case in req.get(op, []):
        try:
            outl.append(fn(case))
        except Exception as e:  # reported, never swallowed: the harness decides
            import traceback
            outl.append({"error": type(e).__name__, "msg": str(e)[:300], "tb": traceback.format_exc()[-600:]})
    resp[op] = outl
json.dump(resp, sys.stdout)
