"""Driver: run the real boundary code of pyresample on the given cases (C16). No model logic here."""
import json
import sys
import warnings

import numpy as np

warnings.filterwarnings("ignore")

from pyresample.geometry import (AreaDefinition, SwathDefinition,  # noqa: E402
                                 get_geostationary_angle_extent,
                                 get_geostationary_bounding_box_in_proj_coords)

req = json.load(sys.stdin)
out = {}


def err(e):
    return {"error": type(e).__name__, "msg": str(e)[:200]}


def fl(a):
    """Array of floats -> JSON list (NaN/inf kept as strings through float.hex on the harness side: use repr floats)."""
    a = np.ma.filled(np.ma.asarray(a, dtype=np.float64), np.nan) if np.ma.isMaskedArray(a) else np.asarray(a, dtype=np.float64)
    return [float(v).hex() for v in a.ravel()]


def sides_out(lon_sides, lat_sides):
    return [[fl(lo), fl(la)] for lo, la in zip(lon_sides, lat_sides)]


# ---------------------------------------------------------------- np.linspace(start, stop, num, dtype=int)
res = []
for start, stop, num in req.get("linspace", []):
    try:
        res.append([int(v) for v in np.linspace(start, stop, num, dtype=int)])
    except Exception as e:
        res.append(err(e))
out["linspace"] = res

# ---------------------------------------------------------------- _get_bbox_slices of a geometry of a given shape
res = []
for h, w, vps in req.get("slices", []):
    try:
        sw = SwathDefinition(np.zeros((h, w)), np.zeros((h, w)))
        s1, s2, s3, s4 = sw._get_bbox_slices(vps)
        res.append([[[int(s1[0]), int(c)] for c in s1[1]],
                    [[int(r), int(s2[1])] for r in s2[0]],
                    [[int(s3[0]), int(c)] for c in s3[1]],
                    [[int(r), int(s4[1])] for r in s4[0]]])
    except Exception as e:
        res.append(err(e))
out["slices"] = res


def make_geom(c):
    if c["kind"] == "swath":
        lons = np.array([[float.fromhex(v) for v in row] for row in c["lons"]], dtype=np.float64)
        lats = np.array([[float.fromhex(v) for v in row] for row in c["lats"]], dtype=np.float64)
        if c.get("dask"):
            import dask.array as da
            lons, lats = da.from_array(lons, chunks=2), da.from_array(lats, chunks=3)
        if c.get("xarray"):
            import xarray as xr
            lons, lats = xr.DataArray(lons, dims=("y", "x")), xr.DataArray(lats, dims=("y", "x"))
        return SwathDefinition(lons, lats)
    h, w = c["shape"]
    return AreaDefinition("a", "a", "a", c["proj"], w, h, tuple(c["extent"]))


def ring_case(c):
    g = make_geom(c)
    vps = c["vps"]
    r = {}
    if c.get("want_lonlats"):
        lons, lats = g.get_lonlats()
        lons, lats = np.asarray(lons), np.asarray(lats)
        r["shape"] = list(lons.shape)
        r["lons"], r["lats"] = fl(lons), fl(lats)
    # unforced sides + the corner test the code applies to them
    try:
        ul, ua = g.get_bbox_lonlats(vertices_per_side=vps, force_clockwise=False)
        r["sides_u"] = sides_out(ul, ua)
        try:
            r["cw"] = bool(g._corner_is_clockwise(ul[0][-2], ua[0][-2], ul[0][-1], ua[0][-1], ul[1][1], ua[1][1]))
        except Exception as e:
            r["cw"] = err(e)
    except Exception as e:
        r["sides_u"] = err(e)
    try:
        fl_, fa = g.get_bbox_lonlats(vertices_per_side=vps, force_clockwise=True)
        r["sides_f"] = sides_out(fl_, fa)
    except Exception as e:
        r["sides_f"] = err(e)
    try:
        b = g.boundary(vertices_per_side=vps, force_clockwise=True)
        cl, ca = b.contour()
        r["contour"] = [fl(cl), fl(ca)]
        v = b.vertices
        r["vertices"] = [fl(v[:, 0]), fl(v[:, 1])]
        r["area"] = float(b.contour_poly.area())
        bu = g.boundary(vertices_per_side=vps)
        cl, ca = bu.contour()
        r["contour_u"] = [fl(cl), fl(ca)]
    except Exception as e:
        r["contour"] = err(e)
    if vps is not None:
        # the legacy spelling of the same argument
        try:
            b = g.boundary(frequency=vps, force_clockwise=True)
            cl, ca = b.contour()
            r["contour_freq"] = [fl(cl), fl(ca)]
            fl2, fa2 = g.get_bbox_lonlats(frequency=vps, force_clockwise=True)
            r["sides_freq"] = sides_out(fl2, fa2)
        except Exception as e:
            r["contour_freq"] = err(e)
    try:
        el, ea = g.get_edge_lonlats(vertices_per_side=vps)
        r["edge"] = [fl(el), fl(ea)]
    except Exception as e:
        r["edge"] = err(e)
    if c.get("want_legacy"):
        # legacy entry point used by kd_tree / bilinear: the four complete sides
        try:
            blon, blat = g.get_boundary_lonlats()
            r["legacy_sides"] = sides_out([np.asarray(getattr(blon, "side%d" % i)) for i in (1, 2, 3, 4)],
                                          [np.asarray(getattr(blat, "side%d" % i)) for i in (1, 2, 3, 4)])
        except Exception as e:
            r["legacy_sides"] = err(e)
    if c.get("frequency_legacy"):
        # legacy class: AreaDefBoundary(area, frequency) = get_bbox_lonlats() decimated
        try:
            from pyresample.boundary import AreaDefBoundary
            d = AreaDefBoundary(g, frequency=c["frequency_legacy"])
            r["adb_sides"] = sides_out(d.sides_lons, d.sides_lats)
            cl, ca = d.contour()
            r["adb_contour"] = [fl(cl), fl(ca)]
            r["adb_poly_n"] = int(len(d.contour_poly.lon))
        except Exception as e:
            r["adb_sides"] = err(e)
    if c["kind"] == "area":
        try:
            x, y = g.get_edge_bbox_in_projection_coordinates(vertices_per_side=vps)
            r["proj_edge"] = [fl(x), fl(y)]
            px, py = g.get_proj_vectors()
            r["proj_x"], r["proj_y"] = fl(px), fl(py)
        except Exception as e:
            r["proj_edge"] = err(e)
    return r


res = []
for c in req.get("rings", []):
    try:
        res.append(ring_case(c))
    except Exception as e:
        res.append(err(e))
out["rings"] = res

# ---------------------------------------------------------------- AreaBoundary.decimate on sides whose values are their positions
res = []
for c in req.get("decimate", []):
    try:
        from pyresample.boundary import AreaBoundary
        lens = c["lens"]
        # side i: lons = positions 0..L-1 (halved), lats = 10*i + position/100 (distinct vertices; sides chained like a ring is not needed here)
        # (longitudes stay within +-180 degrees: position/2)
        sides = [(np.arange(L, dtype=np.float64) / 2.0, 10.0 * i + np.arange(L, dtype=np.float64) / 100.0) for i, L in enumerate(lens)]
        b = AreaBoundary(*sides)
        r = {}
        if c.get("touch_poly_first"):
            r["poly_n_before"] = int(len(b.contour_poly.lon))
        b.decimate(c["ratio"])
        r["positions"] = [[int(round(v * 2.0)) for v in s_] for s_ in b.sides_lons]
        r["lat_positions"] = [[int(round((v - 10.0 * i) * 100.0)) for v in s_] for i, s_ in enumerate(b.sides_lats)]
        cl, ca = b.contour()
        r["contour_n"] = int(len(cl))
        p = b.contour_poly
        r["poly_n_after"] = int(len(p.lon))
        r["poly_matches_contour"] = bool(len(p.lon) == len(cl) and np.allclose(p.lon, np.deg2rad(cl)) and np.allclose(p.lat, np.deg2rad(ca)))
        v = b.vertices
        r["vertices_match_contour"] = bool(v.shape == (len(cl), 2) and np.array_equal(v[:, 0], cl) and np.array_equal(v[:, 1], ca))
        res.append(r)
    except Exception as e:
        res.append(err(e))
out["decimate"] = res

# ---------------------------------------------------------------- geostationary areas
res = []
for c in req.get("geos", []):
    try:
        g = make_geom(c)
        vps = c["vps"]
        r = {"is_geos": bool(g.is_geostationary)}
        xa, ya = get_geostationary_angle_extent(g)
        r["angles"] = [float(xa), float(ya)]
        try:
            sx, sy = g._get_geostationary_boundary_sides(vertices_per_side=vps, coordinates="projection")
            r["sides_proj"] = sides_out(sx, sy)
        except Exception as e:
            r["sides_proj"] = err(e)
        try:
            fl_, fa = g.get_bbox_lonlats(vertices_per_side=vps, force_clockwise=True)
            r["sides_f"] = sides_out(fl_, fa)
            ul, ua = g.get_bbox_lonlats(vertices_per_side=vps, force_clockwise=False)
            r["sides_u"] = sides_out(ul, ua)
            r["cw"] = bool(g._corner_is_clockwise(ul[0][-2], ua[0][-2], ul[0][-1], ua[0][-1], ul[1][1], ua[1][1]))
            b = g.boundary(vertices_per_side=vps, force_clockwise=True)
            cl, ca = b.contour()
            r["contour"] = [fl(cl), fl(ca)]
            r["area"] = float(b.contour_poly.area())
        except Exception as e:
            r["sides_f"] = err(e)
        try:
            nb = c["nb_points"]
            x, y = get_geostationary_bounding_box_in_proj_coords(g, nb_points=nb)
            r["bbox_proj"] = [fl(x), fl(y)]
        except Exception as e:
            r["bbox_proj"] = err(e)
        if c.get("probe"):
            # lon/lat of some projection points (PROJ is an oracle): used for inside/outside probes
            from pyproj import Proj
            p = Proj(g.crs)
            lo, la = p([q[0] for q in c["probe"]], [q[1] for q in c["probe"]], inverse=True)
            r["probe"] = [fl(lo), fl(la)]
        res.append(r)
    except Exception as e:
        res.append(err(e))
out["geos"] = res

json.dump(out, sys.stdout)
