"""Driver: run the real kd_tree resampling under every requested organisation of the work (C03).

JSON on stdin -> runs pyresample -> JSON on stdout.  No model logic here: arrays are transported as
base64 of a canonical dtype (int64 / float64 / uint8), the reduction mask is what
data_reduce.get_valid_index_from_lonlat_boundaries returns, and the libm values it used are
recorded by a forwarding proxy in place of the module's `np` (the function body is not copied).
"""
import base64
import json
import signal
import sys
import warnings

import numpy as np

warnings.filterwarnings("ignore")

from pyresample import data_reduce, geometry, kd_tree  # noqa: E402

req = json.load(sys.stdin)


def b64(a, dt):
    a = np.ascontiguousarray(np.asarray(a).astype(dt))
    return {"s": list(a.shape), "d": base64.b64encode(a.tobytes()).decode()}


def fl(a):
    if np.ma.isMaskedArray(a):
        return {"data": b64(np.ma.getdata(a), np.float64), "mask": b64(np.ma.getmaskarray(a), np.uint8),
                "dtype": str(a.dtype)}
    return {"data": b64(a, np.float64), "dtype": str(np.asarray(a).dtype)}


def err(e):
    return {"error": type(e).__name__, "msg": str(e)[:200]}


class RunTimeout(Exception):
    """one configuration of one case ran for longer than the per-configuration limit"""


TIMEOUTS = [0]


def _alarm(signum, frame):
    TIMEOUTS[0] += 1
    signal.alarm(5)          # whatever is called next gets 5 more seconds
    raise RunTimeout("configuration did not finish within %d s" % LIMIT)


LIMIT = int(req.get("limit", 120))
signal.signal(signal.SIGALRM, _alarm)


def mk_geo(g):
    if g["kind"] == "area":
        return geometry.AreaDefinition("a", "a", "a", g["proj"], g["w"], g["h"], tuple(g["extent"]))
    lons = np.array(g["lons"], dtype=g.get("dtype", "float64")).reshape(g["shape"])
    lats = np.array(g["lats"], dtype=g.get("dtype", "float64")).reshape(g["shape"])
    if g["kind"] == "grid":
        return geometry.GridDefinition(lons, lats)
    return geometry.SwathDefinition(lons, lats)


class NpProxy:
    """Forwards everything to numpy; records (name, argument, value) of scalar libm calls."""

    NAMES = ("sin", "cos", "arcsin", "arccos", "tan", "arctan", "arctan2", "degrees", "radians", "deg2rad", "rad2deg")

    def __init__(self):
        self.log = []

    def __getattr__(self, name):
        f = getattr(np, name)
        if name in self.NAMES:
            def g(*a, **k):
                v = f(*a, **k)
                if np.ndim(v) == 0 and len(a) == 1 and np.ndim(a[0]) == 0:
                    self.log.append([name, float(a[0]).hex(), float(v).hex()])
                return v
            return g
        return f


def custom_w(r):
    return 1.0 / (1.0 + r / 25000.0)


def custom_w2(r):
    return np.exp(-r / 40000.0)


def datasets(case, n_src):
    out = []
    for d in case["datasets"]:
        a = np.array(d["values"], dtype=d.get("dtype", "float64"))
        if d.get("channels", 1) > 1:
            a = a.reshape(n_src, d["channels"])
        if d.get("mask") is not None:
            a = np.ma.array(a, mask=np.array(d["mask"], dtype=bool).reshape(a.shape))
        out.append((a, d))
    return out


def sample_all(case, src, tgt, info1, infok, data, dd, fill):
    """get_sample_from_neighbour_info for nn / gauss-like custom / custom with uncertainty."""
    out = {}
    nch = dd.get("channels", 1)
    shape = tgt.shape
    sig = case["sigma"]

    def gauss(s):
        return lambda r: np.exp(-r ** 2 / float(s) ** 2)
    try:
        vii, voi, ia, da = info1
        out["nn"] = fl(kd_tree.get_sample_from_neighbour_info("nn", shape, data, vii, voi, ia, fill_value=fill))
    except Exception as e:
        out["nn"] = err(e)
    try:
        vii, voi, ia, da = infok
        wf = [gauss(sig * (1 + j)) for j in range(nch)] if nch > 1 else gauss(sig)
        out["gauss"] = fl(kd_tree.get_sample_from_neighbour_info("custom", shape, data, vii, voi, ia, distance_array=da,
                                                                 weight_funcs=wf, fill_value=fill))
    except Exception as e:
        out["gauss"] = err(e)
    try:
        vii, voi, ia, da = infok
        wf = [custom_w, custom_w2][:nch] if nch > 1 else custom_w
        r = kd_tree.get_sample_from_neighbour_info("custom", shape, data, vii, voi, ia, distance_array=da,
                                                   weight_funcs=wf, fill_value=fill, with_uncert=True)
        out["custom"] = fl(r[0])
        out["custom_std"] = fl(r[1])
        out["custom_cnt"] = fl(r[2])
    except Exception as e:
        out["custom"] = err(e)
    return out


def fresh_all(case, src, tgt, data, dd, fill, cfg):
    out = {}
    nch = dd.get("channels", 1)
    kw = dict(reduce_data=cfg["reduce"], nprocs=cfg["nprocs"], segments=cfg["segments"], fill_value=fill)
    r, k, sig = case["radius"], case["k"], case["sigma"]
    try:
        out["nn"] = fl(kd_tree.resample_nearest(src, data, tgt, r, **kw))
    except Exception as e:
        out["nn"] = err(e)
    try:
        sg = [sig * (1 + j) for j in range(nch)] if nch > 1 else sig
        out["gauss"] = fl(kd_tree.resample_gauss(src, data, tgt, r, sg, neighbours=k, **kw))
    except Exception as e:
        out["gauss"] = err(e)
    try:
        wf = [custom_w, custom_w2][:nch] if nch > 1 else custom_w
        res = kd_tree.resample_custom(src, data, tgt, r, wf, neighbours=k, with_uncert=True, **kw)
        out["custom"] = fl(res[0])
        out["custom_std"] = fl(res[1])
        out["custom_cnt"] = fl(res[2])
    except Exception as e:
        out["custom"] = err(e)
    return out


def info_json(info):
    vii, voi, ia, da = info
    return {"vii": b64(vii, np.uint8), "voi": b64(voi, np.uint8), "ia": b64(ia, np.int64), "da": b64(da, np.float64),
            "ia_dtype": str(ia.dtype)}


def run_case(case):
    out = {"id": case["id"]}
    src = mk_geo(case["source"])
    tgt = mk_geo(case["target"])
    out["S"], out["T"], out["rows"] = int(src.size), int(tgt.size), int(tgt.shape[0])
    out["tshape"] = [int(x) for x in tgt.shape]
    r, k = case["radius"], case["k"]
    dsets = datasets(case, src.size)

    # coordinates as the resampler sees them (for the independent oracle of the harness)
    try:
        slon, slat = src.get_lonlats()
        tlon, tlat = tgt.get_lonlats()
        out["src_lonlat"] = [b64(np.asarray(slon).ravel(), np.float64), b64(np.asarray(slat).ravel(), np.float64)]
        out["tgt_lonlat"] = [b64(np.asarray(tlon).ravel(), np.float64), b64(np.asarray(tlat).ravel(), np.float64)]
    except Exception as e:
        out["geo_error"] = err(e)
        return out

    # coordinates through the multi-process path (Proj_MP), for the geometries that have one
    if any(c["nprocs"] > 1 for c in case["configs"]):
        out["lonlats_mp"] = {}
        for which, g in (("target", tgt), ("source", src)):
            if isinstance(g, geometry.AreaDefinition):
                try:
                    signal.alarm(LIMIT)
                    a, b = g.get_lonlats(nprocs=2)
                    signal.alarm(0)
                    out["lonlats_mp"][which] = {"lon": b64(np.asarray(a).ravel(), np.float64), "lat": b64(np.asarray(b).ravel(), np.float64)}
                except Exception as e:
                    signal.alarm(0)
                    out["lonlats_mp"][which] = err(e)

    # the reduction mask itself, with the libm values the implementation used
    red = {}
    griddish = (geometry.GridDefinition, geometry.AreaDefinition)
    if isinstance(tgt, griddish):
        bgeo, plon, plat, red["applies_to"] = tgt, slon, slat, "source"
    elif isinstance(src, griddish):
        bgeo, plon, plat, red["applies_to"] = src, tlon, tlat, "target"
    else:
        bgeo = None
        red["applies_to"] = "none"
    if bgeo is not None:
        try:
            bl, bt = bgeo.get_boundary_lonlats()
            sides = []
            for b in (bl, bt):
                sides.append([[float(x).hex() for x in np.asarray(s, dtype=np.float64).reshape(-1)]
                              for s in (b.side1, b.side2, b.side3, b.side4)])
            red["side_lons"], red["side_lats"] = sides
            red["side_ndim"] = [int(np.ndim(s)) for s in (bl.side1, bl.side2, bl.side3, bl.side4)]
            proxy = NpProxy()
            old = data_reduce.np
            data_reduce.np = proxy
            try:
                m = data_reduce.get_valid_index_from_lonlat_boundaries(
                    bl, bt, np.asarray(plon, dtype=np.float64).ravel(), np.asarray(plat, dtype=np.float64).ravel(), r)
            finally:
                data_reduce.np = old
            red["mask"] = b64(np.asarray(m), np.uint8)
            red["libm"] = proxy.log
        except Exception as e:
            red["error"] = err(e)
    out["red"] = red

    runs = []
    tgt0 = tgt
    for cfg in case["configs"]:
        o = {"cfg": cfg}
        kw = dict(reduce_data=cfg["reduce"], nprocs=cfg["nprocs"], segments=cfg["segments"])
        tgt = tgt0
        if cfg.get("cache_target") and isinstance(tgt0, geometry.AreaDefinition):
            # history on one object: an earlier get_lonlats(cache=True) makes every later (sliced) call read the stored arrays
            tgt = mk_geo(case["target"])
            tgt.get_lonlats(cache=True)
        if TIMEOUTS[0] >= 3:
            # the implementation hangs: do not spend the whole budget waiting; what was observed so far is reported
            o.update({"skipped": True, "info1": {"error": "Skipped"}, "infok": {"error": "Skipped"},
                      "two_step": [None] * len(dsets), "fresh": [None] * len(dsets)})
            runs.append(o)
            continue
        signal.alarm(LIMIT if TIMEOUTS[0] == 0 else 10)
        try:
            info1 = kd_tree.get_neighbour_info(src, tgt, r, neighbours=1, **kw)
            o["info1"] = info_json(info1)
        except Exception as e:
            info1 = None
            o["info1"] = err(e)
        try:
            infok = kd_tree.get_neighbour_info(src, tgt, r, neighbours=k, **kw)
            o["infok"] = info_json(infok)
        except Exception as e:
            infok = None
            o["infok"] = err(e)
        signal.alarm(0)
        if info1 is None and infok is None and "RunTimeout" in (o["info1"].get("error"), o["infok"].get("error")):
            o["two_step"], o["fresh"] = [None] * len(dsets), [None] * len(dsets)
            runs.append(o)
            continue
        signal.alarm(3 * LIMIT)
        o["two_step"], o["fresh"] = [], []
        before = [[np.array(a, copy=True) for a in i] if i is not None else None for i in (info1, infok)]
        for di, (data, dd) in enumerate(dsets):
            fill = dd.get("fill", 0)
            if info1 is not None and infok is not None and (di == 0 or cfg.get("reuse", True)):
                o["two_step"].append(sample_all(case, src, tgt, info1, infok, data, dd, fill))
            else:
                o["two_step"].append(None)
            if di == 0 or cfg.get("fresh_all", False):
                o["fresh"].append(fresh_all(case, src, tgt, data, dd, fill, cfg))
            else:
                o["fresh"].append(None)
        # the info must still be what it was after having been used on every dataset
        same = True
        for i, b in zip((info1, infok), before):
            if i is not None:
                same = same and all(np.array_equal(x, y, equal_nan=True) for x, y in zip(i, b))
        o["info_unchanged_by_sampling"] = bool(same)
        signal.alarm(0)
        runs.append(o)
    out["runs"] = runs
    return out


if req.get("probe_mp"):
    ok = False
    try:
        sw = geometry.SwathDefinition(np.array([1.0, 2.0, 3.0]), np.array([1.0, 2.0, 3.0]))
        ar = geometry.AreaDefinition("a", "a", "a", {"proj": "longlat", "datum": "WGS84"}, 3, 3, (0, 0, 4, 4))
        a = kd_tree.resample_nearest(sw, np.array([1.0, 2.0, 3.0]), ar, 200000, nprocs=2, reduce_data=False)
        ok = a.shape == (3, 3)
    except Exception:
        ok = False
    json.dump({"cases": [], "mp_ok": ok}, sys.stdout)
    sys.exit(0)

def one_call(src, tgt, data, c):
    """one resampling call of a history: neighbour info (k neighbours) and the nearest-neighbour result"""
    signal.alarm(LIMIT)
    try:
        kw = dict(reduce_data=c["reduce"], segments=c["segments"], nprocs=1, epsilon=c.get("epsilon", 0))
        info = kd_tree.get_neighbour_info(src, tgt, c["radius"], neighbours=c["k"], **kw)
        res = kd_tree.resample_nearest(src, data, tgt, c["radius"], fill_value=c.get("fill", -1), **kw)
        out = {"info": info_json(info), "nn": fl(res)}
    except Exception as e:
        out = err(e)
    signal.alarm(0)
    return out


def isolated(fn):
    """run fn in a forked child of THIS process as it is now (before any history call): a call without a past"""
    import multiprocessing as mp
    ctx = mp.get_context("fork")
    rd, wr = ctx.Pipe(False)

    def work():
        try:
            wr.send(fn())
        except Exception as e:
            wr.send(err(e))
    p = ctx.Process(target=work)
    p.start()
    out = rd.recv() if rd.poll(4 * LIMIT) else {"error": "RunTimeout", "msg": "isolated call did not finish"}
    p.join(5)
    if p.is_alive():
        p.terminate()
    return out


def run_histories(hists):
    """Every call of every history first as an isolated first call (forked children, fresh objects), then the histories
    themselves, one after the other in this process: same objects re-used or equal-content fresh objects, as requested."""
    outs = []
    prepared = []
    for h in hists:
        data = np.array(h["data"], dtype=np.float64)
        iso = []
        for c in h["calls"]:
            iso.append(isolated(lambda c=c: one_call(mk_geo(h["source"]), mk_geo(h["target"]), data, c)))
        prepared.append((h, data, iso))
    for h, data, iso in prepared:
        src, tgt = mk_geo(h["source"]), mk_geo(h["target"])
        got = []
        for c in h["calls"]:
            if c.get("fresh"):
                src, tgt = mk_geo(h["source"]), mk_geo(h["target"])
            got.append(one_call(src, tgt, data, c))
        outs.append({"id": h["id"], "isolated": iso, "history": got})
    return outs


res = []
hres = run_histories(req.get("histories", []))
for case in req["cases"]:
    try:
        res.append(run_case(case))
    except Exception as e:  # a crash of the driver logic itself is reported per case
        res.append({"id": case.get("id"), "driver_error": err(e)})
json.dump({"cases": res, "histories": hres}, sys.stdout)
