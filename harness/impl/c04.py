"""Driver: run the real kd_tree.resample_gauss / resample_custom (and get_neighbour_info with the same arguments)
on the given cases (C04).  No model logic here: inputs in, raw observations out (floats as float.hex strings)."""
import json
import sys
import warnings

import numpy as np

warnings.simplefilter("ignore")
from pyresample import geometry, kd_tree  # noqa: E402


def unhex(x):
    return float.fromhex(x) if isinstance(x, str) else float(x)


def arr(nested, dtype=np.float64):
    a = np.array(nested, dtype=object)
    return np.vectorize(unhex, otypes=[np.float64])(a).astype(dtype)


def relayout(a, kind):
    """The same logical array in another memory layout (test input construction only)."""
    if kind == "C" or a.ndim < 2:
        return np.ascontiguousarray(a)
    if kind == "F":
        return np.asfortranarray(a)
    if kind == "T":             # a .T-style view of an array stored with the first two axes swapped
        return np.ascontiguousarray(a.swapaxes(0, 1)).swapaxes(0, 1)
    if kind == "strided":       # every 2nd row / 3rd column of a larger array
        big = np.zeros((2 * a.shape[0], 3 * a.shape[1]) + a.shape[2:], dtype=a.dtype)
        big[::2, ::3] = a
        return big[::2, ::3]
    if kind == "neg":           # negative strides along both leading axes
        return np.ascontiguousarray(a[::-1, ::-1])[::-1, ::-1]
    raise KeyError(kind)


def geo(g, layout="C", f32=False):
    if g["kind"] == "swath":
        dt = np.float32 if f32 else np.float64
        return geometry.SwathDefinition(lons=relayout(arr(g["lons"], dt), layout), lats=relayout(arr(g["lats"], dt), layout))
    return geometry.AreaDefinition("a", "a", "a", g["proj"], g["width"], g["height"], [unhex(v) for v in g["extent"]])


# ---- weight functions handed to resample_custom (test inputs; the harness has its own scalar versions)
def make_wf(name, p, log):
    def bins(d):
        return np.where(d < p, 1.0, np.where(d < 3 * p, 0.5, np.where(d < 6 * p, 0.25, 0.0)))

    def inv(d):
        return 1.0 / (1.0 + (d / p) * (d / p))

    def lin(d):
        return np.maximum(0.0, 1.0 - d / p)

    def const(d):
        return p

    def step0(d):
        return np.where(d < p, 0.0, 1.0)

    def allzero(d):
        return np.zeros(np.shape(d))

    # singular / huge at distance 0
    def invd(d):
        return p / d

    def invd2(d):
        return p / (d * d)

    def invdt(d):
        return 1.0 / (d + p)

    # singular at the placeholder distance 1 that the code writes into missing slots
    def sing1(d):
        return p / np.abs(d - 1.0)

    def sing1sq(d):
        return p / ((d - 1.0) * (d - 1.0))

    f = {"bins": bins, "inv": inv, "lin": lin, "const": const, "step0": step0, "allzero": allzero,
         "invd": invd, "invd2": invd2, "invdt": invdt, "sing1": sing1, "sing1sq": sing1sq}[name]

    def recorded(d):
        w = f(d)
        log.append((np.array(d, dtype=np.float64, copy=True), np.array(np.ones(np.shape(d)) * w, dtype=np.float64)))
        return w
    return recorded


def hx(v):
    return float(v).hex()


def unpack(a, ntgt):
    """-> values (ntgt x C hex), mask (ntgt x C 0/1) or None when not a masked array"""
    is_ma = np.ma.isMA(a)
    d = np.asarray(np.ma.getdata(a), dtype=np.float64).reshape(ntgt, -1)
    out = {"val": [[hx(v) for v in row] for row in d], "mask": None}
    if is_ma:
        m = np.ma.getmaskarray(a).reshape(ntgt, -1)
        out["mask"] = [[int(bool(v)) for v in row] for row in m]
    return out


def same_arrays(a, b):
    if isinstance(a, tuple) != isinstance(b, tuple):
        return "return kind"
    if not isinstance(a, tuple):
        a, b = (a,), (b,)
    if len(a) != len(b):
        return "number of arrays"
    for n, (x, y) in enumerate(zip(a, b)):
        if np.shape(x) != np.shape(y):
            return "shape of output %d" % n
        mx, my = np.ma.getmaskarray(x), np.ma.getmaskarray(y)
        if not np.array_equal(mx, my):
            return "mask of output %d" % n
        dx, dy = np.asarray(np.ma.getdata(x), dtype=np.float64), np.asarray(np.ma.getdata(y), dtype=np.float64)
        ok = (dx == dy) | ((dx != dx) & (dy != dy)) | mx
        if not np.all(ok):
            i = int(np.argmin(ok.ravel()))
            return "output %d element %d: %r vs %r" % (n, i, float(dx.ravel()[i]), float(dy.ravel()[i]))
    return None


def run_case(c):
    out = run_case_layout(c, c.get("layout", "C"), c.get("coord_layout", "C"), True)
    return out


def run_case_layout(c, layout, coord_layout, primary):
    src, tgt = geo(c["src"], coord_layout, c.get("src_f32")), geo(c["tgt"], coord_layout, c.get("tgt_f32"))
    dtype = np.dtype(c["dtype"])
    data = relayout(arr(c["data"], dtype), layout)
    if c.get("mask") is not None:
        data = np.ma.array(data, mask=relayout(np.array(c["mask"], dtype=bool), layout))
    data_before = np.array(np.ma.getdata(data), copy=True)
    mask_before = np.array(np.ma.getmaskarray(data), copy=True)
    radius = unhex(c["radius"])
    if c.get("radius_int"):
        radius = int(radius)
    epsilon = unhex(c.get("epsilon", 0.0))
    k = c["k"]
    fill = None if c["fill"] is None else unhex(c["fill"])
    if fill is not None and dtype.kind == "i":
        fill = int(fill)
    nchan = c["C"]
    out = {}
    slon, slat = src.get_lonlats()
    tlon, tlat = tgt.get_lonlats()
    out["src_lonlat"] = [[hx(a), hx(b)] for a, b in zip(np.ravel(slon), np.ravel(slat))]
    out["tgt_lonlat"] = [[hx(a), hx(b)] for a, b in zip(np.ravel(tlon), np.ravel(tlat))]
    ntgt = len(out["tgt_lonlat"])
    kw = dict(neighbours=k, reduce_data=c["reduce_data"], segments=c.get("segments"))
    if epsilon > 0:
        kw["epsilon"] = epsilon
    vin, vout, index, dist = kd_tree.get_neighbour_info(src, tgt, radius, **kw)
    out["valid_in"] = [int(bool(v)) for v in vin]
    out["valid_out"] = [int(bool(v)) for v in vout]
    index2 = np.asarray(index).reshape(len(index), k)
    dist_raw = np.asarray(dist).reshape(len(index), k)      # in the kd-tree's dtype (float32 for float32 source geometry)
    dist2 = np.asarray(dist_raw, dtype=np.float64)
    out["dist_dtype"] = str(dist_raw.dtype)
    out["index"] = [[int(v) for v in row] for row in index2]
    out["dist"] = [[hx(v) for v in row] for row in dist2]
    out["index_ndim"] = int(np.asarray(index).ndim)
    n_valid = int(np.sum(vin))

    # the distances the weight functions are called with (missing -> 1)
    dcols = []
    for i in range(index2.shape[1]):
        dcol = dist_raw[:, i].copy()
        dcol[index2[:, i] == n_valid] = 1
        dcols.append(dcol)

    logs = [[] for _ in range(max(nchan, 1))]
    if c["mode"] == "gauss":
        sig = [unhex(s) for s in c["sigmas"]]
        sigmas = sig if nchan else sig[0]
        res = kd_tree.resample_gauss(src, data, tgt, radius, sigmas, fill_value=fill, with_uncert=c["with_uncert"], **kw)
        # the documented weight exp(-d^2/sigma^2), evaluated on the same arrays
        for j, s in enumerate(sig):
            for dcol in dcols:
                logs[j].append((dcol, np.exp(-dcol ** 2 / float(s) ** 2)))
    else:
        fs = [make_wf(name, unhex(p), logs[j]) for j, (name, p) in enumerate(c["wf"])]
        wfs = fs if nchan else fs[0]
        res = kd_tree.resample_custom(src, data, tgt, radius, wfs, fill_value=fill, with_uncert=c["with_uncert"], **kw)
    tables, conflict = [], False
    for lg in logs:
        tab = {}
        for d, w in lg:
            for a, b in zip(np.ravel(d), np.ravel(w)):
                key = hx(a)
                if key in tab and tab[key] != hx(b) and not (b != b):
                    conflict = True
                tab[key] = hx(b)
        if "0x1.0000000000000p+0" not in tab and c["mode"] == "gauss":
            pass
        tables.append([[a, b] for a, b in tab.items()])
    out["tables"] = tables
    out["table_conflict"] = conflict
    if isinstance(res, tuple):
        out["ret_len"] = len(res)
        out["res"] = unpack(res[0], ntgt)
        if len(res) == 3:
            out["sd"] = unpack(res[1], ntgt)
            out["cnt"] = unpack(res[2], ntgt)
    else:
        out["ret_len"] = 1
        out["res"] = unpack(res, ntgt)
    out["res_dtype"] = str(np.asarray(np.ma.getdata(res[0] if isinstance(res, tuple) else res)).dtype)
    # caller's arrays untouched?
    same_data = np.array_equal(data_before, np.asarray(np.ma.getdata(data)), equal_nan=(data_before.dtype.kind == "f"))
    if not same_data or not np.array_equal(mask_before, np.ma.getmaskarray(data)):
        out["input_mutated"] = "data array" if not same_data else "mask"
    if not primary:
        out["_raw"] = res
        return out
    # the same logical input in C-contiguous arrays must give the same output
    if layout != "C" or coord_layout != "C":
        ref = run_case_layout(c, "C", "C", False)
        diff = same_arrays(res, ref["_raw"])
        out["same_as_c"] = diff is None
        if diff is not None:
            out["layout_diff"] = diff
    return out


req = json.load(sys.stdin)
outs = []
for case in req["cases"]:
    try:
        outs.append(run_case(case))
    except Exception as e:  # reported, judged by the harness
        outs.append({"error": type(e).__name__, "msg": str(e)[:300]})
json.dump({"cases": outs}, sys.stdout)
