"""Driver: run the real gradient search kernels, block interpolators and the resample_blocks gradient resampler (C09).

JSON on stdin -> JSON on stdout.  No model logic: arrays go in, arrays come out; with "trace" the arguments and
results of the per-block functions the resampler itself calls are recorded (wrappers that call the original)."""
import functools
import json
import sys

import dask
import numpy as np

dask.config.set(scheduler="synchronous")

import pyresample  # noqa: E402
import pyresample.gradient as G  # noqa: E402
import pyresample.resampler as R  # noqa: E402
from pyresample.geometry import AreaDefinition  # noqa: E402
from pyresample.gradient._gradient_search import one_step_gradient_indices, one_step_gradient_search  # noqa: E402

req = json.load(sys.stdin)
out = {"chunk_size": int(pyresample.CHUNK_SIZE)}


def err(e):
    return {"error": type(e).__name__, "msg": str(e)[:200]}


def flat(a):
    return [float(v) for v in np.asarray(a, dtype=np.float64).ravel()]


def arr(l, shape, dtype=np.float64):
    return np.array(l, dtype=np.float64).reshape(shape).astype(dtype)


def area(spec, name):
    if spec.get("from"):       # an area that is itself a slice (of a slice ...) of a bigger area: big[r0:r1, c0:c1][...]
        big = spec["from"]["big"]
        h, w = big["shape"]
        a = AreaDefinition(name, name, name, big["proj"], w, h, tuple(big["extent"]))
        for (r0, r1), (c0, c1) in spec["from"]["steps"]:
            a = a[r0:r1, c0:c1]
        if list(a.shape) != list(spec["shape"]):
            raise ValueError("sliced area has shape %s, expected %s" % (a.shape, spec["shape"]))
        return a
    h, w = spec["shape"]
    return AreaDefinition(name, name, name, spec["proj"], w, h, tuple(spec["extent"]))


# ------------------------------------------------------------------ the .pyx source, run as Python
def pyx_as_python(path):
    """The text of _gradient_search.pyx with the C declarations removed, so that the SOURCE (which cannot be
    recompiled here) can be executed and compared with the compiled module.  Purely syntactic; fail-closed."""
    import re
    out = []
    lines = open(path).read().split("\n")
    k = 0
    while k < len(lines):
        ln = lines[k]
        t = ln.strip()
        ind = ln[:len(ln) - len(ln.lstrip())]
        k += 1
        if t.startswith(("cimport ", "from libc", "np.import_array", "@cython", "ctypedef void")):
            continue
        if t.startswith("ctypedef fused"):
            while k < len(lines) and lines[k].startswith((" ", "\t")) and lines[k].strip():
                k += 1
            continue
        if t.startswith("ctypedef "):
            continue
        if re.match(r"^c?p?def\s", t) and "(" in t and not t.startswith("def ") and "=" not in t.split("(")[0]:
            sig = t
            while sig.count("(") > sig.count(")") or not sig.rstrip().endswith(":"):
                sig += " " + lines[k].strip()
                k += 1
            m = re.match(r"^c?p?def\s+(?:inline\s+)?(?:[\w\[\], :.]+?\s+)?(\w+)\s*\((.*)\)\s*(?:noexcept)?\s*(?:nogil)?\s*:\s*$", sig)
            if not m:
                raise ValueError("cannot read cython signature: " + sig)
            params, depth, cur = [], 0, ""
            for ch in m.group(2):
                depth += ch in "[("
                depth -= ch in "])"
                if ch == "," and depth == 0:
                    params.append(cur)
                    cur = ""
                else:
                    cur += ch
            params.append(cur)
            names = []
            for prm in params:
                mm = re.search(r"(\w+)\s*(=\s*[^=]+)?$", prm.strip())
                names.append(mm.group(1) + (mm.group(2) or ""))
            out.append(ind + "def %s(%s):" % (m.group(1), ", ".join(names)))
            continue
        if t.startswith("cdef "):
            if "=" in t:
                left, right = t.split("=", 1)
                out.append(ind + re.findall(r"\w+", left)[-1] + " =" + right)
            continue
        ln = re.sub(r"<\s*\w+\s*>", "", ln)
        ln = re.sub(r"(\w+)\[float_index\]\(", r"\1(", ln)
        if t.startswith("with nogil"):
            ln = ind + "if True:"
        out.append(ln)
    return "\n".join(out)


def load_pyx_source():
    import math
    import os

    def c_int(x):      # the C cast (int)x on x86-64
        x = float(x)
        if x != x or abs(x) >= 2.0 ** 31:
            return -2 ** 31
        return math.trunc(x)
    ns = {"isinf": math.isinf, "fabs": math.fabs, "int": c_int, "data_type": None, "double": None, "__name__": "pyx_source"}
    path = os.path.join(os.path.dirname(G.__file__), "_gradient_search.pyx")
    exec(compile(pyx_as_python(path), path, "exec"), ns)
    return ns


# ------------------------------------------------------------------ the Cython kernels, called directly
res = []
pyx = None
pyx_error = None
if req.get("direct"):
    try:
        pyx = load_pyx_source()
    except Exception as e:  # noqa: BLE001
        pyx_error = err(e)
for c in req.get("direct", []):
    try:
        s = (c["nl"], c["np"])
        t = (c["H"], c["W"])
        a = [arr(c[k], s) for k in ("sx", "sy", "xl", "xp", "yl", "yp")] + [arr(c["dx"], t), arr(c["dy"], t)]
        r = {"idx": [flat(v) for v in one_step_gradient_indices(*a)]}
        if "data" in c:
            d = arr(c["data"], (1,) + s)
            r["nn"] = flat(one_step_gradient_search(d, *a, method="nn"))
            r["bil"] = flat(one_step_gradient_search(d, *a, method="bilinear"))
        if pyx is not None:
            try:
                r["src"] = {"idx": [flat(v) for v in pyx["one_step_gradient_indices"](*a)]}
                if "data" in c:
                    r["src"]["nn"] = flat(pyx["one_step_gradient_search"](d, *a, method="nn"))
                    r["src"]["bil"] = flat(pyx["one_step_gradient_search"](d, *a, method="bilinear"))
            except Exception as e:  # noqa: BLE001
                r["src"] = err(e)
        else:
            r["src"] = pyx_error
        res.append(r)
    except Exception as e:  # noqa: BLE001
        res.append(err(e))
out["direct"] = res

# ------------------------------------------------------------------ the block interpolators, called directly
res = []
for c in req.get("interp", []):
    try:
        dt = np.dtype(c.get("dtype", "float64"))
        lead = tuple(c.get("lead", ()))
        d = arr(c["data"], lead + (c["nl"], c["np"]), dt)
        idx = np.stack([arr(c["ix"], (c["H"], c["W"])), arr(c["iy"], (c["H"], c["W"]))])
        bi = {0: {"array-location": (slice(c["oy"], c["oy"] + c["nl"]), slice(c["ox"], c["ox"] + c["np"]))}, None: {}}
        r = {}
        for m, f in (("nn", G.block_nn_interpolator), ("bil", G.block_bilinear_interpolator)):
            v = f(d, idx, fill_value=np.nan, block_info=bi)
            r[m] = flat(v)
            r[m + "_dtype"] = str(v.dtype)
        res.append(r)
    except Exception as e:  # noqa: BLE001
        res.append(err(e))
out["interp"] = res

# ------------------------------------------------------------------ whole-area indices (no blocks)
res = []
for c in req.get("indices", []):
    try:
        v = G.gradient_resampler_indices(area(c["src"], "s"), area(c["dst"], "d"))
        res.append({"x": flat(v[0]), "y": flat(v[1])})
    except Exception as e:  # noqa: BLE001
        res.append(err(e))
out["indices"] = res

# ------------------------------------------------------------------ whole-area Cython resampling (gradient_resampler)
res = []
for c in req.get("legacy", []):
    try:
        src, dst = area(c["src"], "s"), area(c["dst"], "d")
        d = arr(c["data"], tuple(c["src"]["shape"]))
        res.append({"nn": flat(G.gradient_resampler(d, src, dst, method="nn")),
                    "bil": flat(G.gradient_resampler(d, src, dst, method="bilinear")),
                    "bil3d": flat(G.gradient_resampler(np.stack([d, 2 * d + 1]), src, dst, method="bilinear"))})
    except Exception as e:  # noqa: BLE001
        res.append(err(e))
out["legacy"] = res

# ------------------------------------------------------------------ the legacy stacking path: parallel_gradient_search
res = []
for c in req.get("stacked", []):
    try:
        src, dst = area(c["src"], "s"), area(c["dst"], "d")
        (dx, dy), (xl, xp, yl, yp), (sx, sy) = G._get_coordinates_in_same_projection(src, dst)
        dx, dy = np.asarray(dx, dtype=np.float64), np.asarray(dy, dtype=np.float64)
        d = arr(c["data"], tuple(c["src"]["shape"]))[np.newaxis]
        args = [[] for _ in range(12)]
        for ci, (c0, c1) in enumerate(c["cols"]):
            for ri, (r0, r1) in enumerate(c["rows"]):
                for (a0, a1, b0, b1) in c["crops"]:
                    ys, xs = slice(a0, a1), slice(b0, b1)
                    vals = [d[:, ys, xs], sx[ys, xs], sy[ys, xs], dx[r0:r1, c0:c1], dy[r0:r1, c0:c1],
                            xl[ys, xs], xp[ys, xs], yl[ys, xs], yp[ys, xs], (ci, ri), (r0, r1, c0, c1)]
                    for k, v in enumerate(vals):
                        args[k].append(np.ascontiguousarray(v) if isinstance(v, np.ndarray) else v)
        v = G.parallel_gradient_search(*args[:11], method="bilinear")
        v = np.asarray(v.compute())
        res.append({"shape": list(v.shape), "values": flat(v), "sx": flat(sx), "sy": flat(sy), "xl": flat(xl), "xp": flat(xp),
                    "yl": flat(yl), "yp": flat(yp), "dx": flat(dx), "dy": flat(dy)})
    except Exception as e:  # noqa: BLE001
        res.append(err(e))
out["stacked"] = res

# ------------------------------------------------------------------ the resampler, per PYTROLL_CHUNK_SIZE (this process)
trace = None
blocks_seen = None
_area_slices = {}

_orig_enum = R._enumerate_dst_area_chunks
_orig_crop = R.crop_data_around_area
_orig_raw = G._gradient_resample_indices
_orig_gri = G.gradient_resampler_indices
_orig_nn = G.block_nn_interpolator
_orig_bil = G.block_bilinear_interpolator


def _enum(dst_area, dst_chunks):
    for block_info, a in _orig_enum(dst_area, dst_chunks):
        _area_slices[id(a)] = (a, block_info["array-location"][-2:])
        yield block_info, a


def _crop(source_geo_def, src_arrays, target_geo_def):
    rs, cs = _area_slices[id(target_geo_def)][1]
    rec = {"rows": [int(rs.start), int(rs.stop)], "cols": [int(cs.start), int(cs.stop)]}
    try:
        r = _orig_crop(source_geo_def, src_arrays, target_geo_def)
    except Exception as e:  # noqa: BLE001
        rec["crop"] = err(e)
        if blocks_seen is not None:
            blocks_seen.append(rec)
        raise
    ys, xs = r[2]["array-location"]
    h, w = source_geo_def.shape
    rec["crop"] = {"y": [int(v) for v in ys.indices(h)[:2]], "x": [int(v) for v in xs.indices(w)[:2]],
                   "raw": [[ys.start, ys.stop], [xs.start, xs.stop]]}
    if blocks_seen is not None:
        blocks_seen.append(rec)
    return r


_last_raw = []


def _raw(*a):
    r = _orig_raw(*a)
    _last_raw.append(([np.array(v, dtype=np.float64) for v in a], np.array(r)))
    return r


def _gri(source_area, target_area, block_info=None, **kw):
    del _last_raw[:]
    r = _orig_gri(source_area, target_area, block_info, **kw)
    if trace is not None and block_info and len(_last_raw) == 1:
        args, rawout = _last_raw[0]
        ys, xs = block_info[0]["array-location"][-2:]
        rs, cs = block_info[None]["array-location"][-2:]
        trace["indices"].append({
            "rows": [int(rs.start), int(rs.stop)], "cols": [int(cs.start), int(cs.stop)],
            "oy": int(ys.start), "ox": int(xs.start), "nl": int(args[0].shape[0]), "np": int(args[0].shape[1]),
            "H": int(args[6].shape[0]), "W": int(args[6].shape[1]),
            "sx": flat(args[0]), "sy": flat(args[1]), "xl": flat(args[2]), "xp": flat(args[3]),
            "yl": flat(args[4]), "yp": flat(args[5]), "dx": flat(args[6]), "dy": flat(args[7]),
            "raw": [flat(rawout[0]), flat(rawout[1])], "out": [flat(r[0]), flat(r[1])]})
    return r


def _mk_interp(orig, name):
    @functools.wraps(orig)
    def f(data, indices_xy, fill_value=np.nan, block_info=None, **kw):
        r = orig(data, indices_xy, fill_value=fill_value, block_info=block_info, **kw)
        if trace is not None and block_info and np.asarray(data).dtype == np.float64 and np.asarray(data).ndim == 2:
            ys, xs = block_info[0]["array-location"][-2:]
            rs, cs = block_info[None]["array-location"][-2:]
            trace["interp"].append({
                "meth": name, "rows": [int(rs.start), int(rs.stop)], "cols": [int(cs.start), int(cs.stop)],
                "oy": int(ys.start), "ox": int(xs.start), "nl": int(data.shape[-2]), "np": int(data.shape[-1]),
                "H": int(indices_xy.shape[-2]), "W": int(indices_xy.shape[-1]),
                "data": flat(data), "ix": flat(indices_xy[0]), "iy": flat(indices_xy[1]), "out": flat(r)})
        return r
    return f


R._enumerate_dst_area_chunks = _enum
R.crop_data_around_area = _crop
G._gradient_resample_indices = _raw
G.gradient_resampler_indices = _gri
G.block_nn_interpolator = _mk_interp(_orig_nn, "nn")
G.block_bilinear_interpolator = _mk_interp(_orig_bil, "bil")

res = []
for c in req.get("resample", []):
    r = {}
    try:
        import dask.array as da
        import xarray as xr
        src, dst = area(c["src"], "s"), area(c["dst"], "d")
        sh = tuple(c["src"]["shape"])
        R.crop_source_area.cache_clear()
        blocks_seen = []
        trace = {"indices": [], "interp": []} if c.get("trace") else None
        resampler = G.ResampleBlocksGradientSearchResampler(src, dst)
        resampler.precompute()
        idx = np.asarray(resampler.indices_xy.compute())
        r["blocks"] = blocks_seen
        r["idx"] = [flat(idx[0]), flat(idx[1])]
        blocks_seen = None
        r["runs"] = []
        for run in c["runs"]:
            dt = np.dtype(run["dtype"])
            bands = run.get("bands", 0)
            base = arr(c["data"], sh)
            if bands:
                full = np.stack([base * (k + 1) + k for k in range(bands)]).astype(dt)
                xd = xr.DataArray(da.from_array(full, chunks=(bands,) + tuple(run.get("src_chunks", sh))), dims=("bands", "y", "x"))
            else:
                full = base.astype(dt)
                xd = xr.DataArray(da.from_array(full, chunks=tuple(run.get("src_chunks", sh))), dims=("y", "x"))
            try:
                v = resampler.compute(xd, method=run["method"]).compute()
                r["runs"].append({"shape": list(v.shape), "dtype": str(v.dtype), "dims": list(v.dims), "values": flat(v.values)})
            except Exception as e:  # noqa: BLE001
                r["runs"].append(err(e))
        if trace is not None:
            r["trace"] = trace
        trace = None
    except Exception as e:  # noqa: BLE001
        r.update(err(e))
    res.append(r)
out["resample"] = res

# ------------------------------------------------------------------ resample_blocks with EXPLICIT (irregular) decompositions,
# called the way ResampleBlocksGradientSearchResampler.precompute/compute call it
res = []
for c in req.get("blocks", []):
    r = {"decomps": []}
    try:
        import dask.array as da
        src, dst = area(c["src"], "s"), area(c["dst"], "d")
        sh = tuple(c["src"]["shape"])
        full = arr(c["data"], sh)
        lazies = []
        for dc in c["decomps"]:
            o = {}
            try:
                rows, cols = tuple(dc["rows"]), tuple(dc["cols"])
                R.crop_source_area.cache_clear()
                blocks_seen = []
                idx = R.resample_blocks(G.gradient_resampler_indices_block, src, [], dst,
                                        chunk_size=((2,), rows, cols), dtype=float)
                idxv = np.asarray(idx.compute())
                o["blocks"] = blocks_seen
                blocks_seen = None
                o["idx"] = [flat(idxv[0]), flat(idxv[1])]
                o["names"] = {"idx": str(idx.name)}
                sc = dc.get("src_chunks")
                d = da.from_array(full, chunks=(tuple(sc[0]), tuple(sc[1])) if sc else sh)
                lz = {"idx": idx}
                for name, fun in (("nn", G.block_nn_interpolator), ("bil", G.block_bilinear_interpolator)):
                    v = R.resample_blocks(fun, src, [d], dst, dst_arrays=[idx], chunk_size=(rows, cols), dtype=full.dtype)
                    o["chunks"] = [list(map(int, ch)) for ch in v.chunks]
                    o["names"][name] = str(v.name)
                    o[name] = flat(v.compute())
                    lz[name] = v
                lazies.append(lz)
            except Exception as e:  # noqa: BLE001
                blocks_seen = None
                lazies.append(None)
                o.update(err(e))
            r["decomps"].append(o)
        # the same lazy results evaluated TOGETHER in one dask computation, and in expressions mixing two decompositions
        ok = [k for k, lz in enumerate(lazies) if lz is not None]
        try:
            flat_l = [lazies[k][n] for k in ok for n in ("idx", "nn", "bil")]
            got = da.compute(*flat_l)
            r["joint"] = {str(k): {"idx": [flat(got[3 * q][0]), flat(got[3 * q][1])], "nn": flat(got[3 * q + 1]), "bil": flat(got[3 * q + 2]),
                                   "shapes": [list(np.shape(got[3 * q + t])) for t in range(3)]} for q, k in enumerate(ok)}
        except Exception as e:  # noqa: BLE001
            r["joint"] = err(e)
        r["mixed"] = []
        for k in ok[1:]:
            for j in [q for q in ok if q < k][-2:]:
                m = {"k": k, "j": j}
                try:
                    a, b = lazies[k]["bil"], lazies[j]["bil"]
                    m["diff"] = flat((a - b.rechunk(a.chunks)).compute())
                    m["sumdiff"] = float((da.nansum(lazies[k]["nn"]) - da.nansum(lazies[j]["nn"])).compute())
                except Exception as e:  # noqa: BLE001
                    m.update(err(e))
                r["mixed"].append(m)
    except Exception as e:  # noqa: BLE001
        r.update(err(e))
    res.append(r)
out["blocks"] = res
json.dump(out, sys.stdout)
