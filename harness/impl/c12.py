"""Driver (C12): build real pyresample geometries from spelled parameters, run histories of public calls on them
and report RELATIONS (==, hash-equal, digest-equal, key-equal, memo-consistent) plus the oracle answers of
pyproj / dask / json that the model takes as inputs.  No model logic here."""
import copy
import json
import sys
import warnings

warnings.filterwarnings("ignore")
import dask
import dask.array as da
import numpy as np
import xarray as xr
from pyproj import CRS

dask.config.set(scheduler="synchronous")

from pyresample import _caching
from pyresample.future.resamplers.resampler import Resampler, hash_dict, hash_resampler_geometries
from pyresample.geometry import AreaDefinition, StackedAreaDefinition, SwathDefinition, get_array_hashable
from pyresample.resampler import BaseResampler, _create_dask_name, crop_source_area

req = json.load(sys.stdin)


def err(e):
    return {"error": type(e).__name__, "msg": str(e)[:200]}


def fh(x):
    return float(x).hex()


# ------------------------------------------------------------------ oracle tables (pyproj, dask, json)
wkt_ids = {}      # crs_wkt string -> token id
wkt_list = []


def tok(wkt):
    if wkt not in wkt_ids:
        wkt_ids[wkt] = len(wkt_list)
        wkt_list.append(wkt)
    return wkt_ids[wkt]


name_ids = {}


def name_id(n):
    return name_ids.setdefault(n, len(name_ids) + 1)


crs_objs = {}


def crs_of_tok(t):
    if t not in crs_objs:
        crs_objs[t] = CRS.from_wkt(wkt_list[t])
    return crs_objs[t]


def mk_crs_spelling(spec):
    k, v = spec["k"], spec["v"]
    if k in ("str", "int"):
        return v
    if k == "dict":
        return dict(v)
    if k == "obj":
        return CRS(v)
    if k == "wkt":
        return CRS(v).to_wkt()
    if k == "from_epsg":
        return CRS.from_epsg(v)
    if k == "from_epsg_wkt":
        return CRS.from_epsg(v).to_wkt()
    if k == "obj_of_obj":
        return CRS(CRS(v))
    if k == "wkt_fmt":      # WKT text as other tools / other pyproj options write it
        fmt = spec["fmt"]
        return CRS(v).to_wkt(pretty=True) if fmt == "pretty" else CRS(v).to_wkt(fmt)
    raise ValueError(k)


def mk_num(n):
    k, v = n["k"], n["v"]
    if k == "int":
        return int(v)
    if k == "npint":
        return np.int64(int(v))
    x = float.fromhex(v)
    if k == "float":
        return x
    if k == "np64":
        return np.float64(x)
    if k == "f32":
        y = np.float32(x)
        assert float(y) == x
        return y
    raise ValueError(k)


def mk_size(s):
    k, v = s["k"], int(s["v"])
    return {"int": int, "np64i": np.int64, "np32i": np.int32, "float": float, "npf64": np.float64}[k](v)


def mk_extent(e):
    nums = [mk_num(n) for n in e["nums"]]
    c = e["cont"]
    if c == "tuple":
        return tuple(nums)
    if c == "list":
        return list(nums)
    if c == "array":
        return np.array(nums)
    if c == "array32":
        return np.array(nums, dtype=np.float32)
    raise ValueError(c)


def rows(a):
    return [[float.fromhex(x) for x in r] for r in a]


def mk_swath(g):
    dt = np.dtype(g.get("dtype", "f8"))
    lon = np.array(rows(g["lon"]), dtype=dt)
    lat = np.array(rows(g["lat"]), dtype=dt)
    if g["ndim"] == 1:
        lon, lat = lon.reshape(-1), lat.reshape(-1)
    kind = g["kind"]
    kw = {}
    if g.get("crs") is not None:
        kw["crs"] = CRS(g["crs"])
    if kind == "list":
        return SwathDefinition(lon.tolist(), lat.tolist(), **kw)
    if kind == "np":
        return SwathDefinition(lon, lat, **kw)
    if kind == "fortran":
        return SwathDefinition(np.asfortranarray(lon), np.asfortranarray(lat), **kw)
    if kind == "view":      # a non-contiguous view with the same logical content
        big_lon = np.repeat(lon, 2, axis=-1)
        big_lat = np.repeat(lat, 2, axis=-1)
        return SwathDefinition(big_lon[..., ::2], big_lat[..., ::2], **kw)
    dims = ("y", "x")[-lon.ndim:]
    if kind == "xr":
        return SwathDefinition(xr.DataArray(lon, dims=dims), xr.DataArray(lat, dims=dims), **kw)
    if kind == "xrnamed":    # a DataArray with its own .name: still just a wrapper around the numpy array
        return SwathDefinition(xr.DataArray(lon, dims=dims, name="lons"), xr.DataArray(lat, dims=dims, name="lats"), **kw)
    if kind == "xrattr":     # DataArrays carrying a precomputed hash (get_array_hashable returns it instead of the bytes)
        return SwathDefinition(xr.DataArray(lon, dims=dims, attrs={"hash": g["attr"][0].encode()}),
                               xr.DataArray(lat, dims=dims, attrs={"hash": g["attr"][1].encode()}), **kw)
    if kind == "xrdask":
        ch = g.get("chunks", 2)
        return SwathDefinition(xr.DataArray(da.from_array(lon, chunks=ch), dims=dims),
                               xr.DataArray(da.from_array(lat, chunks=ch), dims=dims), **kw)
    raise ValueError(kind)


geo_specs = req.get("geos", [])
_geo_cache = {}


def mk_geo(i, fresh=False):
    """A NEW object for pool entry i on every call with fresh=True (histories mutate)."""
    if not fresh and i in _geo_cache:
        return _geo_cache[i]
    g = geo_specs[i]
    if g["t"] == "area":
        o = AreaDefinition("id%d" % i, "d", "p", mk_crs_spelling(g["crs"]), mk_size(g["w"]), mk_size(g["h"]),
                           mk_extent(g["ext"]))
    elif g["t"] == "swath":
        o = mk_swath(g)
    elif g["t"] == "stack":
        o = StackedAreaDefinition(*[mk_geo(j, True) for j in g["members"]])
    else:
        raise ValueError(g["t"])
    if not fresh:
        _geo_cache[i] = o
    return o


def digest(o):
    return o.update_hash().hexdigest()


def swath_kind(s):
    if isinstance(s.lons, xr.DataArray):
        if "hash" in s.lons.attrs and "hash" in s.lats.attrs:
            return 3
        return 2 if isinstance(s.lons.data, da.Array) else 1
    return 0


def swath_names(s):
    k = swath_kind(s)
    if k == 2:
        return [name_id(s.lons.data.name), name_id(s.lats.data.name)]
    if k == 3:
        return [name_id(b"attr:" + s.lons.attrs["hash"]), name_id(b"attr:" + s.lats.attrs["hash"])]
    return [0, 0]


def swath_rows(a, ndim):
    v = np.asarray(a, dtype=np.float64)
    if ndim == 1:
        return [[fh(x)] for x in v]
    return [[fh(x) for x in r] for r in v]


class _Future(Resampler):
    version = "1.0"


def _func(*a, **k):
    return None


def rel_keys(a, b, tgt, kw):
    """cache-key relations for the pair (a, b) used as source (and as target) of otherwise identical calls."""
    out = {}
    try:
        out["base_src"] = BaseResampler(a, tgt).get_hash(**kw) == BaseResampler(b, tgt).get_hash(**kw)
        out["base_tgt"] = BaseResampler(tgt, a).get_hash(**kw) == BaseResampler(tgt, b).get_hash(**kw)
        out["future_src"] = _Future(a, tgt)._get_hash(**dict(kw)) == _Future(b, tgt)._get_hash(**dict(kw))
    except Exception as e:
        out["error"] = err(e)
    return out


# ------------------------------------------------------------------ geometry pool
out = {"geos": [], "pairs": [], "keys": [], "area_hist": [], "swath_hist": [], "stack_hist": []}
key_tgt = None
direct_toks = set()      # tokens pyproj itself returns for CRS(spelling).to_wkt()
for i, g in enumerate(geo_specs):
    try:
        o = mk_geo(i)
        if g["t"] == "area":
            direct = CRS(mk_crs_spelling(g["crs"])).to_wkt()       # pyproj alone, not through pyresample
            direct_toks.add(tok(direct))
            out["geos"].append({"tok": tok(direct), "tok_impl": tok(o.crs_wkt), "w": o.width, "h": o.height})
            if key_tgt is None:
                key_tgt = o
        elif g["t"] == "swath":
            out["geos"].append({"kind": swath_kind(o), "names": swath_names(o), "shape": list(o.shape),
                                "dtype": str(o.lons.dtype)})
        else:
            out["geos"].append({"n": len(o.defs)})
    except Exception as e:
        out["geos"].append(err(e))

kw0 = {"radius_of_influence": 5000, "neighbours": 1}
for i, j in req.get("pairs", []):
    try:
        a, b = mk_geo(i), mk_geo(j)
        r = {"e12": bool(a == b), "e21": bool(b == a), "ne12": bool(a != b),
             "hash": hash(a) == hash(b), "digest": digest(a) == digest(b),
             "refl": bool(a == a) and bool(b == b)}
        if isinstance(a, AreaDefinition) and isinstance(b, AreaDefinition):
            r["c12"] = bool(a.crs == b.crs)
            r["c21"] = bool(b.crs == a.crs)
            r["hashargs"] = _caching._hash_args((a, 3, "x")) == _caching._hash_args((b, 3, "x"))
            r["daskname"] = (_create_dask_name(None, _func, a, [], key_tgt, [], 0, np.float64, (2, 2), {}) ==
                             _create_dask_name(None, _func, b, [], key_tgt, [], 0, np.float64, (2, 2), {}))
        if not isinstance(a, StackedAreaDefinition):
            r["keys"] = rel_keys(a, b, key_tgt, kw0)
        out["pairs"].append(r)
    except Exception as e:
        out["pairs"].append(err(e))

kwargs = req.get("kwargs", [])
for s1, t1, k1, s2, t2, k2 in req.get("keys", []):
    try:
        a1, b1, a2, b2 = mk_geo(s1), mk_geo(t1), mk_geo(s2), mk_geo(t2)
        out["keys"].append({
            "base": BaseResampler(a1, b1).get_hash(**kwargs[k1]) == BaseResampler(a2, b2).get_hash(**kwargs[k2]),
            "base_args": BaseResampler(a1, b1).get_hash(a2, b2, **kwargs[k2]) == BaseResampler(a2, b2).get_hash(**kwargs[k2]),
            "future": _Future(a1, b1)._get_hash(**dict(kwargs[k1])) == _Future(a2, b2)._get_hash(**dict(kwargs[k2])),
            "func": hash_resampler_geometries(a1, b1, **kwargs[k1]) == hash_resampler_geometries(a2, b2, **kwargs[k2]),
            "geo": digest(a1) == digest(a2) and digest(b1) == digest(b2),
            "hash_dict": hash_dict(dict(kwargs[k1])).hexdigest() == hash_dict(dict(kwargs[k2])).hexdigest(),
            "cache_filename": (BaseResampler(a1, b1)._create_cache_filename(cache_dir="c", prefix="p", **kwargs[k1]) ==
                               BaseResampler(a2, b2)._create_cache_filename(cache_dir="c", prefix="p", **kwargs[k2])),
        })
    except Exception as e:
        out["keys"].append(err(e))

# keyword values JSON cannot encode (arrays, numpy scalars, CRS objects): every entry point either raises or gives a key
def mk_value(v):
    k = v["k"]
    if k in ("np", "xr", "mask"):
        n = int(np.prod(v["shape"]))
        a = (np.arange(n, dtype=np.float64) % 97).reshape(v["shape"])
        if k == "mask":
            a = a > 40
        for idx, val in v.get("poke", []):
            a[tuple(idx)] = (not a[tuple(idx)]) if k == "mask" else val
        return xr.DataArray(a) if k == "xr" else a
    if k == "f32":
        return np.float32(v["v"])
    if k == "i64":
        return np.int64(v["v"])
    if k == "crs":
        return CRS(v["v"])
    if k == "list_np":
        return [mk_value(x) for x in v["items"]]
    raise ValueError(k)


def key_or_err(f):
    try:
        return {"key": f()}
    except Exception as e:
        return {"error": type(e).__name__}


for s_, t_, name, va, vb in req.get("nonjson", []):
    try:
        a, b = mk_geo(s_), mk_geo(t_)
        res = {}
        for lab, v in (("a", va), ("b", vb)):
            kw = {name: mk_value(v), "neighbours": 1}
            res[lab] = {
                "base": key_or_err(lambda: BaseResampler(a, b).get_hash(**kw)),
                "cache_filename": key_or_err(lambda: BaseResampler(a, b)._create_cache_filename(cache_dir="c", prefix="p", **kw)),
                "future": key_or_err(lambda: _Future(a, b)._get_hash(**dict(kw))),
                "func": key_or_err(lambda: hash_resampler_geometries(a, b, **kw)),
                "hash_dict": key_or_err(lambda: hash_dict(dict(kw)).hexdigest()),
            }
        out.setdefault("nonjson", []).append(res)
    except Exception as e:
        out.setdefault("nonjson", []).append(err(e))

# lru_cache keyed by (source, target) geometries: same entry iff hash-equal and ==
for i, j in req.get("lru", []):
    try:
        a, b = mk_geo(i), mk_geo(j)
        crop_source_area.cache_clear()
        crop_source_area(a, a)
        h0 = crop_source_area.cache_info().hits
        crop_source_area(b, a)
        out.setdefault("lru", []).append(crop_source_area.cache_info().hits - h0 == 1)
    except Exception as e:
        out.setdefault("lru", []).append(err(e))


# ------------------------------------------------------------------ histories
def peek_hash(o):
    """What hash(o) would return now, without memoising anything on o itself (a shallow copy shares the
    coordinates and carries the memo; hash() then memoises on the copy only)."""
    return hash(copy.copy(o))


def memo_ok(o):
    return peek_hash(o) == hash(int(digest(o), 16))


def osl(s):
    return slice(s[0], s[1])


for case in req.get("area_hist", []):
    res = []
    try:
        o = mk_geo(case["start"], True)
        d0 = digest(o)
        orig = mk_geo(case["start"], True)
        for op in case["ops"]:
            r = {}
            prev = o
            if op[0] == "hash":
                hash(o)
            elif op[0] == "eq":
                other = mk_geo(op[1])
                r.update({"e12": bool(o == other), "e21": bool(other == o),
                          "c12": bool(o.crs == other.crs), "c21": bool(other.crs == o.crs)})
            elif op[0] == "slice":
                o = o[osl(op[1]), osl(op[2])]
            elif op[0] == "copy":
                o = o.copy()
            r.update({"memo_ok": memo_ok(o), "deq": digest(o) == d0, "tok": tok(o.crs_wkt), "w": o.width, "h": o.height,
                      "ext": [fh(x) for x in o.area_extent], "eq_orig": [bool(o == orig), bool(orig == o)],
                      "hash_eq_orig": peek_hash(o) == hash(orig),
                      "deq_prev": digest(o) == digest(prev), "hash_eq_prev": peek_hash(o) == peek_hash(prev),
                      "eq_prev": [bool(o == prev), bool(prev == o)], "tok_prev": tok(prev.crs_wkt),
                      "same_shape_prev": (o.width, o.height) == (prev.width, prev.height)})
            res.append(r)
    except Exception as e:
        res.append(err(e))
    out["area_hist"].append(res)

for case in req.get("swath_hist", []):
    res = []
    try:
        o = mk_geo(case["start"], True)
        ndim = geo_specs[case["start"]]["ndim"]
        d0 = digest(o)
        orig = mk_geo(case["start"], True)
        for op in case["ops"]:
            r = {}
            dprev = digest(o)
            if op[0] == "hash":
                hash(o)
            elif op[0] == "eq":
                other = mk_geo(op[1])
                r.update({"e12": bool(o == other), "e21": bool(other == o)})
            elif op[0] == "append":
                o.append(mk_geo(op[1], True))
            elif op[0] == "concat":
                o = o.concatenate(mk_geo(op[1], True))
            elif op[0] == "slice":
                o = o[osl(op[1]), osl(op[2])]
            elif op[0] == "copy":
                o = o.copy()
            fresh = SwathDefinition(o.lons, o.lats)
            r.update({"memo_ok": memo_ok(o), "fresh_ok": peek_hash(o) == hash(fresh), "fresh_eq": [bool(o == fresh), bool(fresh == o)],
                      "deq": digest(o) == d0, "deq_prev": digest(o) == dprev, "kind": swath_kind(o), "names": swath_names(o), "shape": list(o.shape),
                      "lon": swath_rows(o.lons, ndim), "lat": swath_rows(o.lats, ndim),
                      "eq_orig": [bool(o == orig), bool(orig == o)], "hash_eq_orig": peek_hash(o) == hash(orig)})
            res.append(r)
    except Exception as e:
        res.append(err(e))
    out["swath_hist"].append(res)

for case in req.get("stack_hist", []):
    res = []
    try:
        members = list(case["init"])
        o = StackedAreaDefinition(*[mk_geo(j, True) for j in members])
        d0 = digest(o) if members else None
        for op in case["ops"]:
            r = {}
            dprev = digest(o) if members else None
            if op[0] == "hash":
                hash(o)
            elif op[0] == "eq":
                other = StackedAreaDefinition(*[mk_geo(j, True) for j in members])
                r.update({"e12": bool(o == other), "e21": bool(other == o)})
            elif op[0] == "append":
                o.append(mk_geo(op[1], True))
                members.append(op[1])
            fresh = StackedAreaDefinition(*[mk_geo(j, True) for j in members])
            r.update({"memo_ok": memo_ok(o), "fresh_ok": peek_hash(o) == hash(fresh), "fresh_dig": digest(o) == digest(fresh),
                      "deq": digest(o) == d0, "deq_prev": digest(o) == dprev, "ndefs": len(o.defs), "n_fresh": len(fresh.defs)})
            if case.get("eq_fresh"):
                probe = copy.copy(o)      # == caches lon/lats on a stack: observe on a shallow copy
                r["fresh_eq"] = [bool(probe == fresh), bool(fresh == probe)]
            res.append(r)
    except Exception as e:
        res.append(err(e))
    out["stack_hist"].append(res)

# ------------------------------------------------------------------ get_array_hashable on array trees
import hashlib as _hl


def mk_tree(t):
    if t["k"] == "np":
        a = np.array(rows(t["data"]), dtype=np.float64)
        if t.get("mask") is not None:
            a = np.ma.masked_array(a, mask=np.array(t["mask"], dtype=bool))
        return a
    if t["k"] == "dask":
        return da.from_array(np.array(rows(t["data"]), dtype=np.float64), chunks=t.get("chunks", 2))
    inner = mk_tree(t["inner"])
    attrs = {} if t.get("attr") is None else {"hash": t["attr"].encode()}
    return xr.DataArray(inner, dims=("y", "x"), name=t.get("name"), attrs=attrs)


def tree_names(t, arr):
    if t["k"] == "dask":
        return [arr.name]
    if t["k"] == "xr":
        return tree_names(t["inner"], arr.data)
    return []


for t in req.get("gah", []):
    try:
        arr = mk_tree(t)
        h = get_array_hashable(arr)
        if isinstance(h, (bytes, str)):
            r = {"name": h.decode() if isinstance(h, bytes) else h}
        else:
            r = {"bytes": _hl.sha1(np.ascontiguousarray(h).tobytes()).hexdigest()}
        r["dask_names"] = tree_names(t, arr)
        out.setdefault("gah", []).append(r)
    except Exception as e:
        out.setdefault("gah", []).append(err(e))

# ------------------------------------------------------------------ oracle tables, closed under the WKT round trip
rt = []
k = 0
while k < len(wkt_list):
    rt.append(tok(CRS(wkt_list[k]).to_wkt()))
    k += 1
out["rt"] = rt
out["direct_toks"] = sorted(direct_toks)
out["n_tok"] = len(wkt_list)
out["json"] = [json.dumps(kw, sort_keys=True) for kw in kwargs]
json.dump(out, sys.stdout)
