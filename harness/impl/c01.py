"""Driver (C01): run the real AreaDefinition accessors on the given areas/requests. JSON in -> JSON out.

No model logic and no reference computation here: only calls into pyresample and plain conversion of what they return.
Floats travel as JSON numbers (Python's repr round-trips binary64 exactly; NaN/Infinity allowed)."""
import json
import sys
import warnings

import numpy as np

warnings.filterwarnings("ignore")
import dask  # noqa: E402

dask.config.set(scheduler="synchronous")
from pyresample.geometry import AreaDefinition  # noqa: E402


def err(e):
    return {"error": type(e).__name__, "msg": str(e)[:200]}


def to_slice(s):
    """JSON -> index object: int, null -> slice(None), [start, stop, step] -> slice."""
    if s is None:
        return slice(None)
    if isinstance(s, int):
        return s
    return slice(*s)


def to_data_slice(ds):
    if ds is None:
        return None
    if ds[0] == "single":            # data_slice=slice (rows only)
        return to_slice(ds[1])
    return (to_slice(ds[1]), to_slice(ds[2]))


def to_chunks(c):
    if c is None or isinstance(c, int):
        return c
    return tuple(tuple(x) if isinstance(x, list) else x for x in c)


def arr_out(a):
    """numpy/dask array (or scalar) -> {"shape", "dtype", "kind", "data" (nested lists of float64)}."""
    kind = "dask" if hasattr(a, "compute") else type(a).__name__
    chunks = [list(map(int, c)) for c in a.chunks] if hasattr(a, "chunks") else None
    if hasattr(a, "compute"):
        a = a.compute()
    a = np.asanyarray(a)
    return {"shape": list(a.shape), "dtype": str(a.dtype), "kind": kind, "chunks": chunks,
            "data": a.astype(np.float64).tolist()}


def pair_out(res):
    return [arr_out(res[0]), arr_out(res[1])]


def masked_out(m):
    m = np.ma.asarray(m)
    return {"data": [int(v) for v in np.ma.getdata(m).ravel()], "mask": [bool(v) for v in np.ma.getmaskarray(m).ravel()],
            "is_masked_array": True}


def scalar_pair(fn, a, b):
    try:
        r = fn(a, b)
        return {"value": [float(r[0]), float(r[1])], "types": [type(r[0]).__name__, type(r[1]).__name__]}
    except Exception as e:
        return err(e)


def index_scalar(fn, a, b):
    try:
        r = fn(a, b)
        return {"value": [int(r[0]), int(r[1])], "types": [type(r[0]).__name__, type(r[1]).__name__]}
    except Exception as e:
        return err(e)


def run_area(spec):
    out = {}
    try:
        kw = {}
        if spec.get("nprocs_ctor"):
            kw["nprocs"] = spec["nprocs_ctor"]
        area = AreaDefinition("c01", "c01", "c01", spec["crs"], spec["w"], spec["h"], tuple(spec["extent"]), **kw)
    except Exception as e:
        return {"ctor": err(e)}
    out["attrs"] = {"pixel_size_x": float(area.pixel_size_x), "pixel_size_y": float(area.pixel_size_y),
                    "pixel_upper_left": [float(v) for v in area.pixel_upper_left],
                    "upper_left_extent": [float(v) for v in area.upper_left_extent],
                    "pixel_offset_x": float(area.pixel_offset_x), "pixel_offset_y": float(area.pixel_offset_y),
                    "shape": [int(v) for v in area.shape], "crs_wkt": area.crs_wkt}
    # ---- 1-D vectors
    try:
        x, y = area.get_proj_vectors()
        out["vec"] = pair_out((x, y))
        out["vec_prop"] = pair_out((area.projection_x_coords, area.projection_y_coords))
    except Exception as e:
        out["vec"] = err(e)
    res = []
    for rq in spec.get("vec_requests", []):
        try:
            dt = np.dtype(rq["dtype"]) if rq.get("dtype") else None
            res.append(pair_out(area.get_proj_vectors(dtype=dt, chunks=to_chunks(rq.get("chunks")))))
        except Exception as e:
            res.append(err(e))
    out["vec_requests"] = res
    # ---- 2-D projection coordinates
    res = []
    for rq in spec.get("coords", []):
        try:
            dt = np.dtype(rq["dtype"]) if rq.get("dtype") else None
            ch = to_chunks(rq.get("chunks"))
            o = {"xy": pair_out(area.get_proj_coords(data_slice=to_data_slice(rq.get("slice")), dtype=dt, chunks=ch))}
            if ch is not None:
                full = area.get_proj_coords(dtype=dt, chunks=ch)[0]
                o["norm_chunks"] = [list(map(int, c)) for c in full.chunks]
            res.append(o)
        except Exception as e:
            res.append(err(e))
    out["coords"] = res
    # ---- affine conversions and index lookups on projection coordinates
    pp = spec.get("pts_proj")
    if pp:
        xs = np.array([p[0] for p in pp], dtype=np.float64)
        ys = np.array([p[1] for p in pp], dtype=np.float64)
        try:
            out["arr_of_proj"] = pair_out(area.get_array_coordinates_from_projection_coordinates(xs, ys))
        except Exception as e:
            out["arr_of_proj"] = err(e)
        try:
            c, r = area.get_array_indices_from_projection_coordinates(xs, ys)
            out["idx_of_proj"] = [masked_out(c), masked_out(r)]
            out["idx_of_proj_types"] = [type(c).__name__, type(r).__name__, str(np.ma.getdata(c).dtype)]
        except Exception as e:
            out["idx_of_proj"] = err(e)
        out["arr_of_proj_scalar"] = [scalar_pair(area.get_array_coordinates_from_projection_coordinates, float(p[0]), float(p[1]))
                                     for p in pp[:spec.get("n_scalar", 0)]]
        out["idx_of_proj_scalar"] = [index_scalar(area.get_array_indices_from_projection_coordinates, float(p[0]), float(p[1]))
                                     for p in pp[:spec.get("n_scalar", 0)]]
    pa = spec.get("pts_arr")
    if pa:
        cs = np.array([p[0] for p in pa], dtype=np.float64)
        rs = np.array([p[1] for p in pa], dtype=np.float64)
        try:
            out["proj_of_arr"] = pair_out(area.get_projection_coordinates_from_array_coordinates(cs, rs))
        except Exception as e:
            out["proj_of_arr"] = err(e)
        try:
            out["lonlat_of_arr"] = pair_out(area.get_lonlat_from_array_coordinates(cs, rs))
        except Exception as e:
            out["lonlat_of_arr"] = err(e)
    # ---- lon/lat arrays
    res = []
    for rq in spec.get("lonlats", []):
        try:
            dt = np.dtype(rq["dtype"]) if rq.get("dtype") else None
            ch = to_chunks(rq.get("chunks"))
            kw = {}
            if rq.get("nprocs"):
                kw["nprocs"] = rq["nprocs"]
            o = {"ll": pair_out(area.get_lonlats(data_slice=to_data_slice(rq.get("slice")), dtype=dt, chunks=ch, **kw))}
            if ch is not None:
                full = area.get_proj_coords(dtype=dt, chunks=ch)[0]
                o["norm_chunks"] = [list(map(int, c)) for c in full.chunks]
            res.append(o)
        except Exception as e:
            res.append(err(e))
    out["lonlats"] = res
    # ---- single pixels
    pix = spec.get("pix")
    if pix:
        out["get_lonlat"] = [scalar_pair(lambda r, c: area.get_lonlat(r, c), int(p[0]), int(p[1])) for p in pix]
        out["colrow2lonlat"] = [scalar_pair(area.colrow2lonlat, int(p[1]), int(p[0])) for p in pix]
        try:
            cols = np.array([p[1] for p in pix])
            rows = np.array([p[0] for p in pix])
            out["colrow2lonlat_arr"] = pair_out(area.colrow2lonlat(cols, rows))
        except Exception as e:
            out["colrow2lonlat_arr"] = err(e)
    # ---- projection coordinates <-> lon/lat
    if pp:
        try:
            out["lonlat_of_proj"] = pair_out(area.get_lonlat_from_projection_coordinates(xs, ys))
        except Exception as e:
            out["lonlat_of_proj"] = err(e)
    pl = spec.get("pts_lonlat")
    if pl:
        lons = np.array([p[0] for p in pl], dtype=np.float64)
        lats = np.array([p[1] for p in pl], dtype=np.float64)
        try:
            out["proj_of_lonlat"] = pair_out(area.get_projection_coordinates_from_lonlat(lons, lats))
        except Exception as e:
            out["proj_of_lonlat"] = err(e)
        try:
            out["arr_of_lonlat"] = pair_out(area.get_array_coordinates_from_lonlat(lons, lats))
        except Exception as e:
            out["arr_of_lonlat"] = err(e)
        try:
            c, r = area.get_array_indices_from_lonlat(lons, lats)
            out["idx_of_lonlat"] = [masked_out(c), masked_out(r)]
        except Exception as e:
            out["idx_of_lonlat"] = err(e)
        ns = spec.get("n_scalar", 0)
        out["idx_of_lonlat_scalar"] = [index_scalar(area.get_array_indices_from_lonlat, float(p[0]), float(p[1])) for p in pl[:ns]]
        out["arr_of_lonlat_scalar"] = [scalar_pair(area.get_array_coordinates_from_lonlat, float(p[0]), float(p[1])) for p in pl[:ns]]
        out["proj_of_lonlat_scalar"] = [scalar_pair(area.get_projection_coordinates_from_lonlat, float(p[0]), float(p[1])) for p in pl[:ns]]
        with warnings.catch_warnings():
            warnings.simplefilter("ignore")
            out["lonlat2colrow_scalar"] = [index_scalar(area.lonlat2colrow, float(p[0]), float(p[1])) for p in pl[:min(ns, 3)]]
    # ---- deprecated / alternative entry points of the same accessors
    al = {}
    with warnings.catch_warnings():
        warnings.simplefilter("ignore")
        for name, fn in (("get_proj_vectors_dask", lambda: pair_out(area.get_proj_vectors_dask())),
                         ("get_proj_coords_dask", lambda: pair_out(area.get_proj_coords_dask())),
                         ("get_lonlats_dask", lambda: pair_out(area.get_lonlats_dask())),
                         ("get_xy_from_proj_coords", lambda: [masked_out(m) for m in area.get_xy_from_proj_coords(xs, ys)] if pp else None),
                         ("get_xy_from_lonlat", lambda: [masked_out(m) for m in area.get_xy_from_lonlat(lons, lats)] if pl else None)):
            try:
                al[name] = fn()
            except Exception as e:
                al[name] = err(e)
    out["aliases"] = al
    # ---- histories: sequences of accessor calls on ONE fresh object each; a step flagged "mutate" is followed by the
    # caller overwriting, in place, the numpy arrays it was just handed (they are the caller's arrays)
    def scribble(res):
        done = False
        for arr in res:
            if isinstance(arr, np.ndarray) and arr.size and arr.flags.writeable:
                try:
                    arr *= 0.001
                    arr -= 7.0
                    done = True
                except Exception:
                    pass
        return done

    hs = []
    for hist in spec.get("histories", []):
        obj = AreaDefinition("c01", "c01", "c01", spec["crs"], spec["w"], spec["h"], tuple(spec["extent"]))
        steps = []
        for op in hist:
            try:
                res = None
                if op["op"] == "get_lonlats":
                    dt = np.dtype(op["dtype"]) if op.get("dtype") else None
                    res = obj.get_lonlats(data_slice=to_data_slice(op.get("slice")), dtype=dt,
                                          chunks=to_chunks(op.get("chunks")), cache=bool(op.get("cache")))
                    steps.append({"ll": pair_out(res)})
                elif op["op"] == "get_proj_coords":
                    res = obj.get_proj_coords(data_slice=to_data_slice(op.get("slice")), chunks=to_chunks(op.get("chunks")))
                    steps.append({"xy": pair_out(res)})
                elif op["op"] == "get_proj_vectors":
                    res = obj.get_proj_vectors()
                    steps.append({"vec": pair_out(res)})
                elif op["op"] == "projection_coords":
                    res = (obj.projection_x_coords, obj.projection_y_coords)
                    steps.append({"vec": pair_out(res)})
                elif op["op"] == "get_lonlat":
                    r = obj.get_lonlat(op["row"], op["col"])
                    steps.append({"value": [float(r[0]), float(r[1])]})
                elif op["op"] == "colrow2lonlat":
                    r = obj.colrow2lonlat(op["col"], op["row"])
                    steps.append({"value": [float(r[0]), float(r[1])]})
                else:
                    steps.append({"error": "unknown op"})
                if op.get("mutate") and res is not None:
                    steps[-1]["mutated"] = scribble(res)
            except Exception as e:
                steps.append(err(e))
        hs.append(steps)
    out["histories"] = hs
    # ---- DERIVED objects: areas obtained from an area that already holds lon/lats (cached or constructor-given) by
    # crops, strided slices and copy(); every accessor of the derived object is reported together with ITS extent and shape
    dv = []
    for sc in spec.get("derived", []):
        o = {}
        try:
            with warnings.catch_warnings():
                warnings.simplefilter("ignore")
                if sc["prime"] == "ctor":
                    lo0, la0 = AreaDefinition("c01", "c01", "c01", spec["crs"], spec["w"], spec["h"], tuple(spec["extent"])).get_lonlats()
                    parent = AreaDefinition("c01", "c01", "c01", spec["crs"], spec["w"], spec["h"], tuple(spec["extent"]), lons=lo0, lats=la0)
                else:
                    parent = AreaDefinition("c01", "c01", "c01", spec["crs"], spec["w"], spec["h"], tuple(spec["extent"]))
                    if sc["prime"] == "cache":
                        parent.get_lonlats(cache=True)
                obj = parent
                for st in sc["chain"]:
                    if st[0] == "getitem":
                        obj = obj[slice(*st[1]), slice(*st[2])]
                    elif st[0] == "copy":
                        obj = obj.copy()
                    elif st[0] == "cache":
                        obj.get_lonlats(cache=True)
                o["extent"] = [float(v) for v in obj.area_extent]
                o["shape"] = [int(obj.height), int(obj.width)]
                o["is_parent"] = obj is parent

                def grab(name, fn):
                    try:
                        o[name] = fn()
                    except Exception as e:
                        o[name] = err(e)
                grab("ll_whole", lambda: pair_out(obj.get_lonlats()))
                grab("ll_slice", lambda: pair_out(obj.get_lonlats(data_slice=(slice(1, None), slice(None, -1)))))
                grab("ll_dask", lambda: pair_out(obj.get_lonlats(chunks=2)))
                grab("xy", lambda: pair_out(obj.get_proj_coords()))
                grab("lonlat_00", lambda: [float(v) for v in obj.get_lonlat(0, 0)])
                grab("lonlat_last", lambda: [float(v) for v in obj.get_lonlat(-1, -1)])
                grab("colrow_last", lambda: [float(v) for v in obj.colrow2lonlat(obj.width - 1, obj.height - 1)])

                def idx():
                    lo_, la_ = obj.get_lonlats()
                    c_, r_ = obj.get_array_indices_from_lonlat(np.array(lo_), np.array(la_))
                    return [masked_out(c_), masked_out(r_)]
                grab("idx_of_own_lonlats", idx)
                # the caller overwrites what the derived object handed out; the parent must be unaffected
                res = obj.get_lonlats()
                o["scribbled"] = scribble(res)
                grab("parent_ll_after", lambda: pair_out(parent.get_lonlats()))
        except Exception as e:
            o["derive_error"] = err(e)
        dv.append(o)
    out["derived"] = dv
    # ---- several lazy results evaluated in ONE dask.compute: this area and a twin of equal shape and pixel size
    jt = spec.get("joint")
    if jt:
        try:
            twin = AreaDefinition("c01t", "c01t", "c01t", spec["crs"], spec["w"], spec["h"], tuple(jt["twin_extent"]))
            ch = to_chunks(jt["chunks"])
            ax, ay = area.get_proj_coords(chunks=ch)
            tx, ty = twin.get_proj_coords(chunks=ch)
            alo, ala = area.get_lonlats(chunks=ch)
            tlo, tla = twin.get_lonlats(chunks=ch)
            nch = [list(map(int, c)) for c in ax.chunks]
            got = dask.compute(ax, ay, tx, ty, alo, ala, tlo, tla, tx - ax, tlo - alo)
            out["joint"] = {"norm_chunks": nch, "twin_pixel_size": [float(twin.pixel_size_x), float(twin.pixel_size_y)],
                            "area_xy": pair_out(got[0:2]), "twin_xy": pair_out(got[2:4]),
                            "area_ll": pair_out(got[4:6]), "twin_ll": pair_out(got[6:8]),
                            "diff_x": arr_out(got[8]), "diff_lon": arr_out(got[9])}
        except Exception as e:
            out["joint"] = err(e)
    return out


req = json.load(sys.stdin)
json.dump({"areas": [run_area(s) for s in req["areas"]]}, sys.stdout)
