"""Driver: run the real create_area_def / AreaDefinition.dump / load_area* on the given cases (C13).
No model logic here.  PROJ calls made by create_area_def are recorded (the Proj class used by
pyresample.area_config is wrapped by a pass-through recorder) so that the Coq model can use them as oracle tables."""
import io
import json
import logging
import math
import os
import sys
import tempfile
import warnings

warnings.filterwarnings("ignore")
logging.disable(logging.CRITICAL)

import numpy as np
import yaml
from pyproj import CRS, Proj as _RealProj, Transformer
from xarray import DataArray

import pyresample.area_config as ac
from pyresample.area_config import create_area_def, load_area, load_area_from_string
from pyresample.geometry import AreaDefinition, DynamicAreaDefinition

LOG = {"fwd": [], "inv": []}


class RecProj:
    """Pass-through wrapper around pyproj.Proj recording every call and its result."""

    def __init__(self, *a, **k):
        self._p = _RealProj(*a, **k)
        self.crs = self._p.crs

    def __call__(self, x, y, inverse=False, errcheck=False, **k):
        key = "inv" if inverse else "fwd"
        try:
            out = self._p(x, y, inverse=inverse, errcheck=errcheck, **k)
        except Exception:
            LOG[key].append([float(x), float(y), None, None])
            raise
        LOG[key].append([float(x), float(y), float(out[0]), float(out[1])])
        return out

    def __getattr__(self, name):
        return getattr(self._p, name)


ac.Proj = RecProj


def fl(x):
    return None if x is None else float(x)


def mk_crs_arg(c):
    if isinstance(c, dict) and "__crs__" in c:
        return CRS.from_user_input(c["__crs__"])
    return c


def mk_param(p):
    if p is None:
        return None
    v = p["v"]
    if p.get("attr") is not None:
        return DataArray(v, attrs={"units": p["attr"]})
    if isinstance(v, list):
        return tuple(v) if p.get("tuple") else list(v)
    return v


def unit_steps(definition):
    """The factors of the unitconvert steps of a PROJ pipeline (PROJ goes through metres: at most two), each obtained
    from PROJ itself; None if the pipeline contains anything else."""
    steps = [st.strip() for st in definition.split("step")] if "proj=pipeline" in definition else [definition.strip()]
    out = []
    for st in steps:
        if not st or st.startswith("proj=pipeline") or st.startswith("proj=noop"):
            continue
        if not st.startswith("proj=unitconvert"):
            return None
        args = [w for w in st.split() if w.startswith(("proj=", "xy_in=", "xy_out="))]
        out.append(float(Transformer.from_pipeline(" ".join("+" + w for w in args)).transform(1.0, 1.0)[0]))
    return out


def crs_facts(proj):
    out = {}
    try:
        crs = ac._get_proj_data(proj)
    except Exception as e:
        return {"crs_error": type(e).__name__}
    out["geographic"] = bool(crs.is_geographic)
    # pyproj's own answer (not area_config._get_proj_units, which is code under test)
    out["unit_name"] = crs.axis_info[0].unit_name if crs.axis_info else None
    out["axis0"] = crs.axis_info[0].direction if crs.axis_info else None
    fac = {}
    if not crs.is_geographic:
        for u in ("m", "km"):
            try:
                d = crs.to_dict()
                d["units"] = u
                fac[u] = unit_steps(Transformer.from_crs(d, crs, always_xy=True).definition)
            except Exception:
                fac[u] = None
    out["fac"] = fac
    return out


def describe(a):
    if isinstance(a, DynamicAreaDefinition):
        ext = a.area_extent
        res = a.resolution
        return {"kind": "dynamic", "extent": None if ext is None else [float(x) for x in ext],
                "height": None if a.height is None else int(a.height), "width": None if a.width is None else int(a.width),
                "resolution": None if res is None else [float(x) for x in res]}
    return {"kind": "area", "extent": [float(x) for x in a.area_extent], "shape": [int(a.height), int(a.width)],
            "id": a.area_id, "description": a.description, "proj_id": getattr(a, "proj_id", None), "extent_types": [type(x).__name__ for x in a.area_extent]}


def run_create(case):
    proj = mk_crs_arg(case["crs"])
    kw = {k: mk_param(v) for k, v in case["args"].items()}
    if case.get("units") is not None:
        kw["units"] = case["units"]
    LOG["fwd"], LOG["inv"] = [], []
    via = case.get("via", "create_area_def")
    try:
        if via == "create_area_def":
            a = create_area_def("c13", proj, **kw)
        else:
            a = getattr(AreaDefinition, via)("c13", proj, **kw)
        out = describe(a)
    except Exception as e:
        out = {"kind": "raise", "exc": type(e).__name__, "msg": str(e)[:160]}
    out["fwd"], out["inv"] = LOG["fwd"], LOG["inv"]
    return out


# ------------------------------------------------------------------------------------ dump / load
def lonlat_samples(a, samples):
    out = []
    for r, c in samples:
        lon, lat = a.get_lonlat(r, c)
        out.append([float(lon), float(lat)])
    return out


def jsonable(o):
    if isinstance(o, dict):
        return {str(k): jsonable(v) for k, v in o.items()}
    if isinstance(o, (list, tuple)):
        return [jsonable(v) for v in o]
    if isinstance(o, (np.generic,)):
        return o.item()
    return o


def make_areas(specs):
    areas = []
    for s in specs:
        crs = mk_crs_arg(s["crs"])
        h, w = s["shape"]
        ext = s["extent"]
        if s.get("np_extent"):
            ext = [np.float64(x) for x in ext]
        areas.append(AreaDefinition(s["id"], s["description"], "proj", crs, w, h, ext))
    return areas


def dump_facts(areas):
    facts = []
    for a in areas:
        f = {"to_epsg": a.crs.to_epsg()}
        d = a.crs.to_dict()
        f["dict_units"] = d.get("units")
        d.pop("units", None)
        f["entry"] = {"EPSG": f["to_epsg"]} if f["to_epsg"] is not None else jsonable(d)
        f.update({"loaded_" + k: v for k, v in crs_facts(f["entry"]).items()})
        facts.append(f)
    return facts


def load_result(fn):
    """What a load returns, as data: the loaded areas, or the exception."""
    try:
        loaded = fn()
        if not isinstance(loaded, list):
            loaded = [loaded]
        return {"loaded": [describe(b) for b in loaded]}
    except Exception as e:
        return {"error": {"exc": type(e).__name__, "msg": str(e)[:160]}}


def run_history(case):
    """A history of writes and loads on ONE file path in this process.  Every load through the path is recorded together
    with a load of the file's current text through load_area_from_string (no path involved)."""
    import pathlib
    areas = make_areas(case["areas"])
    out = {"facts": dump_facts(areas), "orig": [describe(a) for a in areas],
           "parsed": jsonable([yaml.safe_load(a.dump()) for a in areas]), "steps": []}
    with tempfile.TemporaryDirectory(dir=".") as td:
        fn = os.path.join(td, case.get("filename", "areas.yaml"))
        kind = case.get("path_kind", "str")
        arg = pathlib.Path(fn) if kind == "pathlib" else [fn] if kind == "list" else fn
        for st in case["steps"]:
            if st["op"] == "dump":
                areas[st["k"]].dump(pathlib.Path(fn) if st.get("pathlib") else fn)       # appends
                out["steps"].append(None)
            elif st["op"] == "overwrite":
                with open(fn, "w") as fh:
                    fh.write("".join(areas[k].dump() for k in st["ks"]))
                out["steps"].append(None)
            elif st["op"] == "remove":
                os.remove(fn)
                out["steps"].append(None)
            else:
                regions = st.get("regions") or []
                entry = ac.parse_area_file if st.get("via") == "parse_area_file" else load_area
                r = {"path": load_result(lambda: entry(arg, *regions))}
                text = open(fn).read() if os.path.exists(fn) else None
                r["fresh"] = load_result(lambda: load_area_from_string(text, *regions)) if text is not None else None
                out["steps"].append(r)
    return out


def run_yaml(case):
    out = {}
    areas = make_areas(case["areas"])
    facts = dump_facts(areas)
    out["facts"] = facts
    out["orig"] = [describe(a) for a in areas]
    mode = case["mode"]
    regions = case.get("regions") or []
    try:
        dumps = [a.dump() for a in areas]
        out["dumps"] = dumps
        parsed = [yaml.safe_load(d) for d in dumps]
        out["parsed"] = jsonable(parsed)
        out["parsed_keys"] = [[type(k).__name__ for k in p.keys()] for p in parsed]
        # the text of each area as produced through the API of this mode
        texts = []
        with tempfile.TemporaryDirectory(dir=".") as td:
            for k, a in enumerate(areas):
                if mode == "file":
                    fn = os.path.join(td, "one_%d.yaml" % k)
                    a.dump(fn)
                    t = open(fn).read()
                elif mode == "stream":
                    buf = io.StringIO()
                    a.dump(buf)
                    t = buf.getvalue()
                elif mode == "legacy_alias":
                    with warnings.catch_warnings():
                        warnings.simplefilter("ignore")
                        t = a.create_areas_def()
                else:
                    t = a.dump()
                inj = case["areas"][k].get("inject_proj_id")
                if inj is not None:
                    # a hand-edited file: the same entry with a proj_id line added
                    d = yaml.safe_load(t)
                    (key, body), = d.items()
                    body = dict(body)
                    body["proj_id"] = inj
                    t = yaml.safe_dump({key: body}, sort_keys=False, allow_unicode=True)
                texts.append(t)
            out["texts"] = texts
            out["parsed_loaded"] = jsonable([yaml.safe_load(t) for t in texts])
            if mode in ("one_string", "legacy_alias"):
                loaded = load_area_from_string("".join(texts), *regions)
            elif mode == "list_of_strings":
                loaded = load_area_from_string(texts, *regions)
            elif mode == "file":
                fn = os.path.join(td, "areas.yaml")
                if any(x.get("inject_proj_id") is not None for x in case["areas"]):
                    with open(fn, "w") as fh:
                        fh.write("".join(texts))
                else:
                    for a in areas:
                        a.dump(fn)      # dump(filename) appends
                loaded = load_area(fn, *regions)
            elif mode == "stream":
                if any(x.get("inject_proj_id") is not None for x in case["areas"]):
                    loaded = load_area(io.StringIO("".join(texts)), *regions)
                else:
                    buf = io.StringIO()
                    for a in areas:
                        a.dump(buf)
                    loaded = load_area(io.StringIO(buf.getvalue()), *regions)
            else:
                raise RuntimeError("mode")
        if not isinstance(loaded, list):
            loaded = [loaded]
        res = []
        want = [a for a in areas]
        if regions:
            byid = {a.area_id: a for a in areas}
            want = [byid.get(r) for r in regions]
        for i, b in enumerate(loaded):
            d = describe(b)
            a = want[i] if i < len(want) else None
            if a is not None and d["kind"] == "area":
                d["eq"] = bool(a == b)
                d["crs_eq"] = bool(a.crs == b.crs)
                if a.shape == b.shape:
                    smp = case["samples"][next(i_ for i_, x_ in enumerate(areas) if x_ is a)]
                    d["ll_a"] = lonlat_samples(a, smp)
                    d["ll_b"] = lonlat_samples(b, smp)
            # second cycle: the loaded object is dumped and loaded again
            if d["kind"] == "area":
                try:
                    b2 = load_area_from_string(b.dump())
                    d["cycle2"] = {k: v for k, v in describe(b2).items() if k in ("kind", "id", "description", "shape", "extent")}
                except Exception as e2:
                    d["cycle2"] = {"kind": "raise", "exc": type(e2).__name__, "msg": str(e2)[:120]}
            res.append(d)
        out["loaded"] = res
    except Exception as e:
        out["error"] = {"exc": type(e).__name__, "msg": str(e)[:200]}
    return out


req = json.load(sys.stdin)
out = {}
facts_cache = {}
res = []
for case in req.get("create", []):
    key = json.dumps(case["crs"], sort_keys=True)
    if key not in facts_cache:
        facts_cache[key] = crs_facts(mk_crs_arg(case["crs"]))
    r = run_create(case)
    r["facts"] = facts_cache[key]
    res.append(r)
out["create"] = res
out["yaml"] = [run_yaml(c) for c in req.get("yaml", [])]
out["history"] = [run_history(c) for c in req.get("history", [])]
json.dump(out, sys.stdout)
