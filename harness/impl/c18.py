"""Driver: run the five REAL index functions of pyresample on lon/lat points (C18).

JSON in: {"areas": [{"proj": str, "extent": [hex]*4, "w": int, "h": int, "xy": [[hexx, hexy], ...],
                     "lonlat": [[hexlon, hexlat], ...], "target": null | {proj, extent, w, h}, "segments": int|null,
                     "scalar": [point indices], "chunks": int}]}
"xy" are wanted projection coordinates; they are turned into lon/lat with pyproj's inverse (input generation only).
Every module is then called through its public entry point with the lon/lat arrays; next to each module's output the
projection coordinates that this module's own Proj/Transformer construction yields for these lon/lat are recorded
(PROJ is an oracle for the model).  No model logic here.
"""
import json
import sys
import warnings

import numpy as np

warnings.filterwarnings("ignore")
import dask
import dask.array as da
from pyproj import Proj, Transformer

from pyresample import geo_filter, geometry, grid, image, utils
from pyresample.bucket import BucketResampler
from pyresample.ewa import ll2cr

dask.config.set(scheduler="synchronous")


def fh(a):
    return [float(v).hex() for v in np.asarray(a, dtype=np.float64).ravel()]


def ih(a):
    return [int(v) for v in np.asarray(a).ravel()]


def unhex(l):
    return np.array([float.fromhex(v) for v in l], dtype=np.float64)


def mk_area(spec):
    ext = tuple(float.fromhex(v) for v in spec["extent"])
    return geometry.AreaDefinition("a", "a", "a", spec["proj"], int(spec["w"]), int(spec["h"]), ext)


def guarded(f):
    try:
        return f()
    except Exception as e:  # reported, never hidden
        return {"error": "%s: %s" % (type(e).__name__, str(e)[:200])}


def run_area(spec):
    area = mk_area(spec)
    w, h = area.width, area.height
    out = {"w": w, "h": h, "ext": fh(area.area_extent), "shape": [int(v) for v in area.shape]}
    xs = unhex([p[0] for p in spec.get("xy", [])])
    ys = unhex([p[1] for p in spec.get("xy", [])])
    if len(xs):
        lon0, lat0 = Proj(area.crs)(xs, ys, inverse=True)
    else:
        lon0, lat0 = np.zeros(0), np.zeros(0)
    lons = np.concatenate([np.asarray(lon0, dtype=np.float64), unhex([p[0] for p in spec.get("lonlat", [])])])
    lats = np.concatenate([np.asarray(lat0, dtype=np.float64), unhex([p[1] for p in spec.get("lonlat", [])])])
    out["lons"], out["lats"] = fh(lons), fh(lats)
    index_img = np.arange(h * w, dtype=np.int64).reshape(h, w) + 1

    def m_area():
        # the area's own lon/lat -> projection step (a pyproj call; Proj(crs) formerly, a geodetic->crs Transformer now)
        x, y = area.get_projection_coordinates_from_lonlat(lons.copy(), lats.copy())
        cols, rows = area.get_array_indices_from_lonlat(lons.copy(), lats.copy())
        return {"x": fh(x), "y": fh(y), "cm": ih(np.ma.getmaskarray(cols)), "c": ih(np.ma.getdata(cols)),
                "rm": ih(np.ma.getmaskarray(rows)), "r": ih(np.ma.getdata(rows))}
    out["area"] = guarded(m_area)

    def m_area_proj():
        cols, rows = area.get_array_indices_from_projection_coordinates(xs.copy(), ys.copy())
        return {"x": fh(xs), "y": fh(ys), "cm": ih(np.ma.getmaskarray(cols)), "c": ih(np.ma.getdata(cols)),
                "rm": ih(np.ma.getmaskarray(rows)), "r": ih(np.ma.getdata(rows))}
    out["area_proj"] = guarded(m_area_proj) if len(xs) else {"x": [], "y": [], "cm": [], "c": [], "rm": [], "r": []}

    def m_area_alias():
        """deprecated aliases must return exactly what the function they stand for returns (masks and data)"""
        def same(f, g, *args):
            try:
                c1, r1 = f(*[v.copy() for v in args])
            except Exception as e:
                return "error %s: %s" % (type(e).__name__, str(e)[:120])
            c0, r0 = g(*[v.copy() for v in args])
            ok = all(np.array_equal(np.ma.getmaskarray(p), np.ma.getmaskarray(q)) and np.array_equal(np.ma.getdata(p), np.ma.getdata(q))
                     for p, q in ((c1, c0), (r1, r0)))
            return "same" if ok else "differs"
        return {"get_xy_from_lonlat": same(area.get_xy_from_lonlat, area.get_array_indices_from_lonlat, lons, lats),
                "lonlat2colrow": same(area.lonlat2colrow, area.get_array_indices_from_lonlat, lons, lats),
                "get_xy_from_proj_coords": same(area.get_xy_from_proj_coords, area.get_array_indices_from_projection_coordinates, xs, ys)}
    out["area_alias"] = guarded(m_area_alias) if len(xs) else {}

    def m_area_scalar():
        res = []
        for i in spec.get("scalar", []):
            lo, la = float(lons[i]), float(lats[i])
            x, y = area.get_projection_coordinates_from_lonlat(lo, la)
            try:
                c, r = area.get_array_indices_from_lonlat(lo, la)
                code = int(r) * w + int(c) + 1 if (0 <= int(r) < h and 0 <= int(c) < w) else -3
            except ValueError:
                code = 0
            except Exception:
                code = -1
            res.append([int(i), float(x).hex(), float(y).hex(), code])
        return res
    out["area_scalar"] = guarded(m_area_scalar)

    def m_grid():
        x, y = Proj(**area.proj_dict)(lons, lats)
        rows, cols = grid.get_linesample(lons.copy(), lats.copy(), area)
        img = grid.get_image_from_lonlats(lons.copy(), lats.copy(), area, index_img, fill_value=0)
        imgm = grid.get_image_from_lonlats(lons.copy(), lats.copy(), area, index_img, fill_value=None)
        imgm = np.where(np.ma.getmaskarray(imgm), 0, np.ma.getdata(imgm))
        return {"x": fh(x), "y": fh(y), "rows": ih(rows), "cols": ih(cols), "img": ih(img), "imgm": ih(imgm),
                "dtype": str(rows.dtype)}
    out["grid"] = guarded(m_grid)

    def m_gf():
        x, y = Proj(area.crs)(lons, lats)
        swath = geometry.SwathDefinition(lons.copy(), lats.copy())
        valid = geo_filter.GridFilter(area, np.ones((h, w), dtype=bool)).get_valid_index(swath)
        lin = np.zeros(len(lons), dtype=np.int64)
        nbits = max(1, int(h * w - 1).bit_length())
        idx = np.arange(h * w, dtype=np.int64).reshape(h, w)
        stray = np.zeros(len(lons), dtype=bool)
        for b in range(nbits):
            filt = ((idx >> b) & 1).astype(bool)
            res = geo_filter.GridFilter(area, filt).get_valid_index(swath)
            stray |= res & ~valid
            lin |= res.astype(np.int64) << b
        code = np.where(valid, lin + 1, 0)
        code = np.where(stray, -2, code)
        return {"x": fh(x), "y": fh(y), "code": ih(code)}
    out["gf"] = guarded(m_gf)

    def m_bucket():
        x, y = Proj(area.proj_dict)(lons, lats)
        ch = int(spec.get("chunks") or 4096)
        br = BucketResampler(area, da.from_array(lons.copy(), chunks=ch), da.from_array(lats.copy(), chunks=ch))
        return {"x": fh(x), "y": fh(y), "xi": ih(br.x_idxs.compute()), "yi": ih(br.y_idxs.compute())}
    out["bucket"] = guarded(m_bucket)

    def m_bucket_joint():
        """two resamplers on the SAME dask lon/lat arrays (this area and a partner area), index arrays of both evaluated in
        ONE dask.compute; next to it the partner evaluated on its own from fresh arrays"""
        pa = mk_area(spec["partner"])
        ch = int(spec.get("chunks") or 4096)
        dl, dt = da.from_array(lons.copy(), chunks=ch), da.from_array(lats.copy(), chunks=ch)
        ra, rb = BucketResampler(area, dl, dt), BucketResampler(pa, dl, dt)
        xa, ya, xb, yb = dask.compute(ra.x_idxs, ra.y_idxs, rb.x_idxs, rb.y_idxs)
        ca, cb = dask.compute(ra.get_count(), rb.get_count())
        r0 = BucketResampler(pa, da.from_array(lons.copy(), chunks=ch), da.from_array(lats.copy(), chunks=ch))
        px, py = Proj(pa.proj_dict)(lons, lats)
        return {"xa": ih(xa), "ya": ih(ya), "xb": ih(xb), "yb": ih(yb), "px": fh(px), "py": fh(py),
                "xb0": ih(r0.x_idxs.compute()), "yb0": ih(r0.y_idxs.compute()), "cnt_a": int(np.sum(ca)), "cnt_b": int(np.sum(cb))}
    if spec.get("partner") and len(lons):
        out["bucket_joint"] = guarded(m_bucket_joint)

    # ---- shared-array histories and memory layouts: one generic runner for all modules on 2-D lon/lat arrays
    def gf_codes(lo2, la2, swath, nprocs):
        valid = geo_filter.GridFilter(area, np.ones((h, w), dtype=bool), nprocs=nprocs).get_valid_index(swath)
        lin = np.zeros(valid.shape, dtype=np.int64)
        idx = np.arange(h * w, dtype=np.int64).reshape(h, w)
        stray = np.zeros(valid.shape, dtype=bool)
        for b in range(max(1, int(h * w - 1).bit_length())):
            res = geo_filter.GridFilter(area, ((idx >> b) & 1).astype(bool), nprocs=nprocs).get_valid_index(swath)
            stray |= res & ~valid
            lin |= res.astype(np.int64) << b
        return np.where(stray, -2, np.where(valid, lin + 1, 0))

    def run_module(name, lo2, la2, swath, nprocs=1):
        """call one module on the GIVEN array objects (no copies); results flattened in logical (C) order"""
        if name == "area":
            cols, rows = area.get_array_indices_from_lonlat(lo2, la2)
            return {"cm": ih(np.ma.getmaskarray(cols)), "c": ih(np.ma.getdata(cols)), "rm": ih(np.ma.getmaskarray(rows)), "r": ih(np.ma.getdata(rows))}
        if name == "grid":
            rows, cols = grid.get_linesample(lo2, la2, area, nprocs=nprocs)
            img = grid.get_image_from_lonlats(lo2, la2, area, index_img, fill_value=0, nprocs=nprocs)
            return {"rows": ih(rows), "cols": ih(cols), "img": ih(img)}
        if name == "gf":
            return {"code": ih(gf_codes(lo2, la2, swath, nprocs))}
        if name == "bucket":
            br = BucketResampler(area, da.from_array(lo2, chunks=lo2.shape), da.from_array(la2, chunks=la2.shape))
            return {"xi": ih(br.x_idxs.compute()), "yi": ih(br.y_idxs.compute())}
        if name == "ll2cr":
            n, cols, rows = ll2cr(swath, area)
            return {"cols": fh(cols), "rows": fh(rows), "n": int(n)}
        raise ValueError(name)

    def logical(k, m):
        return lons[:k * m].reshape(k, m).copy(), lats[:k * m].reshape(k, m).copy()

    def m_history(hs):
        """the modules one after another on the SAME lon/lat arrays / the same SwathDefinition; the caller's arrays are
        compared byte for byte before and after every call"""
        k, m = hs["shape"]
        lo2, la2 = logical(k, m)
        lo2, la2 = np.ascontiguousarray(lo2, dtype=np.float64), np.ascontiguousarray(la2, dtype=np.float64)
        swath = geometry.SwathDefinition(lo2, la2)
        steps = []
        for name in hs["calls"]:
            before = (lo2.tobytes(), la2.tobytes())
            try:
                res = run_module(name, lo2, la2, swath)
            except Exception as e:
                res = {"error": "%s: %s" % (type(e).__name__, str(e)[:200])}
            res["module"] = name
            res["mutated"] = [nm for nm, b, arr in (("lons", before[0], lo2), ("lats", before[1], la2)) if arr.tobytes() != b]
            if res["mutated"]:
                j = next(i for i in range(lo2.size) if lo2.ravel()[i].tobytes() != before[0][8 * i:8 * i + 8] or la2.ravel()[i].tobytes() != before[1][8 * i:8 * i + 8])
                res["first_changed"] = [j, float(np.frombuffer(before[0], dtype=np.float64)[j]).hex(), float(lo2.ravel()[j]).hex(),
                                        float(np.frombuffer(before[1], dtype=np.float64)[j]).hex(), float(la2.ravel()[j]).hex()]
            steps.append(res)
        return {"steps": steps}
    if spec.get("history"):
        out["history"] = guarded(lambda: m_history(spec["history"]))

    def m_layouts(ls):
        """the same logical 2-D lon/lat arrays in other memory layouts, on the single- and the multi-process path"""
        k, m = ls["shape"]
        lo0, la0 = logical(k, m)

        def lay(a0, kind):
            if kind == "C":
                return np.ascontiguousarray(a0)
            if kind == "F":
                return np.asfortranarray(a0)
            if kind == "T":
                return np.ascontiguousarray(a0.T).T
            if kind == "strided":
                wide = np.full((k, 2 * m), 12345.0)
                wide[:, ::2] = a0
                return wide[:, ::2]
            if kind == "negstride":
                return np.ascontiguousarray(a0[::-1, ::-1])[::-1, ::-1]
            raise ValueError(kind)
        res = []
        for kind, name, nprocs in ls["runs"]:
            lo2, la2 = lay(lo0, kind), lay(la0, kind)
            assert np.array_equal(lo2, lo0, equal_nan=True) and np.array_equal(la2, la0, equal_nan=True)
            try:
                r = run_module(name, lo2, la2, geometry.SwathDefinition(lo2, la2), nprocs=nprocs)
            except Exception as e:
                r = {"error": "%s: %s" % (type(e).__name__, str(e)[:200])}
            if nprocs > 1 and "error" not in r:
                # the multi-process PROJ construction of this module, on the C-contiguous copy of the same logical arrays
                from pyresample import _spatial_mp
                pm = _spatial_mp.Proj_MP(**area.proj_dict) if name == "grid" else _spatial_mp.Proj_MP(area.crs)
                px, py = pm(np.ascontiguousarray(lo0), np.ascontiguousarray(la0), nprocs=nprocs)
                r["x"], r["y"] = fh(px), fh(py)
            r.update({"module": name, "layout": kind, "nprocs": nprocs, "flags": [bool(lo2.flags.c_contiguous), bool(lo2.flags.f_contiguous)]})
            res.append(r)
        return {"runs": res}
    if spec.get("layouts"):
        out["layouts"] = guarded(lambda: m_layouts(spec["layouts"]))

    def m_ll2cr():
        swath = geometry.SwathDefinition(lons.copy().reshape(1, -1), lats.copy().reshape(1, -1))
        t = Transformer.from_crs(swath.crs, area.crs, always_xy=True)
        x, y = t.transform(lons.copy().reshape(1, -1), lats.copy().reshape(1, -1))
        n, cols, rows = ll2cr(swath, area)
        return {"x": fh(x), "y": fh(y), "cols": fh(cols), "rows": fh(rows), "n": int(n)}
    out["ll2cr"] = guarded(m_ll2cr) if len(lons) else {"x": [], "y": [], "cols": [], "rows": [], "n": 0}

    if spec.get("target"):
        def m_icq():
            target = mk_area(spec["target"])
            tl, tt = target.get_lonlats()
            x, y = Proj(**area.proj_dict)(tl, tt)
            icq = image.ImageContainerQuick(index_img, area, fill_value=0, nprocs=1, segments=spec.get("segments"))
            res = icq.resample(target)
            res2 = grid.get_resampled_image(target, area, index_img, fill_value=None, segments=spec.get("segments"))
            res2 = np.where(np.ma.getmaskarray(res2), 0, np.ma.getdata(res2))
            return {"lons": fh(tl), "lats": fh(tt), "x": fh(x), "y": fh(y), "img": ih(res.image_data), "imgm": ih(res2),
                    "shape": [int(v) for v in res.image_data.shape]}
        out["icq"] = guarded(m_icq)
    def m_quick(tspec):
        target = mk_area(tspec)
        tl, tt = target.get_lonlats()
        x, y = Proj(**area.proj_dict)(tl, tt)
        rows, cols = utils.generate_quick_linesample_arrays(area, target)
        img = image.ImageContainerQuick(index_img, area, fill_value=0).get_array_from_linesample(rows, cols)
        imgm = image.ImageContainerNearest(index_img, area, 1000, fill_value=None).get_array_from_linesample(rows, cols)
        imgm = np.where(np.ma.getmaskarray(imgm), 0, np.ma.getdata(imgm))
        return {"x": fh(x), "y": fh(y), "rows": ih(rows), "cols": ih(cols), "rdtype": str(rows.dtype), "cdtype": str(cols.dtype),
                "img": ih(img), "imgm": ih(imgm)}
    out["quick"] = [guarded(lambda t=t: m_quick(t)) for t in spec.get("ql_targets", [])]
    return out


req = json.load(sys.stdin)
json.dump({"areas": [run_area(a) for a in req["areas"]]}, sys.stdout)
