"""Driver: run the real area / swath slicing, concatenation and stacking on the given cases (C10).
JSON on stdin -> observations of the REAL pyresample -> JSON on stdout.  No model logic here."""
import json
import sys
import warnings

import numpy as np

warnings.simplefilter("ignore")
from pyresample.geometry import (AreaDefinition, StackedAreaDefinition, SwathDefinition,  # noqa: E402
                                 concatenate_area_defs, IncompatibleAreas)
from pyresample.future.geometry.swath import SwathDefinition as FutureSwathDefinition  # noqa: E402

req = json.load(sys.stdin)
CRS = req.get("crs", [])
out = {}


def err(e):
    return {"error": type(e).__name__}


def mk_slice(b):
    if isinstance(b, dict):      # malformed stream: {"int": 1} / {"step": [a, b, s]}
        if "int" in b:
            return b["int"]
        return slice(*b["step"])
    return slice(b[0], b[1])


def mk_area(spec, name="a"):
    return AreaDefinition(name, name + " descr", name + " proj", CRS[spec["crs"]], spec["w"], spec["h"], tuple(spec["ext"]))


def obs_area(a):
    return {"ext": [float(v) for v in a.area_extent], "w": int(a.width), "h": int(a.height),
            "off": [int(a.crop_offset[0]), int(a.crop_offset[1])], "shape": [int(s) for s in a.shape]}


def vectors(a):
    x, y = a.get_proj_vectors()
    return {"x": [float(v) for v in x], "y": [float(v) for v in y]}


def lonlats(a, data_slice=None):
    lo, la = a.get_lonlats() if data_slice is None else a.get_lonlats(data_slice=data_slice)
    return {"lons": np.asarray(lo).tolist(), "lats": np.asarray(la).tolist()}


# ---- AreaDefinition.__getitem__ (chains), crop_offset, projection vectors, lon/lats
res = []
for c in req.get("getitem", []):
    try:
        a = mk_area(c["area"])
        r = {"root": obs_area(a), "steps": []}
        want_vec = c.get("vectors", "none")      # none | last | all
        want_ll = c.get("lonlats", False)
        if want_vec != "none":
            r["root_vec"] = vectors(a)
        if want_ll:
            r["root_ll"] = lonlats(a)
        cur = a
        for i, key in enumerate(c["keys"]):
            try:
                cur = cur[mk_slice(key[0]), mk_slice(key[1])]
            except Exception as e:
                r["steps"].append(err(e))
                break
            o = obs_area(cur)
            if want_vec == "all" or (want_vec == "last" and i == len(c["keys"]) - 1):
                o["vec"] = vectors(cur)
            if want_ll and i == len(c["keys"]) - 1:
                o["ll"] = lonlats(cur)
            r["steps"].append(o)
        res.append(r)
    except Exception as e:
        res.append(err(e))
out["getitem"] = res

# ---- slicing chains, lazily: parent and children with the SAME chunks, all evaluated in ONE dask.compute
res = []
for c in req.get("joint", []):
    try:
        import dask
        areas = [mk_area(c["area"])]
        for key in c["keys"]:
            areas.append(areas[-1][mk_slice(key[0]), mk_slice(key[1])])
        ch = c["chunks"]
        ch = tuple(tuple(x) if isinstance(x, list) else x for x in ch) if isinstance(ch, list) else ch
        lazies = []
        for a in areas:
            px, py = a.get_proj_coords(chunks=ch)
            lo, la = a.get_lonlats(chunks=ch)
            lazies += [px, py, lo, la]
        order = list(range(len(lazies)))
        if c.get("reverse"):
            order.reverse()
        r = {"shapes": [obs_area(a)["shape"] for a in areas]}
        try:
            joint = dask.compute(*[lazies[i] for i in order], scheduler="synchronous")
            jj = [None] * len(lazies)
            for i, v in zip(order, joint):
                jj[i] = np.asarray(v).tolist()
            r["joint"] = jj
        except Exception as e:
            r["joint"] = err(e)
        r["alone"] = [np.asarray(x.compute(scheduler="synchronous")).tolist() for x in lazies]
        r["numpy"] = []
        for a in areas:
            px, py = a.get_proj_coords()
            lo, la = a.get_lonlats()
            r["numpy"] += [np.asarray(v).tolist() for v in (px, py, lo, la)]
        res.append(r)
    except Exception as e:
        res.append(err(e))
out["joint"] = res

# ---- concatenate_area_defs on arbitrary pairs, and split at a row + concatenate
res = []
for c in req.get("concat", []):
    try:
        a, b = mk_area(c["a"], "a"), mk_area(c["b"], "b")
        try:
            m = concatenate_area_defs(a, b)
            res.append({"area": obs_area(m)})
        except IncompatibleAreas:
            res.append({"incompatible": True})
    except Exception as e:
        res.append(err(e))
out["concat"] = res

res = []
for c in req.get("split", []):
    try:
        parent = mk_area(c["area"])
        k = c["k"]
        if "window" in c:
            # the parts reach their common edge along different slicing routes: one is cut from the parent,
            # the other from the already cropped window parent[w0:w1]
            w0, w1 = c["window"]
            a = parent[slice(w0, w1), slice(None)]
            if c["route"] == "chain_bottom":
                top, bottom = parent[slice(w0, k), slice(None)], a[slice(k - w0, None), slice(None)]
            elif c["route"] == "chain_top":
                top, bottom = a[slice(None, k - w0), slice(None)], parent[slice(k, w1), slice(None)]
            else:
                top, bottom = parent[slice(w0, k), slice(None)], parent[slice(k, w1), slice(None)]
        else:
            a = parent
            top, bottom = a[slice(0, k), slice(None)], a[slice(k, a.height), slice(None)]
        r = {"root": obs_area(a), "top": obs_area(top), "bottom": obs_area(bottom)}
        for name, (p, q) in (("tb", (top, bottom)), ("bt", (bottom, top))):
            try:
                m = concatenate_area_defs(p, q)
                r[name] = {"area": obs_area(m), "eq": bool(m == a), "eq_rev": bool(a == m)}
            except IncompatibleAreas:
                r[name] = {"incompatible": True}
        st = StackedAreaDefinition(top, bottom)
        sq = st.squeeze()
        r["stack"] = {"ndefs": len(st.defs), "squeezed_is_area": isinstance(sq, AreaDefinition),
                      "area": obs_area(sq) if isinstance(sq, AreaDefinition) else None,
                      "eq": bool(sq == a) if isinstance(sq, AreaDefinition) else False,
                      "height": int(st.height), "width": int(st.width)}
        res.append(r)
    except Exception as e:
        res.append(err(e))
out["split"] = res

# ---- StackedAreaDefinition: append / height / width / squeeze / get_lonlats (with and without data_slice)
res = []
for c in req.get("stack", []):
    try:
        members = [mk_area(m, "m%d" % i) for i, m in enumerate(c["members"])]
        r = {"members": [obs_area(m) for m in members]}
        try:
            if c.get("nested"):
                st = StackedAreaDefinition(members[0], StackedAreaDefinition(*members[1:]))
            else:
                st = StackedAreaDefinition()
                for m in members:
                    st.append(m)
        except NotImplementedError:
            r["not_implemented"] = True
            res.append(r)
            continue
        r["defs"] = [obs_area(d) for d in st.defs]
        r["height"] = int(st.height)
        r["width"] = int(st.width)
        sq = st.squeeze()
        r["squeeze_single"] = isinstance(sq, AreaDefinition)
        if c.get("lonlats"):
            r["def_ll"] = [lonlats(d) for d in st.defs]
            r["ll"] = []
            for ds in c.get("data_slices", [None]):
                try:
                    if ds is None:
                        r["ll"].append(lonlats(st))
                    else:
                        r["ll"].append(lonlats(st, (slice(ds[0][0], ds[0][1]), slice(ds[1][0], ds[1][1]))))
                except Exception as e:
                    r["ll"].append(err(e))
        if c.get("lonlats"):
            # a history on the same object: memoise (get_lonlats, hash), then append once more
            try:
                st.get_lonlats()
                hash(st)
                before = (st.lons is not None, st.hash is not None)
                st.append(members[0])
                r["after_append"] = {"memo_before": list(before), "lons_none": st.lons is None and st.lats is None,
                                     "hash_none": st.hash is None, "ndefs": len(st.defs)}
            except Exception as e:
                r["after_append"] = err(e)
        res.append(r)
    except Exception as e:
        res.append(err(e))
out["stack"] = res


# ---- swaths: slicing chains and concatenation on numpy arrays (legacy and future classes)
def mk_swath(cls, lons, lats):
    if cls == "future":
        return FutureSwathDefinition(lons, lats)
    if cls == "grid":
        from pyresample.geometry import GridDefinition
        return GridDefinition(lons, lats)
    return SwathDefinition(lons, lats)


def back(arr, kind, which=0):
    """the same values in another container / memory layout / dtype (round 3: input-type classes)"""
    if kind in (None, "np"):
        return arr
    if kind == "np_f":
        return np.asfortranarray(arr)
    if kind == "np_strided":
        wide = np.full((arr.shape[0], 2 * arr.shape[1] + 1), -7.0)
        wide[:, 1::2] = arr
        return wide[:, 1::2]
    if kind == "np_negstride":
        return np.ascontiguousarray(arr[::-1, ::-1])[::-1, ::-1]
    if kind == "f32":
        return arr.astype(np.float32)
    import xarray as xr
    n, m = arr.shape
    if kind == "xr":
        return xr.DataArray(arr, dims=("y", "x"))
    if kind == "xr_xy":         # the FIRST axis is called 'x': positions, not names, decide what a row is
        return xr.DataArray(arr, dims=("x", "y"))
    if kind == "xr_xy_lab":
        return xr.DataArray(arr, dims=("x", "y"), coords={"x": np.arange(n) + 100 * (which == 1), "y": np.arange(m)})
    if kind == "xr_other":      # other dimension names
        return xr.DataArray(arr, dims=("rows", "cols"))
    if kind == "xr_one_named":  # only one of the two names is 'x' / 'y', and on the other axis
        return xr.DataArray(arr, dims=("x", "lines"))
    if kind == "xr_dask":
        import dask.array as da
        return xr.DataArray(da.from_array(arr, chunks=2), dims=("y", "x"))
    if kind == "xr_lab":
        return xr.DataArray(arr, dims=("y", "x"), coords={"y": np.arange(n) + 100 * which, "x": np.arange(m)})
    if kind == "xr_revx":       # the second operand (or a single swath) labels its columns from the other end
        xl = np.arange(m)[::-1] if which else np.arange(m)
        return xr.DataArray(arr, dims=("y", "x"), coords={"y": np.arange(n) + 100 * (which == 1), "x": xl})
    if kind == "xr_float":      # per-granule float labels that do not match bit for bit
        return xr.DataArray(arr, dims=("y", "x"), coords={"x": np.linspace(-50, 50, m) + 1e-9 * (which == 1)})
    if kind == "xr_yone":       # row labels on one operand only
        return xr.DataArray(arr, dims=("y", "x"), coords={"y": np.arange(n) + 10}) if which != 1 else xr.DataArray(arr, dims=("y", "x"))
    raise ValueError(kind)


def tag_arrays(n, m, base=0, kind=None, which=0):
    r = np.arange(n, dtype=np.float64)[:, None] + base
    c = np.arange(m, dtype=np.float64)[None, :]
    tags = r * 1000 + c
    return back(tags, kind, which), back(-tags - 0.5, kind, which)     # lons carry the tag, lats a different injective image of it


res = []
for c in req.get("swath", []):
    try:
        lons, lats = tag_arrays(c["n"], c["m"], kind=c.get("backing"), which=2)
        s = mk_swath(c["cls"], lons, lats)
        r = {"steps": []}
        for key in c["keys"]:
            try:
                s = s[mk_slice(key[0]), mk_slice(key[1])]
            except Exception as e:
                r["steps"].append(err(e))
                break
            lo, la = np.asarray(s.lons), np.asarray(s.lats)
            r["steps"].append({"shape": [int(v) for v in s.shape], "lons": lo.astype(np.int64).tolist(),
                               "lats_ok": bool(np.array_equal(la, -lo - 0.5)), "cls": type(s).__name__,
                               "module": type(s).__module__})
        res.append(r)
    except Exception as e:
        res.append(err(e))
out["swath"] = res

res = []
for c in req.get("swath_concat", []):
    try:
        lons1, lats1 = tag_arrays(c["n1"], c["m"], kind=c.get("backing"), which=0)
        lons2, lats2 = tag_arrays(c["n2"], c["m2"], base=500, kind=c.get("backing"), which=1)
        a, b = mk_swath(c["cls"], lons1, lats1), mk_swath(c["cls"], lons2, lats2)
        r = {}
        try:
            s = a.concatenate(b)
            lo, la = np.asarray(s.lons), np.asarray(s.lats)
            r["concat"] = {"shape": [int(v) for v in s.shape], "lons": lo.astype(np.int64).tolist(),
                           "lats_ok": bool(np.array_equal(la, -lo - 0.5))}
            if c.get("key") is not None:
                t = s[mk_slice(c["key"][0]), mk_slice(c["key"][1])]
                r["concat_slice"] = {"shape": [int(v) for v in t.shape],
                                     "lons": np.asarray(t.lons).astype(np.int64).tolist()}
        except Exception as e:
            r["concat"] = err(e)
        if c["cls"] == "legacy" and c["m"] == c["m2"]:
            a2 = mk_swath(c["cls"], *tag_arrays(c["n1"], c["m"], kind=c.get("backing"), which=0))
            a2.append(b)
            r["append"] = {"shape": [int(v) for v in a2.shape], "size": int(a2.size),
                           "lons": np.asarray(a2.lons).astype(np.int64).tolist(),
                           "lats_ok": bool(np.array_equal(np.asarray(a2.lats), -np.asarray(a2.lons) - 0.5))}
        # split at row k and concatenate
        k = c.get("k")
        if k is not None:
            a3 = mk_swath(c["cls"], *tag_arrays(c["n1"], c["m"], kind=c.get("backing"), which=2))
            try:
                top, bottom = a3[slice(0, k), slice(None)], a3[slice(k, c["n1"]), slice(None)]
                s2 = top.concatenate(bottom)
                l2, t2 = np.asarray(s2.lons), np.asarray(s2.lats)
                r["split"] = {"lons_eq": bool(l2.shape == np.asarray(a3.lons).shape and np.array_equal(l2, np.asarray(a3.lons))),
                              "lats_eq": bool(t2.shape == np.asarray(a3.lats).shape and np.array_equal(t2, np.asarray(a3.lats))),
                              "eq": bool(s2 == a3), "shape": [int(v) for v in s2.shape]}
            except Exception as e:
                r["split"] = err(e)
        res.append(r)
    except Exception as e:
        res.append(err(e))
out["swath_concat"] = res

# ---- other code paths of get_lonlats (wave 2): dask chunks, cache= histories, nprocs, plain-slice data_slice
import dask  # noqa: E402
dask.config.set(scheduler="synchronous")


def ds_of(ds):
    if ds is None:
        return None
    if len(ds) == 1:                      # a plain slice object (rows)
        return slice(ds[0][0], ds[0][1])
    return (slice(ds[0][0], ds[0][1]), slice(ds[1][0], ds[1][1]))


def tolist(a):
    return np.asarray(a).tolist()


def chunks_arg(c):
    if isinstance(c, list):
        return tuple(tuple(x) if isinstance(x, list) else x for x in c)
    return c


res = []
for c in req.get("area_paths", []):
    try:
        a = mk_area(c["area"])
        full_lo, full_la = a.get_lonlats()
        px, py = a.get_proj_coords()
        r = {"full": {"lons": tolist(full_lo), "lats": tolist(full_la)}, "proj": {"x": tolist(px), "y": tolist(py)},
             "obs": obs_area(a), "dask": [], "hist": [], "plain": []}
        for ch in c.get("chunks", []):
            try:
                dx, dy = a.get_proj_coords(chunks=chunks_arg(ch))
                lo, la = a.get_lonlats(chunks=chunks_arg(ch))
                e = {"chunks": [list(map(int, t)) for t in dx.chunks], "x": tolist(dx.compute()), "y": tolist(dy.compute()),
                     "ll_chunks": [list(map(int, t)) for t in lo.chunks], "lons": tolist(lo.compute()), "lats": tolist(la.compute())}
                ds = c.get("dask_slice")
                if ds is not None:
                    lo2, la2 = a.get_lonlats(chunks=chunks_arg(ch), data_slice=ds_of(ds))
                    e["slice"] = {"lons": tolist(lo2.compute()), "lats": tolist(la2.compute())}
                r["dask"].append(e)
            except Exception as e:
                r["dask"].append(err(e))
        b = mk_area(c["area"])                    # a fresh object: the history of cached calls
        for ds, flag in c.get("history", []):
            try:
                lo, la = b.get_lonlats(data_slice=ds_of(ds), cache=bool(flag))
                r["hist"].append({"lons": tolist(lo), "lats": tolist(la), "memo_set": b.lons is not None})
            except Exception as e:
                r["hist"].append(err(e))
        for ds in c.get("plain", []):
            try:
                lo, la = mk_area(c["area"]).get_lonlats(data_slice=ds_of(ds))
                r["plain"].append({"lons": tolist(lo), "lats": tolist(la)})
            except Exception as e:
                r["plain"].append(err(e))
        if c.get("nprocs"):
            try:
                lo, la = mk_area(c["area"]).get_lonlats(nprocs=c["nprocs"])
                r["nprocs"] = {"lons": tolist(lo), "lats": tolist(la)}
            except Exception as e:
                r["nprocs"] = err(e)
        res.append(r)
    except Exception as e:
        res.append(err(e))
out["area_paths"] = res

res = []
for c in req.get("stack_paths", []):
    try:
        members = [mk_area(m, "m%d" % i) for i, m in enumerate(c["members"])]
        st = StackedAreaDefinition(*members)
        fresh = StackedAreaDefinition(*[mk_area(m, "m%d" % i) for i, m in enumerate(c["members"])])
        flo, fla = fresh.get_lonlats()
        r = {"ndefs": len(st.defs), "heights": [int(d.height) for d in st.defs], "width": int(st.width),
             "full": {"lons": tolist(flo), "lats": tolist(fla)}, "dask": [], "hist": []}
        for ch in c.get("chunks", []):
            try:
                lo, la = fresh.get_lonlats(chunks=chunks_arg(ch))
                r["dask"].append({"chunks": [list(map(int, t)) for t in lo.chunks], "lons": tolist(lo.compute()), "lats": tolist(la.compute())})
            except Exception as e:
                r["dask"].append(err(e))
        for op in c.get("history", []):
            try:
                if op[0] == "stack":
                    lo, la = st.get_lonlats(data_slice=ds_of(op[1]), cache=bool(op[2]))
                    same = bool(np.array_equal(np.asarray(st.lons), np.asarray(lo)) and np.array_equal(np.asarray(st.lats), np.asarray(la)))
                    r["hist"].append({"lons": tolist(lo), "lats": tolist(la), "attr_is_result": same})
                else:
                    lo, la = st.defs[op[1]].get_lonlats(data_slice=ds_of(op[2]), cache=bool(op[3]))
                    r["hist"].append({"lons": tolist(lo), "lats": tolist(la)})
            except Exception as e:
                r["hist"].append(err(e))
        r["def_full"] = [lonlats(d) for d in fresh.defs]
        res.append(r)
    except Exception as e:
        res.append(err(e))
out["stack_paths"] = res

json.dump(out, sys.stdout)
