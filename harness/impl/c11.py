"""Driver: run the real cropping code on the given area pairs (C11).

JSON on stdin -> runs pyresample -> JSON on stdout.  No model logic here.  Per case it reports
  res   the slices returned by the public entry point, or the exception class (kept apart: IncompatibleAreas /
        InvalidArea / NotImplementedError / anything else)
  frac  fractional source-array coordinates of EVERY target pixel centre: target.get_proj_coords() -> pyproj
        Transformer(target.crs -> source.crs) -> source.get_array_coordinates_from_projection_coordinates
        (base64 float64, cols then rows, target row-major order; non-finite where PROJ gives no image)
  inst  intermediate values of the slicer, recorded by calling its own methods / wrapping them on the instance
        (shapely geometry type + validity bit, the bounds handed to _sanitize_polygon_bounds, the array
        coordinates it returns; chunk slices and hit bits of the SwathSlicer; corner array coordinates of
        the same-CRS path of get_area_slices)
"""
import base64
import json
import sys
import warnings

import numpy as np

warnings.filterwarnings("ignore")

import dask  # noqa: E402
import dask.array as da  # noqa: E402
import xarray as xr  # noqa: E402
from pyproj import Transformer  # noqa: E402

from pyresample import slicer as slicer_mod  # noqa: E402
from pyresample.geometry import AreaDefinition, SwathDefinition  # noqa: E402
from pyresample.future.geometry import _subset  # noqa: E402
from pyresample.utils import check_slice_orientation  # noqa: E402

dask.config.set(scheduler="synchronous")
req = json.load(sys.stdin)


def b64(a):
    a = np.ascontiguousarray(np.asarray(a, dtype=np.float64))
    return base64.b64encode(a.tobytes()).decode()


def err(e):
    return {"err": type(e).__name__, "msg": str(e)[:160]}


def mk_area(g, name):
    return AreaDefinition(name, name, name, g["proj"], g["shape"][1], g["shape"][0], tuple(g["extent"]))


def sl4(xs, ys):
    return {"sl": [int(xs.start), int(xs.stop), int(ys.start), int(ys.stop)],
            "steps": [xs.step if xs.step is None else int(xs.step), ys.step if ys.step is None else int(ys.step)],
            "types": [type(v).__name__ for v in (xs.start, xs.stop, ys.start, ys.stop)]}


def fractional(src, tgt):
    x, y = tgt.get_proj_coords()
    t = Transformer.from_crs(tgt.crs, src.crs, always_xy=True)
    with np.errstate(all="ignore"):
        sx, sy = t.transform(np.asarray(x, dtype=np.float64).ravel(), np.asarray(y, dtype=np.float64).ravel())
        c, r = src.get_array_coordinates_from_projection_coordinates(np.asarray(sx), np.asarray(sy))
    return b64(np.concatenate([np.atleast_1d(np.asarray(c, dtype=np.float64)), np.atleast_1d(np.asarray(r, dtype=np.float64))]))


def run_slicer(src, tgt, out):
    inst = {}
    out["inst"] = inst
    # the un-instrumented public path (the object the resampler uses)
    try:
        xs, ys = slicer_mod.create_slicer(src, tgt).get_slices()
        out["res_plain"] = sl4(xs, ys)
    except Exception as e:
        out["res_plain"] = err(e)
    sl = slicer_mod.create_slicer(src, tgt)
    try:
        poly = sl.get_polygon_to_contain()
    except Exception as e:
        inst["poly_err"] = type(e).__name__
        out["res"] = err(e)
        return
    inst["geom"] = poly.geom_type
    inst["valid"] = bool(poly.is_valid)
    inst["poly_bounds"] = [float(v) for v in poly.bounds] if not poly.is_empty else None
    real_sanitize = sl._sanitize_polygon_bounds
    real_create = sl._create_slices_from_bounds

    def sanitize(bounds):
        inst["bounds_in"] = [float(v) for v in bounds]
        try:
            xb, yb = real_sanitize(bounds)
        except Exception as e:
            inst["san_err"] = type(e).__name__
            raise
        inst["xb"] = [float(v) for v in xb]
        inst["yb"] = [float(v) for v in yb]
        return xb, yb

    def create(bounds):
        try:
            r = real_create(bounds)
        except Exception as e:
            inst["create_err"] = type(e).__name__
            raise
        inst["created"] = [int(r[0].start), int(r[0].stop), int(r[1].start), int(r[1].stop)]
        return r
    sl._sanitize_polygon_bounds = sanitize
    sl._create_slices_from_bounds = create
    try:
        xs, ys = sl.get_slices_from_polygon(poly)
        out["res"] = sl4(xs, ys)
    except Exception as e:
        out["res"] = err(e)


def run_crop(src, tgt, out):
    from pyresample.resampler import crop_source_area
    try:
        small, xs, ys = crop_source_area(src, tgt)
        out["crop"] = dict(sl4(xs, ys), shape=[int(v) for v in small.shape], extent=[float(v) for v in small.area_extent])
    except Exception as e:
        out["crop"] = err(e)


def run_gas(src, tgt, out, c_div=()):
    inst = {"same_crs": bool(src.crs == tgt.crs)}
    out["inst"] = inst
    if inst["same_crs"]:
        llx, lly, urx, ury = tgt.area_extent
        x, y = src.get_array_coordinates_from_projection_coordinates([llx, urx], [lly, ury])
        inst["x"] = [float(v) for v in x]
        inst["y"] = [float(v) for v in y]
        try:
            inst["starts_stops"] = [int(v) for v in _subset._get_slice_starts_stops(src, tgt)]
        except Exception as e:
            inst["starts_stops_err"] = type(e).__name__
    try:
        xs, ys = src.get_area_slices(tgt)
        out["res"] = sl4(xs, ys)
    except Exception as e:
        out["res"] = err(e)
    if c_div:
        # the same request with shape_divisible_by (only the different-CRS branch honours it)
        out["div"] = {}
        for n in c_div:
            try:
                xs, ys = src.get_area_slices(tgt, shape_divisible_by=n)
                out["div"][str(n)] = sl4(xs, ys)
            except Exception as e:
                out["div"][str(n)] = err(e)
    try:
        small = src.crop_around(tgt)
        out["crop"] = {"shape": [int(v) for v in small.shape], "extent": [float(v) for v in small.area_extent]}
    except Exception as e:
        out["crop"] = err(e)


def run_swath(src, tgt, chunks, out):
    lons, lats = src.get_lonlats()
    # chunks: one size per dimension, or an explicit (ragged) list of sizes per dimension
    chunks = tuple(tuple(c) if isinstance(c, list) else c for c in chunks)
    swath = SwathDefinition(xr.DataArray(da.from_array(lons, chunks=chunks)),
                            xr.DataArray(da.from_array(lats, chunks=chunks)))
    inst = {}
    out["inst"] = inst
    out["_swath"] = swath
    sl = slicer_mod.create_slicer(swath, tgt)
    try:
        poly = sl.get_polygon_to_contain()
        inst["geom"] = poly.geom_type
        inst["valid"] = bool(poly.is_valid)
        ch = []
        for smaller_poly, (line_slice, col_slice) in sl._get_chunk_polygons_for_swath_to_crop(swath):
            ch.append([[int(line_slice.start), int(line_slice.stop)], [int(col_slice.start), int(col_slice.stop)],
                       bool(smaller_poly.intersects(poly))])
        inst["chunks"] = ch
        inst["src_chunks"] = [[int(v) for v in c] for c in swath.lons.chunks]
    except Exception as e:
        inst["inst_err"] = type(e).__name__
    try:
        xs, ys = slicer_mod.create_slicer(swath, tgt).get_slices()
        out["res"] = sl4(xs, ys)
    except Exception as e:
        out["res"] = err(e)


def run_scalar(c, out):
    """Scalar kernels on explicit inputs (for the translated / hand models)."""
    k = c["kernel"]
    try:
        if k == "create_slices":
            xs, ys = slicer_mod.AreaSlicer._create_slices_from_bounds((np.array(c["xb"], dtype=np.float64),
                                                                       np.array(c["yb"], dtype=np.float64)))
            out["res"] = sl4(xs, ys)
        elif k == "sanitize":
            src = mk_area(c["src"], "src")
            sl = slicer_mod.AreaSlicer(src, src)
            xb, yb = sl._sanitize_polygon_bounds(tuple(c["bounds"]))
            out["xb"] = [float(v) for v in xb]
            out["yb"] = [float(v) for v in yb]
            xs, ys = sl._create_slices_from_bounds((xb, yb))
            out["res"] = sl4(xs, ys)
        elif k == "ensure_int":
            s = _subset._ensure_integer_slice(slice(c["start"], c["stop"], c.get("step")))
            out["res"] = {"v": [s.start, s.stop, s.step], "types": [type(v).__name__ for v in (s.start, s.stop, s.step)]}
        elif k == "orientation":
            s = check_slice_orientation(slice(c["start"], c["stop"], c.get("step")))
            out["res"] = {"v": [s.start, s.stop, s.step]}
        elif k == "starts_stops":
            src = mk_area(c["src"], "src")
            tgt = mk_area(c["tgt"], "tgt")
            llx, lly, urx, ury = tgt.area_extent
            x, y = src.get_array_coordinates_from_projection_coordinates([llx, urx], [lly, ury])
            out["x"] = [float(v) for v in x]
            out["y"] = [float(v) for v in y]
            out["res"] = {"v": [int(v) for v in _subset._get_slice_starts_stops(src, tgt)]}
    except Exception as e:
        out["res"] = err(e)


def run_near_history(c, out):
    """One source, a sequence of near-identical targets, every cached entry point called for each target IN ORDER in this one
    process (lru_cache of crop_source_area; JSON file cache of get_area_slices with cache_geometry_slices=True), then the
    uncached computations of the same requests."""
    import tempfile

    import pyresample
    from pyresample.resampler import crop_source_area

    def oc(f):
        try:
            xs, ys = f()
            return sl4(xs, ys)
        except Exception as e:
            return err(e)
    steps = [{} for _ in c["tgts"]]
    for st, t in zip(steps, c["tgts"]):
        st["frac"] = fractional(mk_area(c["src"], "src"), mk_area(t, "tgt"))
        st["crop_cached"] = oc(lambda: crop_source_area(mk_area(c["src"], "src"), mk_area(t, "tgt"))[1:])
    with tempfile.TemporaryDirectory() as cache_dir:
        with pyresample.config.set(cache_geometry_slices=True, cache_dir=cache_dir):
            for st, t in zip(steps, c["tgts"]):
                st["gas_cached"] = oc(lambda: tuple(mk_area(c["src"], "src").get_area_slices(mk_area(t, "tgt"))))
    for st, t in zip(steps, c["tgts"]):
        st["crop_fresh"] = oc(lambda: slicer_mod.create_slicer(mk_area(c["src"], "src"), mk_area(t, "tgt")).get_slices())
        st["gas_fresh"] = oc(lambda: mk_area(c["src"], "src").get_area_slices(mk_area(t, "tgt")))
    out["steps"] = steps


results = []
for c in req["cases"]:
    out = {}
    try:
        if c["api"] == "scalar":
            run_scalar(c, out)
            results.append(out)
            continue
        if c["api"] == "near_history":
            run_near_history(c, out)
            results.append(out)
            continue
        src = mk_area(c["src"], "src")
        tgt = mk_area(c["tgt"], "tgt")
        out["frac"] = fractional(src, tgt)
        if c["api"] == "slicer":
            run_slicer(src, tgt, out)
            if c.get("crop"):
                run_crop(src, tgt, out)
        elif c["api"] == "gas":
            run_gas(src, tgt, out, c.get("divisible") or ())
        elif c["api"] == "swath":
            run_swath(src, tgt, c["chunks"], out)
    except Exception as e:   # construction of the inputs failed: not an observation of the cropping code
        out["setup_err"] = err(e)
    results.append(out)

# ---- histories: the same requests again, in reverse order, through the caches (fresh but equal area objects for the
# lru_cache of crop_source_area; the same swath object for the lru_cache(maxsize=10) of the chunk boxes, which more than
# ten swaths have gone through by now; a miss and a hit of the JSON file cache of get_area_slices)
import tempfile  # noqa: E402

import pyresample  # noqa: E402
from pyresample.resampler import crop_source_area  # noqa: E402


def outcome(f):
    try:
        xs, ys = f()
        return sl4(xs, ys)["sl"]
    except Exception as e:
        return type(e).__name__


with tempfile.TemporaryDirectory() as cache_dir:
    for c, out in reversed(list(zip(req["cases"], results))):
        if c["api"] in ("scalar", "near_history") or "setup_err" in out or not c.get("history"):
            continue
        try:
            if c["api"] == "slicer":
                out["again"] = [outcome(lambda: crop_source_area(mk_area(c["src"], "src"), mk_area(c["tgt"], "tgt"))[1:])
                                for _ in range(2)]
                out["fresh"] = outcome(lambda: slicer_mod.create_slicer(mk_area(c["src"], "s2"), mk_area(c["tgt"], "t2")).get_slices())
            elif c["api"] == "gas":
                src, tgt = mk_area(c["src"], "src"), mk_area(c["tgt"], "tgt")
                out["fresh"] = outcome(lambda: src.get_area_slices(tgt))
                with pyresample.config.set(cache_geometry_slices=True, cache_dir=cache_dir):
                    out["again"] = [outcome(lambda: tuple(mk_area(c["src"], "src").get_area_slices(mk_area(c["tgt"], "tgt"))))
                                    for _ in range(2)]
            elif c["api"] == "swath" and "_swath" in out:
                sw, tgt = out["_swath"], mk_area(c["tgt"], "tgt")
                out["again"] = [outcome(lambda: slicer_mod.create_slicer(sw, tgt).get_slices()) for _ in range(2)]
                out["fresh"] = "sl" in out["res"] and out["res"]["sl"] or out["res"]["err"]
        except Exception as e:
            out["history_err"] = err(e)
for out in results:
    out.pop("_swath", None)
json.dump({"results": results}, sys.stdout)
