"""Driver: run the real kd_tree nearest-neighbour resampling on the given cases (C02).

JSON on stdin: {"cases": [...], "lattice": [...]}; JSON on stdout.  No model logic here: the driver only
builds the geometry objects, calls pyresample, and reports what it observed (coordinates as seen by the
resampler, neighbour info, the resampler's own cartesian coordinates, the final array)."""
import json
import sys
import warnings

import numpy as np

warnings.simplefilter("ignore")

from pyresample import _spatial_mp, geometry, kd_tree  # noqa: E402

req = json.load(sys.stdin)


def relayout(a, how):
    """Same logical array, different memory layout (no model logic: numpy views / copies only)."""
    a = np.asarray(a)
    if how in (None, "C") or a.ndim == 0:
        return a
    if how == "F":
        return np.asfortranarray(a)
    if how == "T":                                   # transposed view of a C buffer holding the transpose
        return np.ascontiguousarray(a.T).T
    if how == "neg":                                 # negative strides along every axis
        rev = tuple(slice(None, None, -1) for _ in range(a.ndim))
        return np.ascontiguousarray(a[rev])[rev]
    if how == "strided":                             # every second row of a twice as long buffer
        big = np.repeat(a, 2, axis=0)
        return big[::2]
    raise ValueError(how)


def mk_geo(g):
    kind = g["kind"]
    if kind in ("swath", "grid", "coord"):
        dt = np.dtype(g.get("dtype", "float64"))
        lons = relayout(np.array(g["lons"], dtype=dt).reshape(g["shape"]), g.get("mem"))
        lats = relayout(np.array(g["lats"], dtype=dt).reshape(g["shape"]), g.get("mem"))
        if kind == "swath":
            return geometry.SwathDefinition(lons=lons, lats=lats)
        if kind == "grid":
            return geometry.GridDefinition(lons=lons, lats=lats)
        return geometry.CoordinateDefinition(lons=lons, lats=lats)
    if kind == "area":
        h, w = g["shape"]
        return geometry.AreaDefinition("a", "a", "a", g["proj"], w, h, tuple(g["extent"]))
    raise ValueError(kind)


def flt(a):
    return [float(x) for x in np.asarray(a, dtype=np.float64).ravel()]


def mk_data(d, src_shape, mem=None):
    dt = np.dtype(d["dtype"])
    k = d["k"]
    vals = np.array(d["values"], dtype=dt)          # (n, max(k,1))
    n = vals.shape[0]
    if k == 0:
        vals = vals.reshape(n)
    if d["layout"] == "geo":
        vals = vals.reshape(tuple(src_shape) + ((k,) if k else ()))
    if d.get("mask") is not None:
        m = np.array(d["mask"], dtype=bool).reshape(vals.shape)
        return np.ma.array(relayout(vals, mem), mask=relayout(m, mem))
    return relayout(vals, mem)


def snapshot(arrs):
    out = []
    for a in arrs:
        if isinstance(a, np.ma.MaskedArray):
            out.append((np.array(a.data, copy=True), np.array(np.ma.getmaskarray(a), copy=True)))
        else:
            out.append((np.array(a, copy=True), None))
    return out


def changed(arrs, snap, names):
    bad = []
    for a, (d0, m0), n in zip(arrs, snap, names):
        d1 = a.data if isinstance(a, np.ma.MaskedArray) else np.asarray(a)
        ok = d1.shape == d0.shape and d1.dtype == d0.dtype and np.array_equal(d1, d0, equal_nan=(d0.dtype.kind == "f"))
        if ok and m0 is not None:
            ok = np.array_equal(np.ma.getmaskarray(a), m0)
        if not ok:
            bad.append(n)
    return bad


def mk_fill(f, dtype):
    if f is None:
        return None
    if isinstance(f, dict):       # {"np": value}: numpy scalar of the data dtype
        return np.dtype(dtype).type(f["np"])
    return f


def describe(res):
    is_ma = isinstance(res, np.ma.MaskedArray)
    arr = np.asarray(res.data if is_ma else res)
    out = {"shape": [int(x) for x in arr.shape], "dtype": str(arr.dtype), "is_ma": bool(is_ma)}
    if arr.dtype.kind == "f":
        out["vals"] = [float(x) for x in arr.ravel()]
    elif arr.dtype.kind in "iu":
        out["vals"] = [int(x) for x in arr.ravel()]
    else:
        out["vals"] = [repr(x) for x in arr.ravel()]
    out["mask"] = [int(x) for x in np.ma.getmaskarray(res).ravel()] if is_ma else None
    return out


def same(a, b):
    da, db = describe(a), describe(b)
    va, vb = da.pop("vals"), db.pop("vals")
    if da != db or len(va) != len(vb):
        return False
    return all((x == y) or (x != x and y != y) for x, y in zip(va, vb))


def run_case(c):
    src = mk_geo(c["src"])
    tgt = mk_geo(c["tgt"])
    data = mk_data(c["data"], src.shape, c["data"].get("mem"))
    fill = mk_fill(c["fill"], c["data"]["dtype"])
    r = c["radius"]
    out = {}
    slons, slats = src.get_lonlats()
    tlons, tlats = tgt.get_lonlats(dtype=src.dtype)        # what _query_resample_kdtree asks for
    out["coord_dtype"] = str(np.asarray(slons).dtype)
    out["tgt_coord_dtype"] = str(np.asarray(tlons).dtype)
    out["src_lons"], out["src_lats"] = flt(slons), flt(slats)
    out["tgt_lons"], out["tgt_lats"] = flt(tlons), flt(tlats)
    out["src_shape"] = [int(x) for x in src.shape]
    out["tgt_shape"] = [int(x) for x in tgt.shape]
    eps = c.get("epsilon", 0)
    vii, voi, idx, dist = kd_tree.get_neighbour_info(src, tgt, r, neighbours=1, epsilon=eps, reduce_data=False,
                                                     nprocs=1, segments=1)
    if c.get("check_segments"):
        # other values of the segments argument must give the same neighbour info (C03 proves it for the model)
        bad = []
        rows = int(tgt.shape[0])
        for seg in (None, 2, 3, rows + 3):
            v2 = kd_tree.get_neighbour_info(src, tgt, r, neighbours=1, epsilon=eps, reduce_data=False, nprocs=1, segments=seg)
            if not all(np.array_equal(np.asarray(a), np.asarray(b)) for a, b in zip((vii, voi, idx, dist), v2)):
                bad.append(seg)
        out["segments_differ"] = bad
    if c.get("check_k2"):
        # 'nn' sampling must refuse an index array with more than one neighbour per target
        try:
            i2 = kd_tree.get_neighbour_info(src, tgt, r, neighbours=2, epsilon=eps, reduce_data=False, nprocs=1, segments=1)
            if np.asarray(i2[2]).ndim == 2 and int(np.asarray(i2[0]).sum()) and int(np.asarray(i2[1]).sum()):
                try:
                    kd_tree.get_sample_from_neighbour_info('nn', tgt.shape, data, i2[0], i2[1], i2[2], fill_value=fill)
                    out["k2"] = "no error"
                except Exception as e:
                    out["k2"] = type(e).__name__
            else:
                out["k2"] = "n/a"
        except Exception as e:
            out["k2"] = "info:" + type(e).__name__
    out["vii"] = [int(x) for x in np.asarray(vii).ravel()]
    out["voi"] = [int(x) for x in np.asarray(voi).ravel()]
    out["idx"] = [int(x) for x in np.asarray(idx).ravel()]
    out["idx_ndim"] = int(np.asarray(idx).ndim)
    out["dist_isinf"] = [int(np.isinf(x)) for x in np.asarray(dist, dtype=np.float64).ravel()]
    # the resampler's own cartesian coordinates (same function, same inputs as _create/_query_resample_kdtree)
    cart = _spatial_mp.Cartesian()
    sl = np.asanyarray(slons).ravel()
    sa = np.asanyarray(slats).ravel()
    vb = np.asarray(vii, dtype=bool)
    sxyz = cart.transform_lonlats(sl[vb], sa[vb])
    out["xyz_dtype"] = str(sxyz.dtype)
    out["src_xyz"] = [[float(v) for v in row] for row in np.asarray(sxyz, dtype=np.float64)]
    tree_same = None
    if sxyz.size:
        try:
            tree = kd_tree._create_resample_kdtree(sl, sa, vb)
            tree_same = bool(np.array_equal(np.asarray(tree.data).ravel(), sxyz.ravel()))
        except Exception as e:  # noqa
            tree_same = "error:" + type(e).__name__
    out["tree_data_same"] = tree_same
    ob = np.asarray(voi, dtype=bool)
    if ob.size == np.asanyarray(tlons).size:
        txyz = cart.transform_lonlats(np.asanyarray(tlons).ravel()[ob], np.asanyarray(tlats).ravel()[ob])
        txyz = np.asarray(txyz, dtype=sxyz.dtype)
        out["tgt_xyz"] = [[float(v) for v in row] for row in np.asarray(txyz, dtype=np.float64)]
    else:
        out["tgt_xyz"] = []
    if sxyz.dtype == np.float64 and np.asanyarray(tlons).dtype == np.float64 and len(out["tgt_xyz"]) == int(ob.sum()):
        # cos / sin as evaluated by the engine transform_lonlats uses, at the arguments lon*deg2rad / lat*deg2rad
        deg2rad = np.pi / 180
        args = np.concatenate([sl[vb] * deg2rad, sa[vb] * deg2rad, np.asanyarray(tlons).ravel()[ob] * deg2rad,
                               np.asanyarray(tlats).ravel()[ob] * deg2rad]).astype(np.float64)
        args = np.unique(args.view(np.int64)).view(np.float64) if args.size else args
        if _spatial_mp.ne:
            cs = _spatial_mp.ne.evaluate("cos(args)") if args.size else args
            sn = _spatial_mp.ne.evaluate("sin(args)") if args.size else args
        else:
            cs, sn = np.cos(args), np.sin(args)
        out["trig"] = [[float(a), float(b), float(d)] for a, b, d in zip(args, cs, sn)]
    # ---- history: the neighbour info computed once is used for several get_sample_from_neighbour_info calls;
    #      every argument must come back unchanged and every use must give what the first one gave
    names = ["valid_input_index", "valid_output_index", "index_array", "distance_array", "data"]
    args = [vii, voi, idx, dist, data]
    snap = snapshot(args)
    res = kd_tree.get_sample_from_neighbour_info('nn', tgt.shape, data, vii, voi, idx, fill_value=fill)
    out["res"] = describe(res)
    out["mutated"] = changed(args, snap, names)
    res_b = kd_tree.get_sample_from_neighbour_info('nn', tgt.shape, data, vii, voi, idx, distance_array=dist, fill_value=fill)
    res_c = kd_tree.get_sample_from_neighbour_info('nn', tgt.shape, data, vii, voi, idx, fill_value=fill)
    out["mutated"] = sorted(set(out["mutated"]) | set(changed(args, snap, names)))
    for tag, rr in (("second", res_b), ("third", res_c)):
        if not same(res, rr):
            out["reuse_differs"] = tag
            out["res_reuse"] = describe(rr)
            break
    # ---- memory layout: the same logical arrays in C order must give the same result
    if c["data"].get("mem") not in (None, "C") or c["src"].get("mem") not in (None, "C") or c["tgt"].get("mem") not in (None, "C"):
        csrc = mk_geo(dict(c["src"], mem="C"))
        ctgt = mk_geo(dict(c["tgt"], mem="C"))
        cdata = mk_data(c["data"], csrc.shape, "C")
        cres = kd_tree.resample_nearest(csrc, cdata, ctgt, r, epsilon=eps, fill_value=fill, reduce_data=False, nprocs=1, segments=1)
        out["layout_same"] = same(res, cres)
    res2 = kd_tree.resample_nearest(src, data, tgt, r, epsilon=eps, fill_value=fill, reduce_data=False, nprocs=1,
                                    segments=1)
    out["direct_same"] = same(res, res2)
    return out


results = []
for c in req.get("cases", []):
    try:
        results.append(run_case(c))
    except Exception as e:  # reported, judged by the harness
        results.append({"error": type(e).__name__, "msg": str(e)[:300]})

lat = []
for c in req.get("lattice", []):
    try:
        pts = np.array(c["pts"], dtype=np.float64)
        q = np.array(c["queries"], dtype=np.float64)
        tree = kd_tree.KDTree(pts)
        dist, idx = tree.query(q, k=1, eps=0, distance_upper_bound=c["r"])
        lat.append({"idx": [int(x) for x in idx], "isinf": [int(np.isinf(x)) for x in dist]})
    except Exception as e:
        lat.append({"error": type(e).__name__, "msg": str(e)[:300]})

json.dump({"cases": results, "lattice": lat}, sys.stdout)
