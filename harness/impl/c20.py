"""Driver: run the real CF / rasterio / odc-geo / cartopy conversions of pyresample on the given cases (C20).
JSON on stdin -> observations as JSON on stdout.  No model logic: areas are built as asked, handed to the other
library's container, read back with pyresample, and what comes back is reported."""
import json
import sys
import warnings

warnings.filterwarnings("ignore")
import numpy as np
import pyproj

import pyresample
from pyresample.geometry import AreaDefinition

req = json.load(sys.stdin)
out = {"libs": {}}


def have(mod):
    try:
        __import__(mod)
        return True
    except Exception:
        return False


for lib in ("xarray", "rasterio", "odc.geo", "cartopy", "affine"):
    out["libs"][lib] = have(lib)


def mk_area(spec):
    return AreaDefinition("a", "a", "a", spec["crs"], spec["w"], spec["h"], tuple(spec["extent"]))


def fl(seq):
    return [float(v) for v in seq]


def crs_same_grid(crs_a, crs_b, area):
    """Operational CRS equality: the transformation between the two CRSs is the identity on the area."""
    try:
        t = pyproj.Transformer.from_crs(crs_a, crs_b, always_xy=True)
        x0, y0, x1, y1 = area.area_extent
        xs = [x0, x1, x0, x1, 0.5 * (x0 + x1)]
        ys = [y0, y0, y1, y1, 0.5 * (y0 + y1)]
        px, py = t.transform(xs, ys)
        scale = max(abs(area.pixel_size_x), abs(area.pixel_size_y))
        return bool(all(abs(a - b) <= 1e-6 * scale for a, b in zip(list(px) + list(py), xs + ys)))
    except Exception:
        return False


def crs_report(crs_b, area):
    a = area.crs
    try:
        b = pyproj.CRS.from_user_input(crs_b)
    except Exception:
        b = pyproj.CRS.from_wkt(crs_b.to_wkt())
    return {"crs_eq": bool(a == b), "crs_exact": bool(a.is_exact_same(b)), "crs_op": crs_same_grid(a, b, area)}


def future(flag):
    """features.future_geometries switches the returned class (future AreaDefinition instead of the legacy one)."""
    return pyresample.config.set({"features.future_geometries": bool(flag)})


def area_report(b, a):
    x, y = b.get_proj_vectors()
    r = {"extent": fl(b.area_extent), "shape": [int(b.shape[0]), int(b.shape[1])], "xvec": fl(x), "yvec": fl(y),
         "type": type(b).__name__}
    try:
        r["eq"] = bool(b == a)
    except Exception as e:
        r["eq"] = "error:" + type(e).__name__
    r.update(crs_report(b.crs, a))
    return r


# ---------------------------------------------------------------------------------------------- CF
def run_cf(cases):
    import xarray as xr
    import pyresample.area_config as ac
    from pyresample.utils.cf import load_cf_area
    calls = []
    orig = ac._convert_units

    def spy(var, name, units, p, crs, inverse=False, center=None):
        res = orig(var, name, units, p, crs, inverse=inverse, center=center)
        if name == "area_extent" and var is not None:
            calls.append(fl(var) + fl(res))
        return res
    ac._convert_units = spy
    res = []
    for c in cases:
        r = {}
        try:
            a = mk_area(c["area"])
            x, y = a.get_proj_vectors()
            if c["flipx"]:
                x = x[::-1]
            if c["flipy"]:
                y = y[::-1]
            cf = a.crs.to_cf()
            k = None
            if c["mode"] == 1:
                k = float(c["k"])
            elif c["mode"] == 2:
                k = float(cf["perspective_point_height"])
            if k is not None:
                x = x / k
                y = y / k
            r["k"] = k
            if c.get("dtype"):
                # coordinate variables stored in a narrower dtype (most real CF files use float32, some integers)
                xs_, ys_ = x.astype(c["dtype"]), y.astype(c["dtype"])
                r["cast_exact"] = bool(np.array_equal(xs_.astype(np.float64), x) and np.array_equal(ys_.astype(np.float64), y))
                x, y = xs_, ys_
            if c.get("drop_wkt"):
                cf = {key: v for key, v in cf.items() if key != "crs_wkt"}
            ydim, xdim = c["dims"]
            xattrs = {"standard_name": c["xname"]}
            yattrs = {"standard_name": c["yname"]}
            if c["xunit"] is not None:
                xattrs["units"] = c["xunit"]
            if c["yunit"] is not None:
                yattrs["units"] = c["yunit"]
            shape = (len(y), len(x))
            data_vars = {"crs": ((), 0, cf)}
            if c.get("time"):
                data_vars["v"] = (("time", ydim, xdim), np.zeros((1,) + shape), {"grid_mapping": "crs"})
            else:
                data_vars["v"] = ((ydim, xdim), np.zeros(shape), {"grid_mapping": "crs"})
            ds = xr.Dataset(data_vars, coords={ydim: (ydim, y, yattrs), xdim: (xdim, x, xattrs)})
            r["stored"] = [float(ds[xdim][0]), float(ds[xdim][-1]), float(ds[ydim][0]), float(ds[ydim][-1])]
            r["stored_x"] = fl(ds[xdim].values)
            r["stored_y"] = fl(ds[ydim].values)
            del calls[:]
            how = c["lookup"]

            def load():
                if how == "var":
                    return load_cf_area(ds, variable="v")
                if how == "none":
                    return load_cf_area(ds)
                if how == "gm":
                    return load_cf_area(ds, variable="crs", y=ydim, x=xdim)
                if how == "xy":
                    return load_cf_area(ds, variable="v", y=ydim, x=xdim)
                return AreaDefinition.from_cf(ds, variable="v"), None
            try:
                with future(c.get("future")):
                    b, info = load()
                    r["error"] = None
                    r.update(area_report(b, a))
                    r["tab"] = [list(t) for t in calls]
                    # history: a second load of the same, untouched dataset gives the same area
                    b2, _ = load()
                    r["repeat_same"] = bool(tuple(b2.area_extent) == tuple(b.area_extent) and b2.shape == b.shape
                                            and fl(ds[xdim].values) == r["stored_x"] and fl(ds[ydim].values) == r["stored_y"])
                if info is not None:
                    r["info"] = {"x": info["x"]["varname"], "y": info["y"]["varname"],
                                 "gm": info["grid_mapping_variable"], "type": info["type_of_grid_mapping"]}
            except Exception as e:  # the observation is the exception type
                r["error"] = type(e).__name__
                r["message"] = str(e)[:200]
        except Exception as e:
            r = {"setup_error": type(e).__name__ + ": " + str(e)[:300]}
        res.append(r)
    ac._convert_units = orig
    return res


# ---------------------------------------------------------------------------------------------- rasters
class FakeGdal:
    """The part of an osgeo.gdal.Dataset that _get_area_def_from_gdal reads (osgeo is not installed here)."""

    def __init__(self, tr, w, h, wkt):
        self._tr, self.RasterXSize, self.RasterYSize, self._wkt = tr, w, h, wkt

    def GetGeoTransform(self):
        a, b, c, d, e, f = self._tr
        return (c, a, b, f, d, e)

    def GetProjection(self):
        return self._wkt

    def close(self):
        pass


def write_raster(tr, w, h, crs_wkt, tags=None):
    from rasterio.io import MemoryFile
    mf = MemoryFile()
    with mf.open(driver="GTiff", width=w, height=h, count=1, dtype="uint8", crs=crs_wkt, transform=tr) as dst:
        dst.write(np.zeros((1, h, w), dtype="uint8"))
        if tags:
            dst.update_tags(**tags)      # file metadata, e.g. AREA_OR_POINT=Point (PixelIsPoint rasters such as DEMs)
    return mf


def run_raster(cases):
    from affine import Affine
    from pyresample.utils.rasterio import get_area_def_from_raster
    res = []
    for c in cases:
        r = {}
        try:
            a = mk_area(c["area"])
            ext = a.area_extent
            if c["sn"]:
                tr = Affine(a.pixel_size_x, 0.0, ext[0], 0.0, a.pixel_size_y, ext[1])
            else:
                tr = Affine(a.pixel_size_x, 0.0, ext[0], 0.0, -a.pixel_size_y, ext[3])
            mf = write_raster(tr, a.width, a.height, a.crs.to_wkt(), c.get("tags"))
            with mf.open() as src:
                r["written_transform"] = fl(tuple(tr)[:6])
                r["tags"] = {k: str(v) for k, v in src.tags().items()}
                r["transform"] = fl(tuple(src.transform)[:6])
                r["bounds"] = fl(src.bounds)
                with future(c.get("future")):
                    if c.get("by_name"):
                        b = get_area_def_from_raster(mf.name)
                    else:
                        b = get_area_def_from_raster(src)
            r["rio"] = area_report(b, a)
            with future(c.get("future")):
                g = get_area_def_from_raster(FakeGdal(r["transform"], a.width, a.height, a.crs.to_wkt()), projection=a.crs)
            r["gdal"] = area_report(g, a)
            mf.close()
        except Exception as e:
            r["error"] = type(e).__name__ + ": " + str(e)[:300]
        res.append(r)
    return res


def run_rotated(cases):
    from affine import Affine
    from pyresample.utils.rasterio import get_area_def_from_raster
    res = []
    wkt = pyproj.CRS.from_epsg(3857).to_wkt()
    for c in cases:
        tr, w, h = c["tr"], c["w"], c["h"]
        r = {}
        try:
            get_area_def_from_raster(FakeGdal(tr, w, h, wkt), projection="EPSG:3857")
            r["gdal"] = None
        except Exception as e:
            r["gdal"] = type(e).__name__
        try:
            mf = write_raster(Affine(*tr), w, h, wkt)
            with mf.open() as src:
                r["transform"] = fl(tuple(src.transform)[:6])
                try:
                    get_area_def_from_raster(src)
                    r["rio"] = None
                except Exception as e:
                    r["rio"] = type(e).__name__
            mf.close()
        except Exception as e:
            r["rio"] = "setup:" + type(e).__name__
        res.append(r)
    return res


# ---------------------------------------------------------------------------------------------- GeoBox / cartopy
def run_geobox(cases):
    res = []
    for c in cases:
        r = {}
        try:
            a = mk_area(c["area"])
            gb = a.to_odc_geobox()
            af = gb.affine
            r["affine"] = fl(tuple(af)[:6])
            r["shape"] = [int(gb.shape[0]), int(gb.shape[1])]
            r["c00"] = fl(af * (0, 0))
            r["cwh"] = fl(af * (a.width, a.height))
            r["centre00"] = fl(af * (0.5, 0.5))
            r["area_c00"] = [float(a.get_proj_vectors()[0][0]), float(a.get_proj_vectors()[1][0])]
            gb2 = a.to_odc_geobox()
            r["repeat_same"] = bool(tuple(gb2.affine)[:6] == tuple(af)[:6] and tuple(gb2.shape) == tuple(gb.shape))
            r.update(crs_report(pyproj.CRS.from_wkt(gb.crs.to_wkt()), a))
        except Exception as e:
            r["error"] = type(e).__name__ + ": " + str(e)[:300]
        res.append(r)
    return res


def run_cartopy(cases):
    res = []
    for c in cases:
        r = {}
        try:
            a = mk_area(c["area"])
            p = a.to_cartopy_crs()
            r["bounds"] = fl(p.bounds)
            r["x_limits"], r["y_limits"] = fl(p.x_limits), fl(p.y_limits)
            r["repeat_same"] = bool(fl(a.to_cartopy_crs().bounds) == r["bounds"] and fl(a.area_extent) == fl(c["area"]["extent"]))
            r["crs_eq"] = bool(pyproj.CRS.from_wkt(p.to_wkt()) == a.crs)
            r["crs_op"] = crs_same_grid(a.crs, pyproj.CRS.from_wkt(p.to_wkt()), a)
        except Exception as e:
            r["error"] = type(e).__name__ + ": " + str(e)[:300]
        res.append(r)
    return res


def guarded(lib, fn, cases):
    if not cases:
        return []
    if not all(out["libs"].get(m) for m in lib):
        return None          # library missing: the harness records a note and skips the clause
    return fn(cases)


out["cf"] = guarded(["xarray"], run_cf, req.get("cf", []))
out["raster"] = guarded(["rasterio", "affine"], run_raster, req.get("raster", []))
out["rotated"] = guarded(["rasterio", "affine"], run_rotated, req.get("rotated", []))
out["geobox"] = guarded(["odc.geo", "affine"], run_geobox, req.get("geobox", []))
out["cartopy"] = guarded(["cartopy"], run_cartopy, req.get("cartopy", []))
json.dump(out, sys.stdout)
