"""Driver: run the real DynamicAreaDefinition.freeze / compute_domain on the given cases (C14).

JSON on stdin -> JSON on stdout.  No model logic here: the driver only runs pyresample, records the values the
implementation itself obtained from PROJ (projected points, area of use, is_geographic) and evaluates the frozen
area's own accessors on independently projected points for the property oracle of harness/c14.py.
"""
import json
import sys
import warnings

import numpy as np

warnings.simplefilter("ignore")
import dask
import dask.array as da
import xarray as xr
from pyproj import CRS, Transformer

import pyresample.utils.proj4 as p4
from pyresample.geometry import DynamicAreaDefinition, SwathDefinition

dask.config.set(scheduler="synchronous")

req = json.load(sys.stdin)
out = {}


def hx(v):
    return float(v).hex()


def pm_degrees(crs):
    """longitude of the prime meridian in DEGREES (pyproj reports e.g. 'paris' in grads): the H_pm reading is in degrees"""
    import math
    pm = crs.prime_meridian
    return float(pm.longitude) if pm.unit_name == "degree" else math.degrees(pm.longitude * pm.unit_conversion_factor)


def unhex(v):
    if v is None:
        return None
    if isinstance(v, str):
        return float.fromhex(v) if v not in ("nan",) else float("nan")
    if isinstance(v, list):
        return tuple(unhex(x) for x in v)
    return v            # ints stay ints


# --- record what the implementation gets from PROJ
captured = {}
_orig_transform = p4.DaskFriendlyTransformer.transform


def _rec_transform(self, x, y, **kw):
    rx, ry = _orig_transform(self, x, y, **kw)
    cx = np.array(rx.compute() if hasattr(rx, "compute") else rx, dtype=np.float64).ravel()
    cy = np.array(ry.compute() if hasattr(ry, "compute") else ry, dtype=np.float64).ravel()
    captured["pts"] = (cx.copy(), cy.copy())
    return rx, ry


p4.DaskFriendlyTransformer.transform = _rec_transform
_orig_aou = DynamicAreaDefinition._get_crs_area_of_use


def _rec_aou(self, projection):
    a = _orig_aou(self, projection)
    captured["aou"] = (float(a.west), float(a.east))
    return a


DynamicAreaDefinition._get_crs_area_of_use = _rec_aou
_orig_uniform = SwathDefinition._compute_uniform_shape


def _rec_uniform(self, resolution=None):
    hw = _orig_uniform(self, resolution)
    captured["opt_shape"] = [int(hw[0]), int(hw[1])]
    return hw


SwathDefinition._compute_uniform_shape = _rec_uniform


def mk_input(case):
    lons = np.array([unhex(v) for v in case["lons"]], dtype=np.float64)
    lats = np.array([unhex(v) for v in case["lats"]], dtype=np.float64)
    if case.get("shape2d"):
        lons = lons.reshape(case["shape2d"])
        lats = lats.reshape(case["shape2d"])
    kind = case["kind"]
    ch = case.get("chunks") or 3
    if kind == "numpy":
        return (lons, lats)
    if kind == "list":
        return (lons.tolist(), lats.tolist())
    if kind == "dask":
        return (da.from_array(lons, chunks=ch), da.from_array(lats, chunks=ch))
    if kind == "swath":
        return SwathDefinition(lons, lats)
    if kind == "swath_dask":
        return SwathDefinition(da.from_array(lons, chunks=ch), da.from_array(lats, chunks=ch))
    if kind == "swath_xr":
        dims = ("y", "x")[-lons.ndim:]
        return SwathDefinition(xr.DataArray(lons, dims=dims), xr.DataArray(lats, dims=dims))
    if kind == "swath_xr_dask":
        dims = ("y", "x")[-lons.ndim:]
        return SwathDefinition(xr.DataArray(da.from_array(lons, chunks=ch), dims=dims),
                               xr.DataArray(da.from_array(lats, chunks=ch), dims=dims))
    if kind == "swath_bbox":
        from pyresample.future.geometry import SwathDefinition as FutureSwath
        return FutureSwath(None, None, attrs=dict(bounding_box=[lons.ravel().tolist(), lats.ravel().tolist()]))
    if kind == "none":
        return None
    raise ValueError(kind)


def res_arg(r):
    r = unhex(r)
    return r


def make_dyn(case):
    proj = case["crs"]
    ctor = case.get("ctor", {})
    proj = dict(proj) if isinstance(proj, dict) else proj
    if case.get("first"):
        # two-step use: the next granule is fitted on the CRS a previous freeze handed out
        f = case["first"]
        first = DynamicAreaDefinition("c14a", "c14a", proj).freeze(
            (np.array([unhex(v) for v in f["lons"]]), np.array([unhex(v) for v in f["lats"]])),
            resolution=res_arg(f["resolution"]), antimeridian_mode=f.get("antimeridian_mode"))
        proj = first.crs if f.get("as") == "crs" else first.crs.to_proj4()
    if case.get("via") == "create_area_def":
        from pyresample import create_area_def
        kw = {}
        if ctor.get("resolution") is not None:
            kw["resolution"] = res_arg(ctor.get("resolution"))
        if ctor.get("width") is not None:
            kw["shape"] = (ctor["height"], ctor["width"])
        d = create_area_def("c14", proj, **kw)
        assert isinstance(d, DynamicAreaDefinition), type(d)
        return d
    return DynamicAreaDefinition("c14", "c14", proj, width=ctor.get("width"), height=ctor.get("height"),
                                 area_extent=unhex(ctor.get("area_extent")), resolution=res_arg(ctor.get("resolution")),
                                 optimize_projection=bool(case.get("optimize")))


def summary(area):
    return {"extent": [hx(v) for v in area.area_extent], "w": int(area.width), "h": int(area.height), "crs": area.crs.to_proj4()}


def do_freeze(d, case):
    fz = case.get("freeze", {})
    shape = fz.get("shape")
    return d.freeze(mk_input(case), resolution=res_arg(fz.get("resolution")), shape=tuple(shape) if shape is not None else None,
                    proj_info=dict(fz["proj_info"]) if fz.get("proj_info") else None, antimeridian_mode=fz.get("antimeridian_mode"))


def run_history(h):
    """several freezes on ONE object; each is also run on a fresh object built from the same constructor arguments"""
    out_calls = []
    try:
        d = make_dyn(h)
    except Exception as e:
        return {"error": type(e).__name__, "msg": str(e)[:200]}
    for call in h["calls"]:
        c = dict(h)
        c.update(call)
        o = {}
        for who, obj in (("same", d), ("fresh", None)):
            try:
                o[who] = summary(do_freeze(obj if obj is not None else make_dyn(h), c))
            except Exception as e:
                o[who] = {"error": type(e).__name__, "msg": str(e)[:200]}
        out_calls.append(o)
    return {"calls": out_calls}


def run_freeze(case):
    o = {}
    captured.clear()
    proj = case["crs"]
    ctor = case.get("ctor", {})
    fz = case.get("freeze", {})
    try:
        d = make_dyn(case)
        pd = d._get_proj_dict()
        if fz.get("proj_info"):
            pd = dict(pd)
            pd.update(fz["proj_info"])
        try:
            o["geo"] = bool(CRS(pd).is_geographic)
            o["pm_in"] = pm_degrees(CRS(pd))
        except Exception:
            o["geo"] = None
        lonslats = mk_input(case)
        shape = fz.get("shape")
        area = d.freeze(lonslats, resolution=res_arg(fz.get("resolution")), shape=tuple(shape) if shape is not None else None,
                        proj_info=fz.get("proj_info"), antimeridian_mode=fz.get("antimeridian_mode"))
    except Exception as e:
        o["error"] = type(e).__name__
        o["msg"] = str(e)[:200]
        area = None
    if "pts" in captured:
        o["pts"] = [[hx(a), hx(b)] for a, b in zip(*captured["pts"])]
    if "aou" in captured:
        o["aou"] = [hx(captured["aou"][0]), hx(captured["aou"][1])]
    if "opt_shape" in captured:
        o["opt_shape"] = captured["opt_shape"]
    if area is None:
        return o
    ext = [float(v) for v in area.area_extent]
    crs = area.crs
    o["result"] = {"extent": [hx(v) for v in ext], "w": int(area.width), "h": int(area.height),
                   "pm180": bool(pm_degrees(crs) == 180), "pm": pm_degrees(crs),
                   "geo": bool(crs.is_geographic), "crs": crs.to_proj4() if True else ""}
    # ---- raw material for the property oracle (evaluated in harness/c14.py)
    try:
        lons = np.array([unhex(v) for v in case["lons"]], dtype=np.float64).ravel()
        lats = np.array([unhex(v) for v in case["lats"]], dtype=np.float64).ravel()
        if case["kind"] != "none" and lons.size:
            t = Transformer.from_crs(CRS(4326), crs, always_xy=True)
            px, py = t.transform(lons, lats)
            px = np.asarray(px, dtype=np.float64)
            py = np.asarray(py, dtype=np.float64)
            o["proj"] = [[hx(a), hx(b)] for a, b in zip(px, py)]
            shifts = [0.0, 360.0, -360.0] if crs.is_geographic else [0.0]
            idx = []
            ok = np.isfinite(px) & np.isfinite(py)
            for s in shifts:
                # two trailing in-extent dummies keep the call on the array (masked) path for one-point inputs
                cols, rows = area.get_array_indices_from_projection_coordinates(
                    np.concatenate([np.where(ok, px + s, ext[0]), [ext[0], ext[0]]]),
                    np.concatenate([np.where(ok, py, ext[1]), [ext[1], ext[1]]]))
                cols, rows = cols[:-2], rows[:-2]
                cm = np.atleast_1d(np.ma.getmaskarray(cols))
                rm = np.atleast_1d(np.ma.getmaskarray(rows))
                idx.append([[int(c), int(r), bool(a), bool(b)] for c, r, a, b in
                            zip(np.atleast_1d(np.ma.getdata(cols)), np.atleast_1d(np.ma.getdata(rows)), cm, rm)])
            o["idx"] = idx
            o["shifts"] = shifts
        o["pixel_size"] = [hx(area.pixel_size_x), hx(area.pixel_size_y)]
        xs, ys = area.get_proj_vectors()
        o["centres"] = [hx(xs[0]), hx(xs[-1]), hx(ys[0]), hx(ys[-1])]
    except Exception as e:
        o["oracle_error"] = "%s: %s" % (type(e).__name__, str(e)[:200])
    return o


out["freeze"] = [run_freeze(c) for c in req.get("freeze", [])]
out["history"] = [run_history(h) for h in req.get("history", [])]

res = []
for c in req.get("compute_domain", []):
    captured.clear()
    o = {}
    try:
        d = DynamicAreaDefinition("c14", "c14", c.get("crs", {"proj": "longlat"}))
        corners = [unhex(v) for v in c["corners"]]
        shape = c.get("shape")
        r = d.compute_domain(corners, resolution=res_arg(c.get("resolution")), shape=tuple(shape) if shape is not None else None)
        ext, w, h = r
        o["result"] = {"extent": [hx(v) for v in ext], "w": int(w), "h": int(h)}
    except Exception as e:
        o["error"] = type(e).__name__
        o["msg"] = str(e)[:200]
    if "aou" in captured:
        o["aou"] = [hx(captured["aou"][0]), hx(captured["aou"][1])]
    res.append(o)
out["compute_domain"] = res

if "extract" in req:
    # _extract_lons_lats: which source is used (value 0 = the pair itself, 1 = the bounding_box attribute, 2 = get_lonlats())
    from pyresample.future.geometry import SwathDefinition as FutureSwath2
    res = []
    for kind, has_bbox in req["extract"]:
        two = np.full((2, 2), 2.0)
        if kind == 0:
            arg = (np.zeros(3), np.zeros(3))
        elif kind == 1:
            arg = FutureSwath2(two, two, attrs=dict(bounding_box=[[1.0, 1.0], [1.0, 1.0]]) if has_bbox else dict(other=1))
        else:
            arg = SwathDefinition(two, two)      # legacy class: no attrs at all
        try:
            lo, la = DynamicAreaDefinition._extract_lons_lats(arg)
            res.append(int(np.ravel(np.asarray(lo))[0]))
        except Exception as e:
            res.append({"error": type(e).__name__})
    out["extract"] = res

if "wrap" in req:
    v = np.array([unhex(x) for x in req["wrap"]], dtype=np.float64)
    out["wrap"] = [hx(x) for x in (v % 360)]

json.dump(out, sys.stdout)
