"""Driver: run the real partition helpers on the given cases (C19)."""
import json, sys
import numpy as np
from pyresample.geometry import _get_slice
from pyresample.slicer import _enumerate_chunk_slices, expand_slice
from pyresample.utils.row_appendable_array import RowAppendableArray
from pyresample.future.geometry._subset import _make_slice_divisible
from pyresample.spherical_utils import GetNonOverlapUnionsBaseClass

req = json.load(sys.stdin)
out = {}

def err(e):
    return {"error": type(e).__name__}

res = []
for seg, size, ndim in req.get("get_slice", []):
    try:
        shape = (size,) if ndim == 1 else (size, 3)
        sl = list(_get_slice(seg, shape))
        if ndim == 2:
            assert all(s[1] == slice(None) for s in sl)
            sl = [s[0] for s in sl]
        res.append([[int(s.start), int(s.stop)] for s in sl])
    except Exception as e:
        res.append(err(e))
out["get_slice"] = res

res = []
for chunks in req.get("chunks", []):
    try:
        r = []
        for pos, slices in _enumerate_chunk_slices(tuple(tuple(c) for c in chunks)):
            r.append([[int(p), int(s.start), int(s.stop)] for p, s in zip(pos, slices)])
        res.append(r)
    except Exception as e:
        res.append(err(e))
out["chunks"] = res

res = []
for cap, appends, width, reads, scr in req.get("raa", []):
    try:
        a = RowAppendableArray(cap)
        obs = []

        def read(k):
            r = a.to_array()
            if width:
                ok = bool(np.all(r == r[:, :1] + np.arange(width)[None, :] * 1000)) and r.shape[1] == width
                obs.append({"k": k, "rows": [int(x) for x in r[:, 0]], "cols_ok": ok})
            else:
                obs.append({"k": k, "rows": [int(x) for x in r], "cols_ok": True})
        for k, rows in enumerate(appends):
            arr = np.array(rows, dtype=np.int64)
            if width:
                arr = np.repeat(arr[:, None], width, axis=1) + np.arange(width)[None, :] * 1000
                arr = arr.reshape(len(rows), width)
            a.append_row(arr)
            if scr:
                arr[...] = -7      # the caller reuses its scratch array
            if (k + 1) in reads:
                read(k + 1)
        read(len(appends))
        res.append({"reads": obs})
    except Exception as e:
        res.append(err(e))
out["raa"] = res

res = []
for start, stop, mx, factor in req.get("divisible", []):
    try:
        r = _make_slice_divisible(slice(start, stop), mx, factor=factor)
        res.append([int(r.start), int(r.stop)])
    except Exception as e:
        res.append(err(e))
out["divisible"] = res

res = []
for sl in req.get("expand", []):
    r = expand_slice(slice(sl[0], sl[1]))
    res.append([int(r.start), int(r.stop)])
out["expand"] = res

res = []
for sets in req.get("unions", []):
    try:
        u = GetNonOverlapUnionsBaseClass([set(s) for s in sets])
        u.merge()
        ids = u.get_ids()
        polys = u.get_polygons()
        res.append([[list(i) if isinstance(i, tuple) else [i], sorted(p)] for i, p in zip(ids, polys)])
    except Exception as e:
        res.append(err(e))
out["unions"] = res
json.dump(out, sys.stdout)
