"""Driver (C05): run the REAL numpy / dask-xarray nearest-neighbour resamplers on the given cases.

JSON on stdin -> JSON on stdout.  No model logic: inputs are built, the real pyresample entry points are called
(kd_tree.resample_nearest / get_neighbour_info, kd_tree.XArrayResamplerNN, future KDTreeNearestXarrayResampler,
query_no_distance, pykdtree through the resampler's own kd-tree) and their observables are dumped.
PYTROLL_CHUNK_SIZE is taken from the environment (read by pyresample at import)."""
import json
import sys
import time
import warnings

import numpy as np

warnings.simplefilter("ignore")
import dask
import dask.array as da
import xarray as xr

dask.config.set(scheduler="synchronous")

import pyresample
from pyresample import geometry, kd_tree
from pyresample.future.resamplers._transform_utils import lonlat2xyz
from pyresample.future.resamplers.nearest import KDTreeNearestXarrayResampler, query_no_distance


def err(e):
    return {"error": type(e).__name__, "msg": str(e)[:200]}


def chunk_arg(ch, shape):
    if ch is None:
        return tuple(shape)
    return tuple(tuple(c) for c in ch)


def make_geom(spec, flavour):
    """flavour 'np': numpy-backed geometry for the numpy resampler; 'xr': dask/xarray-backed."""
    if spec["kind"] == "area":
        return geometry.AreaDefinition("a", "a", "a", spec["proj"], spec["w"], spec["h"], tuple(spec["extent"]))
    shape = tuple(spec["shape"])
    dt = np.dtype(spec.get("dtype", "float64"))
    lons = np.array(spec["lons"], dtype=np.float64).astype(dt).reshape(shape)
    lats = np.array(spec["lats"], dtype=np.float64).astype(dt).reshape(shape)
    if flavour == "np":
        return geometry.SwathDefinition(lons, lats)
    ch = chunk_arg(spec.get("chunks"), shape)
    dims = tuple(spec["dims"])
    return geometry.SwathDefinition(xr.DataArray(da.from_array(lons, chunks=ch), dims=dims),
                                    xr.DataArray(da.from_array(lats, chunks=ch), dims=dims))


def np_lonlats(g):
    lons, lats = g.get_lonlats()
    return np.asarray(lons), np.asarray(lats)


def flist(a):
    return [float(x) for x in np.asarray(a, dtype=np.float64).ravel()]


def vlist(a):
    a = np.asarray(a)
    if np.issubdtype(a.dtype, np.integer):
        return [int(x) for x in a.ravel()]
    if a.dtype == bool:
        return [int(x) for x in a.ravel()]
    return [float(x) for x in a.astype(np.float64).ravel()]


def make_data(case, src_shape):
    d = case["data"]
    dt = np.dtype(d["dtype"])
    shape = tuple(d["shape"])
    if np.issubdtype(dt, np.integer):
        arr = np.array(d["values"], dtype=np.int64).astype(dt).reshape(shape)
    else:
        arr = np.array(d["values"], dtype=np.float64).astype(dt).reshape(shape)
    return arr


def attrs_plain(attrs):
    out = {}
    for k, v in attrs.items():
        if k == "area":
            out[k] = "<area %s>" % (getattr(v, "shape", None),)
        elif isinstance(v, np.ndarray):
            out[k] = {"ndarray": v.tolist()}
        else:
            out[k] = v
    return out


def result_obs(res):
    out = res.compute()
    return {"dims": list(out.dims), "shape": [int(x) for x in out.shape], "dtype": str(out.dtype),
            "attrs": attrs_plain(out.attrs), "values": vlist(out.values),
            "chunks": [[int(c) for c in ax] for ax in res.data.chunks] if hasattr(res.data, "chunks") else None,
            "coords": sorted(str(c) for c in out.coords)}


def dim_variants(data, dims, geo_dims, chunks, attrs, kinds):
    """The SAME field offered with its geolocation dims in another order / under other names / not adjacent."""
    out = []
    gax = [dims.index(g) for g in geo_dims]
    for kind in kinds:
        arr, nd = None, None
        if kind == "swap" and len(gax) == 2:
            arr = np.ascontiguousarray(np.swapaxes(data, gax[0], gax[1]))
            nd = list(dims)
            nd[gax[0]], nd[gax[1]] = dims[gax[1]], dims[gax[0]]
        elif kind == "rename":
            arr = data
            nd = [("g%d_%s" % (geo_dims.index(d), d)) if d in geo_dims else d for d in dims]
        elif kind == "split" and len(gax) == 2 and data.ndim > 2:
            other = [i for i in range(data.ndim) if i not in gax][0]
            order = [i for i in range(data.ndim) if i != other]
            pos = order.index(gax[1])
            order.insert(pos, other)                      # ..., y, <other>, x, ...
            arr = np.ascontiguousarray(np.transpose(data, order))
            nd = [dims[i] for i in order]
        if arr is None:
            continue
        da_ = xr.DataArray(da.from_array(arr, chunks=tuple(min(c, 3) if c else c for c in arr.shape)), dims=tuple(nd), attrs=dict(attrs))
        out.append((kind, nd, da_))
    return out


def run_variant(fn):
    try:
        return result_obs(fn())
    except Exception as e:  # noqa
        return err(e)


def numpy_reference(src_n, tgt_n, data, geo_axes, radius, fill):
    """The numpy resampler on the same geometries; data moved to (source pixels, channels)."""
    nd = data.ndim
    ng = len(geo_axes)
    moved = np.moveaxis(data, geo_axes, list(range(ng)))
    S = int(np.prod(moved.shape[:ng]))
    chan_shape = moved.shape[ng:]
    flat = moved.reshape((S,) + ((int(np.prod(chan_shape)),) if chan_shape else ()))
    o = {}
    vii, voi, ia, dist = kd_tree.get_neighbour_info(src_n, tgt_n, radius, neighbours=1, epsilon=0, reduce_data=False)
    o["vii"] = vlist(vii)
    o["voi"] = vlist(voi)
    o["ia"] = [int(x) for x in ia]
    o["n"] = int(np.sum(vii))
    ref = kd_tree.resample_nearest(src_n, flat, tgt_n, radius, epsilon=0, fill_value=fill, reduce_data=False)
    o["shape"] = [int(x) for x in ref.shape]
    o["dtype"] = str(ref.dtype)
    o["values"] = vlist(ref)
    o["is_masked"] = bool(np.ma.isMaskedArray(ref))
    return o


def run_case(case):
    t0 = time.time()
    o = {"id": case["id"], "chunk_size": pyresample.CHUNK_SIZE}
    src_x = make_geom(case["src"], "xr")
    tgt_x = make_geom(case["tgt"], "xr")
    src_n = make_geom(case["src"], "np")
    tgt_n = make_geom(case["tgt"], "np")
    radius = case["radius"]
    slon, slat = np_lonlats(src_n)
    tlon, tlat = np_lonlats(tgt_n)
    o["slon"], o["slat"], o["tlon"], o["tlat"] = flist(slon), flist(slat), flist(tlon), flist(tlat)
    o["src_shape"] = [int(x) for x in src_n.shape]
    o["tgt_shape"] = [int(x) for x in tgt_n.shape]

    data = make_data(case, src_n.shape)
    d = case["data"]
    dims = tuple(d["dims"])
    geo_dims = tuple(case["src"]["dims"]) if case["src"]["kind"] == "swath" else ("y", "x")
    geo_axes = [dims.index(g) for g in geo_dims]
    fill = case["fill"]
    fill_x = float("nan") if fill == "nan" else fill
    if fill == "nan" and np.issubdtype(data.dtype, np.integer):
        fill_n = int(np.iinfo(data.dtype).max)  # documented replacement of NaN for integer data
    else:
        fill_n = fill_x
    attrs = dict(case.get("attrs") or {})
    data_da = xr.DataArray(da.from_array(data, chunks=chunk_arg(d.get("chunks"), data.shape)), dims=dims, attrs=dict(attrs))
    for cname, cdim in (d.get("coords") or {}).items():
        data_da = data_da.assign_coords({cname: (cdim, np.arange(data_da.sizes[cdim]))})

    mask_np = None
    mask_da = None
    if case.get("mask") is not None:
        mask_np = np.array(case["mask"], dtype=bool).reshape(src_n.shape)
        mask_da = xr.DataArray(da.from_array(mask_np, chunks=chunk_arg(case.get("mask_chunks"), mask_np.shape)), dims=geo_dims)

    # ---------------- numpy reference (no mask notion: plain; and with the masked pixels removed from the source)
    try:
        o["ref"] = numpy_reference(src_n, tgt_n, data, geo_axes, radius, fill_n)
    except Exception as e:  # noqa
        o["ref"] = err(e)
    eff_masks = {}
    if mask_np is not None:
        eff_masks["explicit"] = mask_np

    # ---------------- legacy XArrayResamplerNN
    leg = {}
    try:
        r = kd_tree.XArrayResamplerNN(src_x, tgt_x, radius_of_influence=radius, neighbours=1, epsilon=0)
        vii, voi, ia, _ = r.get_neighbour_info(mask=mask_da)
        leg["ia_chunks"] = [[int(c) for c in ax] for ax in ia.chunks]
        leg["vii_chunks"] = [[int(c) for c in ax] for ax in vii.chunks]
        vii_c, voi_c, ia_c = dask.compute(vii, voi, ia)
        leg["vii"], leg["voi"] = vlist(vii_c), vlist(voi_c)
        leg["ia"] = [int(x) for x in ia_c[:, :, 0].ravel()]
        leg["ia_shape"] = [int(x) for x in ia_c.shape]
        res = r.get_sample_from_neighbour_info(data_da, fill_value=fill_x)
        leg["result"] = result_obs(res)
        # the oracle: the resampler's own kd-tree queried once with all valid target pixels (one batch, no chunking)
        kdt = r.delayed_kdtree.compute()
        tl, tt = tgt_x.get_lonlats(chunks=pyresample.CHUNK_SIZE)
        tl_c, tt_c = dask.compute(tl, tt)
        n, leg["oracle_q"] = oracle_answers(kdt, tgt_x, voi_c, vii_c, mask_np, radius)
        leg["n"] = n
        single = query_no_distance(tl_c, tt_c, voi_c, mask=mask_np, valid_input_index=vii_c,
                                   neighbours=1, epsilon=0, radius=radius, kdtree=kdt)
        leg["qnd_single"] = [int(x) for x in single[:, :, 0].ravel()]
        # arbitrary (ragged) target chunkings through the public blockwise query + gather
        rag = []
        for ch in case.get("tgt_chunks") or []:
            cht = chunk_arg(ch, tgt_n.shape)
            try:
                ia_r, _ = r.query_resample_kdtree(r.delayed_kdtree, tl.rechunk(cht), tt.rechunk(cht), voi.rechunk(cht),
                                                  None if mask_da is None else mask_da.data)
                e = {"chunks": [[int(c) for c in ax] for ax in ia_r.chunks], "ia": [int(x) for x in ia_r.compute()[:, :, 0].ravel()]}
                r.index_array = ia_r
                e["result"] = result_obs(r.get_sample_from_neighbour_info(data_da, fill_value=fill_x))
            except Exception as ex:  # noqa
                e = err(ex)
            rag.append(e)
        leg["ragged"] = rag
        r.index_array = ia
        leg["dim_variants"] = [{"kind": k, "dims": nd, "shape": [int(x) for x in v.shape], "res": run_variant(lambda: r.get_sample_from_neighbour_info(v, fill_value=fill_x))}
                               for k, nd, v in dim_variants(data, list(dims), list(geo_dims), None, attrs, case.get("dim_variants") or [])]
    except Exception as e:  # noqa
        leg.update(err(e))
    o["legacy"] = leg

    # ---------------- future KDTreeNearestXarrayResampler
    fut = {}
    try:
        fr = KDTreeNearestXarrayResampler(src_x, tgt_x)
        mode = case.get("future_mask", "off")
        if mask_da is not None:
            mask_area = mask_da
        elif mode == "default":
            mask_area = None
        elif mode == "on":
            mask_area = True
        else:
            mask_area = False
        fut["mask_mode"] = "explicit" if mask_da is not None else mode
        eff = fr._get_area_mask(mask_area, data_da)
        if eff is not None and mask_da is None:
            eff_c = np.asarray(eff.compute() if hasattr(eff, "compute") else eff)
            fut["implied_mask"] = vlist(eff_c.astype(bool))
            eff_masks["implied"] = eff_c.astype(bool)
        res = fr.resample(data_da, mask_area=mask_area, fill_value=fill_x, radius_of_influence=radius)
        fut["result"] = result_obs(res)
        (key, ent), = fr._internal_cache.items()
        vii, ia = ent["valid_input_index"], ent["index_array"]
        fut["ia_chunks"] = [[int(c) for c in ax] for ax in ia.chunks]
        fut["vii_chunks"] = [[int(c) for c in ax] for ax in vii.chunks]
        vii_c, ia_c = dask.compute(vii, ia)
        fut["vii"] = vlist(vii_c)
        fut["ia"] = [int(x) for x in ia_c[:, :, 0].ravel()]
        rag = []
        tl, tt = tgt_x.get_lonlats(chunks=pyresample.CHUNK_SIZE)
        voi = ((tl >= -180) & (tl <= 180) & (tt <= 90) & (tt >= -90))
        for ch in case.get("tgt_chunks") or []:
            cht = chunk_arg(ch, tgt_n.shape)
            try:
                kd = fr._create_resample_kdtree(chunks=vii.chunks)[1]
                m = None
                if mask_da is not None:
                    m = mask_da.data
                elif eff is not None:
                    m = eff.data
                ia_r = fr._query_resample_kdtree(kd, tl.rechunk(cht), tt.rechunk(cht), vii, voi.rechunk(cht), m, 1, radius, 0)
                e = {"chunks": [[int(c) for c in ax] for ax in ia_r.chunks], "ia": [int(x) for x in ia_r.compute()[:, :, 0].ravel()]}
                e["result"] = result_obs(fr.get_sample_from_neighbor_info(data_da, vii, ia_r, fill_value=fill_x))
            except Exception as ex:  # noqa
                e = err(ex)
            rag.append(e)
        fut["ragged"] = rag
        fut["dim_variants"] = [{"kind": k, "dims": nd, "shape": [int(x) for x in v.shape], "res": run_variant(
            lambda: KDTreeNearestXarrayResampler(src_x, tgt_x).resample(v, mask_area=mask_area, fill_value=fill_x, radius_of_influence=radius))}
            for k, nd, v in dim_variants(data, list(dims), list(geo_dims), None, attrs, case.get("dim_variants") or [])]
    except Exception as e:  # noqa
        fut.update(err(e))
    o["future"] = fut

    # numpy reference with the masked source pixels removed from the candidate set (their lon made invalid)
    for name, m in eff_masks.items():
        try:
            lons_m = np.where(m.reshape(slon.shape), 1e30, slon.astype(np.float64)).astype(slon.dtype)
            src_m = geometry.SwathDefinition(lons_m, slat)
            o["ref_" + name] = numpy_reference(src_m, tgt_n, data, geo_axes, radius, fill_n)
        except Exception as e:  # noqa
            o["ref_" + name] = err(e)
    o["wall"] = round(time.time() - t0, 3)
    return o


def oracle_answers(kdt, tgt_x, voi_c, vii_c, mask_np, radius):
    """The resampler's own kd-tree queried once with all valid target pixels (one batch, no chunking)."""
    n = int(kdt.n) if kdt is not None else 0
    tl, tt = tgt_x.get_lonlats(chunks=pyresample.CHUNK_SIZE)
    tl_c, tt_c = dask.compute(tl, tt)
    voi_flat = voi_c.ravel()
    mask_c = None if mask_np is None else mask_np.ravel()[vii_c.ravel()]
    raw = np.full(voi_flat.shape, n, dtype=np.int64)
    if voi_flat.any() and kdt is not None:
        coords = lonlat2xyz(tl_c.ravel()[voi_flat], tt_c.ravel()[voi_flat])
        dist, idx = kdt.query(coords, k=1, eps=0, distance_upper_bound=radius, mask=mask_c)
        raw[voi_flat] = idx
    return n, [int(x) for x in raw]


def run_history(h):
    """One resampler instance per source, several successive calls with different masks / data (same explicit
    DataArray name); every lazy result is computed alone right after its call and all of them once more together."""
    o = {"id": h["id"], "chunk_size": pyresample.CHUNK_SIZE}
    tgt_x = make_geom(h["tgt"], "xr")
    tgt_n = make_geom(h["tgt"], "np")
    tlon, tlat = np_lonlats(tgt_n)
    o["tlon"], o["tlat"] = flist(tlon), flist(tlat)
    radius = h["radius"]
    fill_x = float("nan") if h["fill"] == "nan" else h["fill"]
    dims = tuple(h["dims"])
    steps_out = []
    prepared = []
    for st in h["steps"]:
        spec = h["sources"][st["src"]]
        src_n = make_geom(spec, "np")
        slon, slat = np_lonlats(src_n)
        data = np.array(st["values"], dtype=np.float64).reshape(src_n.shape)
        mask_np = None if st.get("mask") is None else np.array(st["mask"], dtype=bool).reshape(src_n.shape)
        so = {"slon": flist(slon), "slat": flist(slat), "src_shape": [int(x) for x in src_n.shape], "tgt_shape": [int(x) for x in tgt_n.shape]}
        try:
            if mask_np is None:
                so["ref"] = numpy_reference(src_n, tgt_n, data, [0, 1], radius, fill_x)
            else:
                lons_m = np.where(mask_np, 1e30, slon.astype(np.float64))
                so["ref"] = numpy_reference(geometry.SwathDefinition(lons_m, slat), tgt_n, data, [0, 1], radius, fill_x)
        except Exception as e:  # noqa
            so["ref"] = err(e)
        steps_out.append(so)
        prepared.append((st, data, mask_np))
    for which in ("legacy", "future"):
        inst = {}
        lazies, slots = [], []
        for k, (st, data, mask_np) in enumerate(prepared):
            so = steps_out[k]
            w = {}
            try:
                if st["src"] not in inst:
                    src_x = make_geom(h["sources"][st["src"]], "xr")
                    inst[st["src"]] = (kd_tree.XArrayResamplerNN(src_x, tgt_x, radius_of_influence=radius, neighbours=1, epsilon=0)
                                       if which == "legacy" else KDTreeNearestXarrayResampler(src_x, tgt_x))
                r = inst[st["src"]]
                ch = chunk_arg(st.get("chunks"), data.shape)
                data_da = xr.DataArray(da.from_array(data, chunks=ch), dims=dims, name=st.get("name"), attrs={"step": k})
                mask_da = None
                if mask_np is not None:
                    mask_da = xr.DataArray(da.from_array(mask_np, chunks=ch), dims=dims, name=st.get("name"))
                if which == "legacy":
                    vii, voi, ia, _ = r.get_neighbour_info(mask=mask_da)
                    res = r.get_sample_from_neighbour_info(data_da, fill_value=fill_x)
                    vii_c, voi_c, ia_c = dask.compute(vii, voi, ia)
                    w["vii"], w["voi"] = vlist(vii_c), vlist(voi_c)
                    w["ia_alone"] = [int(x) for x in ia_c[:, :, 0].ravel()]
                    w["ia_chunks"] = [[int(c) for c in ax] for ax in ia.chunks]
                    w["n"], w["oracle_q"] = oracle_answers(r.delayed_kdtree.compute(), tgt_x, voi_c, vii_c, mask_np, radius)
                    lazies.append(ia)
                    slots.append((k, "ia_joint"))
                else:
                    mode = st.get("mode", "explicit")
                    mask_area = mask_da if (mode == "explicit" and mask_da is not None) else (True if mode == "on" else False)
                    res = r.resample(data_da, mask_area=mask_area, fill_value=fill_x, radius_of_influence=radius)
                    w["cache_size"] = len(r._internal_cache)
                w["alone"] = result_obs(res)
                lazies.append(res.data)
                slots.append((k, "joint"))
            except Exception as e:  # noqa
                w.update(err(e))
            so[which] = w
        try:
            joint = dask.compute(*lazies)
            for (k, name), val in zip(slots, joint):
                if name == "ia_joint":
                    steps_out[k][which][name] = [int(x) for x in val[:, :, 0].ravel()]
                else:
                    steps_out[k][which][name] = vlist(val)
        except Exception as e:  # noqa
            for (k, name) in slots:
                steps_out[k][which]["joint_error"] = err(e)
    o["steps"] = steps_out
    return o


def main():
    req = json.load(sys.stdin)
    out = []
    for case in req.get("cases", []):
        try:
            out.append(run_case(case))
        except Exception as e:  # noqa
            out.append({"id": case["id"], "fatal": err(e)})
    hist = []
    for h in req.get("histories", []):
        try:
            hist.append(run_history(h))
        except Exception as e:  # noqa
            hist.append({"id": h["id"], "fatal": err(e)})
    json.dump({"chunk_size": pyresample.CHUNK_SIZE, "cases": out, "histories": hist}, sys.stdout)


main()
