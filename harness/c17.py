"""C17 - spherical polygon area and set operations obey the laws of area."""
import math

from . import c17_gen as G
from .common import fhex as _fhex, ints

PROP_FILE = "Properties/C17.v"
GEN = ["GenC17", "GenC17imp"]
RUN_FILES = ["Model/C17_run.v", "Model/C17_imp_run.v"]

FOUR_PI = 4 * math.pi
REL_TOL = 1e-9                 # every area law is checked to REL_TOL * 4 pi r^2 (absolute)
ANGLE_TOL = 1e-9               # a vertex angle of the azimuth oracle vs the independent tangent-vector angle (radians)
MARGIN = 1.5e-6                # general position: every vertex >= MARGIN rad from the other polygon's edges (property: 1e-6)
SEP_CLOSE = 6e-5               # two distinct nodes (vertices / crossings) closer than this can be `==` for SCoordinate (np.allclose)
PAR_ANGLE = 4.6e-4             # crossing angles below this made Arc.angle return 0 (|cos - 1| < 1e-7)
RADII = (1.0, 6371.0, 2.5, 0.001, 6378137.0)

IHDR = ("From Coq Require Import ZArith List Bool PrimFloat.\nFrom PR Require Import Base.ListX Base.F64 Model.SphPoly Model.C17_run Model.C17_imp_run.\n"
        "Import ListNotations.\nOpen Scope Z_scope.\n")
HDR = ("From Coq Require Import ZArith List Bool PrimFloat.\nFrom PR Require Import Base.ListX Base.F64 Model.SphPoly Model.C17_run.\n"
       "Import ListNotations.\nOpen Scope Z_scope.\n")


def fhex(v):
    t = _fhex(v)
    return "PrimFloat.nan" if t == "nan" else t


def flist(l):
    return "[" + "; ".join(fhex(x) for x in l) + "]"


def zl(n):
    return "(%d)" % n


def tol(r):
    return REL_TOL * FOUR_PI * r * r


EPS64 = 2.0 ** -52
TINY_K = 16.0


def case_tol(case, r):
    """Tolerance of the area laws for one polygon.  Ordinary polygons: 1e-9 * 4 pi r^2.  Tiny polygons (1e-5..1e-3 rad across) are
    checked much more tightly, against the rounding error the angle sum itself can have: each of the 2n azimuths is
    arctan2(y, x) with |(y, x)| ~ d (distance pivot-neighbour) where x is a difference of O(1) terms, i.e. carries an absolute
    error of a few ulp(1); the azimuth error is therefore <= c * eps / d and the angle sum is off by at most 2 n c eps / d_min.
    per azimuth the error of x is <= 4 eps (three rounded products and a subtraction), so 2 n c = 8 n; TINY_K = 16 doubles that (measured worst case on /repo over 400 tiny polygons: 0.15)."""
    if case.get("tiny"):
        return (TINY_K * case["n"] * EPS64 / case["dmin"] + 1e-13) * r * r
    return tol(r)


# ------------------------------------------------------------------------------------------------ area cases
def vertex_angle(a, p, b):
    """clockwise (seen from outside) angle at p from the direction of b to the direction of a, in [0, 2 pi):
    the interior angle of a clockwise polygon at p with previous vertex a and next vertex b; tangent vectors only"""
    ta = tuple(a[i] - G.dot(a, p) * p[i] for i in range(3))
    tb = tuple(b[i] - G.dot(b, p) * p[i] for i in range(3))
    ang = -math.atan2(G.dot(p, G.cross(tb, ta)), G.dot(tb, ta))
    return ang % G.TWO_PI


def make_area_case(rng, kind, n, placement, radius, ang_radius=None):
    P = G.gen_polygon(rng, kind, n, placement, ang_radius)
    case = {"type": "area", "kind": P["kind"], "n": n, "placement": placement, "v": P["v"], "r": radius,
            "kernel": list(P["kernel"])}
    if ang_radius is not None and ang_radius < 1e-3:
        pts = G.pts_of(P["v"])
        case["tiny"] = True
        case["dmin"] = G.min_separation(pts)
        case["across"] = 2 * ang_radius
    case["shifts"] = sorted(set(rng.randrange(1, n) for _ in range(2)))
    case["rots"] = [[list(row) for row in G.random_rotation(rng)] for _ in range(2)]
    diags = G.interior_diagonals(P["planar"])
    case["diag"] = list(rng.choice(diags)) if diags else None
    return case


def area_entries(case):
    """the polygons sent to the implementation for one area case, in a fixed order"""
    v, r = case["v"], case["r"]
    ent = [{"v": v, "r": 1.0, "inv": True, "tag": "base"}]
    if r != 1.0:
        ent.append({"v": v, "r": r, "inv": True, "tag": "radius"})
    for k in case["shifts"]:
        ent.append({"v": v[k:] + v[:k], "r": r, "tag": "shift%d" % k})
    for R in case["rots"]:
        ent.append({"v": G.rotate_lonlat(v, R), "r": r, "tag": "rot"})
    if case["diag"]:
        i, k = case["diag"]
        ent.append({"v": v[i:k + 1], "r": r, "tag": "part1"})
        ent.append({"v": v[k:] + v[:i + 1], "r": r, "tag": "part2"})
    return ent


def area_laws(case, outs):
    """[(key, what)] - the property text evaluated on the implementation's answers for one case"""
    ent = area_entries(case)
    by = {}
    for e, o in zip(ent, outs):
        by.setdefault(e["tag"], []).append(o)
    fails = []
    r = case["r"]
    cls = "%s%s.%s" % ("tiny_" if case.get("tiny") else "", case["kind"], case["placement"])
    ang_tol = ANGLE_TOL + (64 * EPS64 / case["dmin"] if case.get("tiny") else 0.0)
    for e, o in zip(ent, outs):
        if "error" in o or not math.isfinite(o.get("area", math.nan)):
            fails.append(("C17.area.crash." + cls, "SphPolygon(%d vertices, %s).area() on %s gives %s" % (
                len(e["v"]), e["tag"], e["v"], o.get("error", o.get("area")))))
    if fails:
        return fails
    base = by["base"][0]
    a1 = base["area"]
    pts = G.pts_of(case["v"])
    ref = G.fan_area(tuple(case["kernel"]), pts)
    if abs(a1 - ref) > case_tol(case, 1.0):
        fails.append(("C17.area.value." + cls, "area %.15g but the enclosed area (fan of triangles around an interior point) is %.15g "
                      "for the clockwise %s polygon %s" % (a1, ref, case["kind"], case["v"])))
    # the azimuth oracle: each difference new_lons_a - new_lons_b, normalised, is the interior angle
    az = base.get("az", [])
    n = len(pts)
    if len(az) == 2 and all(len(t) == n for t in az):
        want = [vertex_angle(pts[i], pts[(i + 1) % n], pts[(i + 2) % n]) for i in range(n)]
        worst = []
        for ta, tb in ((az[0], az[1]), (az[1], az[0])):       # the order in which the code evaluates the two tables is not fixed
            w = (0.0, 0, 0.0)
            for i in range(n):
                got = (ta[i] - tb[i]) % G.TWO_PI
                d = abs(got - want[i])
                d = min(d, G.TWO_PI - d)
                if not d <= w[0]:
                    w = (d, i, got)
            worst.append(w)
        d, i, got = min(worst)
        if not d <= ang_tol:
            fails.append(("C17.area.vertex_angle." + cls, "arctan2 difference at vertex %d is %.12g, the interior angle is %.12g (%s)"
                          % ((i + 1) % n, got, want[i], case["v"])))
    ar = by["radius"][0]["area"] if r != 1.0 else a1
    if abs(ar - a1 * r * r) > case_tol(case, r):
        fails.append(("C17.area.radius", "area with radius %r is %.15g, with radius 1 it is %.15g (x r^2 = %.15g)" % (r, ar, a1, a1 * r * r)))
    for tag, os_ in by.items():
        if tag.startswith("shift"):
            if abs(os_[0]["area"] - ar) > case_tol(case, r):
                fails.append(("C17.area.cyclic", "relabelling the vertices cyclically by %s changes the area from %.15g to %.15g (%s)"
                              % (tag[5:], ar, os_[0]["area"], case["v"])))
    for o in by.get("rot", []):
        if abs(o["area"] - ar) > case_tol(case, r):
            fails.append(("C17.area.rotation." + cls, "rotating the sphere changes the area from %.15g to %.15g (%s)" % (ar, o["area"], case["v"])))
    if case["diag"]:
        p1, p2 = by["part1"][0]["area"], by["part2"][0]["area"]
        if abs(p1 + p2 - ar) > case_tol(case, r):
            fails.append(("C17.area.additive." + case["kind"], "split along the interior diagonal %s: %.15g + %.15g != %.15g (%s)"
                          % (case["diag"], p1, p2, ar, case["v"])))
    for o in ([base] + (by["radius"] if r != 1.0 else [])):
        rr = 1.0 if o is base else r
        for nm in ("inv_area", "invert_area"):
            if abs(o["area"] + o[nm] - FOUR_PI * rr * rr) > case_tol(case, rr):
                fails.append(("C17.area.inverse." + cls, "area %.15g + area of %s %.15g != 4 pi r^2 = %.15g (%s)"
                              % (o["area"], "inverse()" if nm == "inv_area" else "invert()", o[nm], FOUR_PI * rr * rr, case["v"])))
    if "invert2_area" in base and (abs(base["invert2_area"] - a1) > case_tol(case, 1.0) or base.get("invert2_v") != [list(map(float, x)) for x in case["v"]]):
        fails.append(("C17.area.invert_twice", "invert(); invert() on one object gives area %.15g / vertices %s, originally %.15g (%s)"
                      % (base["invert2_area"], base.get("invert2_v"), a1, case["v"])))
    return fails


OPNAME = {0: "area()", 1: "inverse()", 2: "invert()"}


def make_history(rng):
    """a call history on one object; most start with inverse() or contain a re-use right after it"""
    n = rng.randint(2, 7)
    ops = [rng.choice([0, 1, 1, 2]) for _ in range(n)]
    if rng.random() < 0.5:
        ops = [1, 0] + ops
    return ops


def history_laws(case, ops, o):
    """one object driven through `ops`, compared with FRESH objects after every call"""
    if "error" in o:
        return [("C17.history.crash", "history %s on %s: %s" % ([OPNAME[x] for x in ops], case["v"], o["error"]))]
    fails = []
    fresh = o["fresh"]
    t = case_tol(case, case["r"])
    k = 0                                   # parity of invert() calls: the model's state
    done = []
    for op, st in zip(ops, o["steps"]):
        done.append(OPNAME[op])
        if op == 2:
            k = 1 - k
        key = "C17.history." + ("inverse" if op == 1 else "invert" if op == 2 else "area")
        what = None
        if st["state"] != k:
            what = "the object's vertices are %s" % {0: "as given", 1: "reversed", 2: "neither the given nor the reversed list"}[st["state"]]
        elif not st["attrs_ok"]:
            what = "the object's lon/lat/cvertices no longer describe its vertices"
        elif not abs(st["area"] - fresh[k]) <= t:
            what = "the object's area is %.15g, a fresh polygon with these vertices has %.15g" % (st["area"], fresh[k])
        elif op == 0 and not abs(st["ret_area"] - fresh[k]) <= t:
            what = "area() returned %.15g, a fresh polygon has %.15g" % (st["ret_area"], fresh[k])
        elif op == 1 and (st["ret_state"] != 1 - k or not st["ret_attrs_ok"] or not abs(st["ret_area"] - fresh[1 - k]) <= t):
            what = "inverse() returned a polygon with vertices state %s and area %.15g, expected the reversed list and %.15g" % (
                st["ret_state"], st["ret_area"], fresh[1 - k])
        elif op == 1 and not abs(st["area"] + st["ret_area"] - FOUR_PI * case["r"] ** 2) <= t:
            what = "area(P) %.15g + area(P.inverse()) %.15g != 4 pi r^2 with P re-used after inverse()" % (st["area"], st["ret_area"])
        elif op != 2 and st["input_state"] != 0 and not any(x == "invert()" for x in done):
            what = "the caller's vertex array was changed"
        if what:
            fails.append((key, "after %s on one SphPolygon(%s, radius=%r): %s" % (" ; ".join(done), case["v"], case["r"], what)))
            break
    return fails


def bearing(lon_x, lat_x, lon_p, lat_p):
    d = lon_x - lon_p
    return math.atan2(math.sin(d) * math.cos(lat_x), math.sin(lat_x) * math.cos(lat_p) - math.cos(lat_x) * math.sin(lat_p) * math.cos(d))


def area_coq_case(o):
    """Coq case text for one driver answer, or None when the azimuth tables cannot be extracted"""
    if "error" in o or "az" not in o:
        return None
    n = len(o["lon"])
    az = [t for t in o["az"] if len(t) == n]
    if len(az) != 2:
        return None
    ta, tb = az
    # which recorded array is new_lons_a (previous vertex seen from the pivot)? decided against the plain bearing
    # formula; when neither fits (the expression was changed) keep the order of evaluation
    lon, lat = o["lon"], o["lat"]

    def err(t, off):
        e = 0.0
        for i in range(n):
            p = (i + 1) % n
            x = (i + off) % n
            b = bearing(lon[x], lat[x], lon[p], lat[p])
            if math.isfinite(b) and math.isfinite(t[i]):
                d = abs(b - t[i]) % G.TWO_PI
                e = max(e, min(d, G.TWO_PI - d))
        return e
    if n >= 3 and err(ta, 0) > 1e-6 and err(tb, 0) < 1e-6 and err(ta, 2) < 1e-6:
        ta, tb = tb, ta
    return "(%d, %s, %s, %s, %s)" % (n, flist(ta), flist(tb), fhex(o["r2"]), fhex(o["area"]))


def malformed_polys(rng, count):
    out = []
    for _ in range(count):
        c = rng.randrange(6)
        n = rng.randint(3, 7)
        v = [[rng.uniform(-math.pi, math.pi), rng.uniform(-1.5, 1.5)] for _ in range(n)]      # not simple in general
        if c == 0:
            v = v[:rng.choice([1, 2])]
        elif c == 1:
            v[1] = list(v[0])                                                                   # repeated vertex
        elif c == 2:
            v[rng.randrange(n)][rng.randrange(2)] = math.nan
        elif c == 3:
            v = [[7.0 + x, y] for x, y in v]                                                    # longitudes outside [-pi, pi)
        elif c == 4:
            v = v[::-1]
        out.append({"v": v, "r": rng.choice(RADII), "tag": "malformed"})
    return out


# ------------------------------------------------------------------------------------------------ pair cases
def pair_class(p):
    if p["node_sep"] < SEP_CLOSE:
        return "close_nodes"
    if p["cross_angle"] < PAR_ANGLE:
        return "near_parallel_crossing"
    if p.get("max_edge", 0.0) > math.pi / 2:
        return "large_edges." + p["relation"]
    return p["relation"]


def make_pair_cases(ctx):
    rng = ctx.rng
    cases = []
    placements = [p for p in G.PLACEMENTS if p != "pole_vertex"]

    def add(gen, count, table, accept=lambda p: True):
        got = tries = 0
        while got < count and tries < 50 * count + 100:
            tries += 1
            p = gen()
            if p is None or not accept(p):
                continue
            p["type"] = "pair"
            p["r"] = rng.choice([1.0, 1.0, 6371.0])
            p["table"] = table
            cases.append(p)
            got += 1
    nr = ctx.n(110, 1500)
    add(lambda: G.gen_pair(rng, rng.choice(["overlap"] * 5 + ["disjoint", "a_in_b", "b_in_a"]), rng.randint(3, 8), rng.randint(3, 8),
                           rng.choice(placements), 1e-3), nr, True, lambda p: p["node_sep"] >= 1e-3 and p["cross_angle"] >= 1e-2)
    # general position down to the property's bound, nodes still well separated
    add(lambda: G.gen_pair(rng, "overlap", rng.randint(3, 7), rng.randint(3, 7), rng.choice(placements), MARGIN), ctx.n(30, 400), False,
        lambda p: p["node_sep"] >= 2 * SEP_CLOSE and p["cross_angle"] >= 2 * PAR_ANGLE)
    add(lambda: G.gen_pair_near_vertex(rng, rng.randint(3, 6), rng.choice(placements), MARGIN), ctx.n(25, 300), False,
        lambda p: p["node_sep"] >= 2 * SEP_CLOSE and p["cross_angle"] >= 2 * PAR_ANGLE)
    # edges crossing at less than 4.6e-4 rad, all nodes well separated (long edges)
    add(lambda: G.gen_pair_near_parallel(rng, rng.randint(3, 4), rng.choice(placements), MARGIN, long_edges=True), ctx.n(30, 300), True,
        lambda p: p["node_sep"] >= 7e-5 and p["relation"] == "overlap")
    # convex polygons with edges longer than 90 degrees (large triangles / quadrilaterals inside one hemisphere), crossed anywhere
    # along those edges: both antipodal meeting points of two great circles matter
    add(lambda: G.gen_pair_large(rng, rng.choice(placements), 1e-3), ctx.n(24, 300), True,
        lambda p: p["node_sep"] >= 1e-3 and p["cross_angle"] >= 1e-2 and p["max_edge"] > math.pi / 2)
    # two distinct nodes within the tolerance of SCoordinate.__eq__ (vertex next to a crossing, slivers)
    add(lambda: G.gen_pair_near_vertex(rng, rng.randint(3, 6), rng.choice(placements), MARGIN), ctx.n(12, 150), False,
        lambda p: p["node_sep"] < SEP_CLOSE)
    add(lambda: G.gen_pair_near_parallel(rng, rng.randint(3, 6), rng.choice(placements), MARGIN), ctx.n(12, 150), False,
        lambda p: p["node_sep"] < SEP_CLOSE)
    return cases


def pair_request(case):
    return {"a": case["a"], "b": case["b"], "r": case["r"], "table": bool(case.get("table"))}


def pair_laws(case, o):
    fails = []
    cls = pair_class(case)
    r = case["r"]
    t = tol(r)
    r2 = r * r
    desc = "A=%s B=%s r=%r (%s, %d crossings, margin %.2e rad, smallest crossing angle %.2e rad, closest nodes %.2e rad)" % (
        case["a"], case["b"], r, case["relation"], case["crossings"], case["margin"], case["cross_angle"], case["node_sep"])
    if "error" in o:
        return [("C17.setops.crash." + cls, "%s: %s" % (o["error"], desc))]
    A, B = o["area_a"], o["area_b"]
    if abs(A - case["area_a_ref"] * r2) > t or abs(B - case["area_b_ref"] * r2) > t:
        fails.append(("C17.area.value.convex." + case["placement"], "areas %.15g, %.15g but enclosed %.15g, %.15g: %s"
                      % (A, B, case["area_a_ref"] * r2, case["area_b_ref"] * r2, desc)))
    iab, iba, uab, uba = o["inter_ab"], o["inter_ba"], o["union_ab"], o["union_ba"]
    rel = case["relation"]
    if not o.get("operands_unchanged", True) or abs(o.get("area_a_after", A) - A) > t or abs(o.get("area_b_after", B) - B) > t:
        fails.append(("C17.setops.purity", "after intersection/union the operands changed: areas %.15g, %.15g -> %.15g, %.15g, vertices unchanged: %s: %s"
                      % (A, B, o.get("area_a_after"), o.get("area_b_after"), o.get("operands_unchanged"), desc)))

    def bad(op, msg):
        # the two tolerance-related input classes fail in union and intersection alike: one key per class
        comp = "setops" if cls in ("close_nodes", "near_parallel_crossing") else op
        fails.append(("C17.%s.%s" % (comp, cls), "%s: %s" % (msg, desc)))

    def poly_area(x):
        return x.get("area") if x["kind"] in (1, 2, 3) else None
    if rel == "overlap":
        ia, ib = poly_area(iab), poly_area(iba)
        ua, ub = poly_area(uab), poly_area(uba)
        for nm, x, a in (("A.intersection(B)", iab, ia), ("B.intersection(A)", iba, ib)):
            if a is None:
                bad("intersection", "%s of overlapping polygons gives %s" % (nm, kind_name(x)))
        for nm, x, a in (("A.union(B)", uab, ua), ("B.union(A)", uba, ub)):
            if a is None:
                bad("union", "%s of overlapping polygons gives %s" % (nm, kind_name(x)))
        if ia is not None and ib is not None and abs(ia - ib) > t:
            bad("intersection", "not commutative in area: %.15g vs %.15g" % (ia, ib))
        if ua is not None and ub is not None and abs(ua - ub) > t:
            bad("union", "not commutative in area: %.15g vs %.15g" % (ua, ub))
        for nm, a in (("A.intersection(B)", ia), ("B.intersection(A)", ib)):
            if a is None:
                continue
            if a > min(A, B) + t:
                bad("intersection", "area(%s) = %.15g > min(area A, area B) = %.15g" % (nm, a, min(A, B)))
            elif abs(a - case["inter_ref"] * r2) > t:
                bad("intersection", "area(%s) = %.15g but the common region (planar clipping in the gnomonic chart) has area %.15g"
                    % (nm, a, case["inter_ref"] * r2))
        for nmu, u, nmi, i in (("A.union(B)", ua, "A.intersection(B)", ia), ("B.union(A)", ub, "B.intersection(A)", ib)):
            if u is not None and i is not None and abs(u - (A + B - i)) > t:
                bad("union", "area(%s) = %.15g != area A + area B - area(%s) = %.15g" % (nmu, u, nmi, A + B - i))
    elif rel == "disjoint":
        for nm, x in (("A.intersection(B)", iab), ("B.intersection(A)", iba)):
            if x["kind"] != 0:
                bad("intersection", "%s of disjoint polygons gives %s instead of None" % (nm, kind_name(x)))
    else:
        small = A if rel == "a_in_b" else B
        for nm, x in (("A.intersection(B)", iab), ("B.intersection(A)", iba)):
            a = poly_area(x)
            if a is None or abs(a - small) > t:
                bad("intersection", "%s with %s inside the other gives %s, not the inner polygon (area %.15g)"
                    % (nm, "A" if rel == "a_in_b" else "B", kind_name(x), small))
    return fails


def kind_name(x):
    k = x["kind"]
    if k == 0:
        return "None"
    if k in (1, 2, 3):
        return "a polygon of area %s" % x.get("area", x.get("area_err"))
    return x.get("err", "an exception")


def match_nodes(verts, lon1, lat1, lon2, lat2, rows):
    """result vertices -> node ids ((0, crossing) | (1, vertex of polygon 1) | (2, vertex of polygon 2)); None if ambiguous"""
    cand = [((1, i), G.cart(lo, la)) for i, (lo, la) in enumerate(zip(lon1, lat1))]
    cand += [((2, i), G.cart(lo, la)) for i, (lo, la) in enumerate(zip(lon2, lat2))]
    for c, row in enumerate(rows):
        cand.append(((0, c), G.cart(*row["p"])))
        cand.append(((0, c), G.cart(*row["q"])))
    out = []
    for lo, la in verts:
        p = G.cart(lo, la)
        hits = sorted({ident for ident, q in cand if G.norm((p[0] - q[0], p[1] - q[1], p[2] - q[2])) < 1e-9})
        if len(hits) != 1:
            return None
        out.append(hits[0])
    return out


def gni_coq_case(o):
    """the translated Arc.get_next_intersection on the table of the ordered pair (a, b) vs the calls observed"""
    tab = o.get("table_ab")
    if not tab or tab["asym"] or "gni" not in tab:
        return None
    rows = tab["rows"]
    rtxt = "[" + "; ".join("(%d, %d, %d, %s, %s, %s, %s)" % (c, row["e1"], row["e2"], fhex(row["d1"]), fhex(row["d2"]),
                                                               zl(int(row["s12"])), zl(int(row["s21"]))) for c, row in enumerate(rows)) + "]"
    qs = "[" + "; ".join("(%s, %s, %s, %s)" % tuple(zl(x) for x in q) for q in tab["gni"]) + "]"
    return "(%d, %d, %s, %s)" % (len(o["lon_a"]), len(o["lon_b"]), rtxt, qs)


def oper_coq_cases(o):
    """Coq cases (text) for the four operations of one pair whose tables were extracted"""
    out = []
    for order, tab_key, l1, l2 in (("ab", "table_ab", "a", "b"), ("ba", "table_ba", "b", "a")):
        tab = o.get(tab_key)
        if not tab or tab["asym"] or tab["i12"] is None or tab["i21"] is None:
            continue
        rows = tab["rows"]
        rtxt = "[" + "; ".join("(%d, %d, %d, %s, %s, %s, %s)" % (c, row["e1"], row["e2"], fhex(row["d1"]), fhex(row["d2"]),
                                                                   zl(int(row["s12"])), zl(int(row["s21"]))) for c, row in enumerate(rows)) + "]"
        for sign, op in ((-1, "inter_"), (1, "union_")):
            x = o[op + order]
            kind = x["kind"]
            nodes = []
            if kind == 3:
                nodes = match_nodes(x["v"], o["lon_" + l1], o["lat_" + l1], o["lon_" + l2], o["lat_" + l2], rows)
                if nodes is None:
                    continue
            if kind == 5:
                kind = 4
            out.append("(%d, %d, %s, %s, %s, %s, %d, %s)" % (
                len(o["lon_" + l1]), len(o["lon_" + l2]), rtxt, zl(sign), str(tab["i12"]).lower(), str(tab["i21"]).lower(), kind,
                "[" + "; ".join("(%d, %d)" % nd for nd in nodes) + "]"))
    return out


# ------------------------------------------------------------------------------------------------ the check
def run(ctx):
    rng = ctx.rng
    ctx.rule = ("area: simple clockwise polygons (strictly convex, and star-shaped non-convex around an interior point) with 3..12 "
                "vertices built in a gnomonic chart and placed generically / with a pole inside / with a vertex exactly on a pole / "
                "across the antimeridian / next to a pole / on the equator-meridian cross; per polygon: enclosed area by an independent "
                "triangle fan, interior angles from tangent vectors, 2 cyclic relabellings, 2 random rotations, one interior diagonal, "
                "a radius, inverse()/invert(); two random call histories (2..9 calls of area()/inverse()/invert() on ONE object, the object, "
                "the returned polygons and the caller's array compared with fresh objects after every call); the same for tiny polygons "
                "(1e-5..1e-3 rad across, at the antimeridian / around and next to both poles / mid latitudes), checked to the rounding "
                "bound of the angle sum, 16 n eps / d_min, instead of 1e-9 * 4 pi. pairs: two strictly convex polygons in one chart (overlapping / disjoint / nested), "
                "general position >= 1.5e-6 rad, streams: well separated, down to the bound, crossings next to vertices, edges "
                "crossing at < 4.6e-4 rad, large triangles / quadrilaterals with edges of 90..170 degrees, distinct nodes closer than 6e-5 rad; oracle = the laws + the common region by planar "
                "clipping; operands re-examined after the operations. non-trivial = every generated polygon / pair (all are inside the "
                "property's input class), histories with at least one inverse()/invert(); distinct = "
                "distinct inputs. Tolerance 1e-9 * 4 pi r^2 on every area law.")
    # ---- area
    n_area = ctx.n(110, 1300)
    kinds = ["convex", "star", "star"]
    area_cases = []
    for t in range(n_area):
        n = 3 + (t % 10) if t < 40 else rng.randint(3, 12)
        placement = G.PLACEMENTS[t % len(G.PLACEMENTS)]
        area_cases.append(make_area_case(rng, kinds[t % 3], n, placement, RADII[t % len(RADII)] if t % 2 else 1.0))
    # tiny polygons (1e-5 .. 1e-3 rad across), checked against the rounding bound of the angle sum instead of 1e-9 * 4 pi
    tiny_places = ("antimeridian", "north_pole_inside", "south_pole_inside", "next_to_pole", "mid_latitude", "equator_meridian",
                   "pole_vertex", "generic")
    for t in range(ctx.n(32, 400)):
        area_cases.append(make_area_case(rng, kinds[t % 3], rng.randint(3, 8), tiny_places[t % len(tiny_places)],
                                         RADII[t % len(RADII)] if t % 2 else 1.0, 10 ** rng.uniform(-5, -3) / 2))
    req_polys, spans = [], []
    for c in area_cases:
        ent = area_entries(c)
        spans.append((len(req_polys), len(ent)))
        req_polys += [{"v": e["v"], "r": e["r"], "inv": bool(e.get("inv"))} for e in ent]
    mal = malformed_polys(rng, ctx.n(40, 300))
    n_valid = len(req_polys)
    req_polys += [{"v": e["v"], "r": e["r"], "inv": False} for e in mal]
    # ---- histories of calls on one object (two per area case)
    hist = [(c, make_history(rng)) for c in area_cases for _ in range(2)]
    # ---- pairs
    pair_cases = make_pair_cases(ctx)
    obs = ctx.impl("c17", {"polys": req_polys, "pairs": [pair_request(c) for c in pair_cases],
                           "hist": [{"v": c["v"], "r": c["r"], "ops": ops} for c, ops in hist]}, timeout=3000)

    sampled = set()
    # ---- property oracle: area laws
    for c, (s, k) in zip(area_cases, spans):
        outs = obs["polys"][s:s + k]
        ctx.count("area_%s%s_%s" % ("tiny_" if c.get("tiny") else "", c["kind"], c["placement"]))
        skey = "area_" + ("tiny_" if c.get("tiny") else "") + c["kind"]
        ctx.case(("area", repr(c["v"]), c["r"]), nontrivial=True,
                 sample=None if skey in sampled else {skey: c["v"], "placement": c["placement"], "radius": c["r"],
                                                      "impl_area_r1": outs[0].get("area"), "impl_inverse_area_r1": outs[0].get("inv_area"),
                                                      "diagonal": c["diag"], "shifts": c["shifts"]})
        sampled.add(skey)
        for key, what in area_laws(c, outs):
            ctx.add_failure(key, what, {"oracle": "area", "case": c})
    # ---- property oracle: call histories on one object vs fresh objects
    hlines = []
    for (c, ops), o in zip(hist, obs["hist"]):
        ctx.count("history_len_%d" % len(ops))
        skey = "history"
        ctx.case(("hist", repr(c["v"]), c["r"], tuple(ops)), nontrivial=1 in ops or 2 in ops,
                 sample=None if skey in sampled else {skey: [OPNAME[x] for x in ops], "polygon": c["v"], "radius": c["r"],
                                                      "impl_area_after_each_call": [s.get("area") for s in o.get("steps", [])],
                                                      "fresh_areas": o.get("fresh")})
        sampled.add(skey)
        for key, what in history_laws(c, ops, o):
            ctx.add_failure(key, what, {"oracle": "hist", "case": c, "ops": ops})
        if "error" not in o:
            hlines.append("(%d, %s, [%s])" % (len(c["v"]), "[" + "; ".join(zl(x) for x in ops) + "]",
                                              "; ".join("(%d, %s)" % (s["state"], zl(s.get("ret_state", -1))) for s in o["steps"])))
    # ---- property oracle: set operations
    for c, o in zip(pair_cases, obs["pairs"]):
        cls = pair_class(c)
        ctx.count("pair_%s_%s" % (c["stream"], cls))
        skey = "pair_" + cls
        ctx.case(("pair", repr(c["a"]), repr(c["b"]), c["r"]), nontrivial=True,
                 sample=None if skey in sampled else {skey: [c["a"], c["b"]], "relation": c["relation"], "radius": c["r"],
                                                      "margin_rad": c["margin"], "min_crossing_angle_rad": c["cross_angle"],
                                                      "impl_inter_area": o.get("inter_ab", {}).get("area"),
                                                      "impl_union_area": o.get("union_ab", {}).get("area"),
                                                      "ref_inter_area_r1": c["inter_ref"]})
        sampled.add(skey)
        for key, what in pair_laws(c, o):
            ctx.add_failure(key, what, {"oracle": "pair", "case": {k: v for k, v in c.items() if not k.startswith("planar")}})

    # ---- correspondence: the angle-sum structure, bit for bit
    lines, skipped = [], 0
    for i, o in enumerate(obs["polys"]):
        t = area_coq_case(o)
        if t is None:
            if i < n_valid or "error" not in o:
                skipped += 1
            continue
        lines.append(t)
    if skipped:
        ctx.broken.append(("correspondence:area_az_tables", "the two arctan2 tables of SphPolygon.area could not be extracted for %d of %d polygons"
                           % (skipped, len(obs["polys"]))))
    texts = []
    for k in range(0, len(lines), 400):
        part = lines[k:k + 400]
        texts.append(("c17_area_%02d" % (k // 400), HDR + "Definition cases : list (Z * list float * list float * float * float) := [%s].\n"
                      "Eval vm_compute in (bad chk_area cases).\n" % ";\n".join(part), part, "area_angle_sum"))
    # ---- correspondence: the edge walk on the extracted crossing table
    olines = []
    for c, o in zip(pair_cases, obs["pairs"]):
        if c.get("table") and "error" not in o:
            if "table_err" in o:
                ctx.broken.append(("correspondence:walk_table", "crossing table extraction failed: " + o["table_err"]))
                continue
            olines += oper_coq_cases(o)
    ctx.traces = len(olines)
    for k in range(0, len(olines), 250):
        part = olines[k:k + 250]
        texts.append(("c17_walk_%02d" % (k // 250), HDR + "Definition cases : list (Z * Z * list (Z * Z * Z * float * float * Z * Z) * Z * bool * bool * Z * list (Z * Z)) := [%s].\n"
                      "Eval vm_compute in (bad chk_oper cases).\n" % ";\n".join(part), part, "bool_oper_walk"))
    glines = []
    for c, o in zip(pair_cases, obs["pairs"]):
        if c.get("table") and "error" not in o and "table_err" not in o:
            if "gni_err" in o.get("table_ab", {}):
                ctx.broken.append(("correspondence:get_next_intersection", "observation failed: " + o["table_ab"]["gni_err"]))
                continue
            t = gni_coq_case(o)
            if t is not None:
                glines.append(t)
    for k in range(0, len(glines), 150):
        part = glines[k:k + 150]
        texts.append(("c17_impgni_%02d" % (k // 150), IHDR + "Definition cases : list (Z * Z * list (Z * Z * Z * float * float * Z * Z) * list (Z * Z * Z * Z)) := [%s].\n"
                      "Eval vm_compute in (bad chk_imp_gni cases).\n" % ";\n".join(part), part, "translated_get_next_intersection"))
    ctx.count("corr_translated_gni_pairs", len(glines))
    for k in range(0, len(hlines), 500):
        part = hlines[k:k + 500]
        texts.append(("c17_imphist_%02d" % (k // 500), IHDR + "Definition cases : list (Z * list Z * list (Z * Z)) := [%s].\n"
                      "Eval vm_compute in (bad chk_imp_hist cases).\n" % ";\n".join(part), part, "translated_invert_inverse"))
    for k in range(0, len(hlines), 500):
        part = hlines[k:k + 500]
        texts.append(("c17_hist_%02d" % (k // 500), HDR + "Definition cases : list (Z * list Z * list (Z * Z)) := [%s].\n"
                      "Eval vm_compute in (bad chk_hist cases).\n" % ";\n".join(part), part, "call_history"))
    ctx.count("corr_history_cases", len(hlines))
    if len(olines) < len([c for c in pair_cases if c.get("table")]):
        ctx.broken.append(("correspondence:walk_coverage", "only %d walk traces could be encoded" % len(olines)))
    ctx.count("malformed_polygons_correspondence_only", len(mal))
    ctx.count("corr_area_cases", len(lines))
    ctx.count("corr_walk_cases", len(olines))
    res = ctx.coq_eval_many([(n, t) for n, t, _, _ in texts])
    for name, _, part, what in texts:
        out, ok = res[name]
        if not ok:
            ctx.broken.append(("correspondence:" + what, "model evaluation failed: " + out[-300:]))
            continue
        badl = ints(out)
        if badl:
            ctx.broken.append(("correspondence:" + what, "model and implementation differ on %d of %d cases, e.g. %s"
                               % (len(badl), len(part), part[badl[0]][:400])))
    ctx.notes.append("trigonometry (sin/cos/arctan2/arccos of libm via numpy) is an oracle: the azimuth tables and the crossing tables "
                     "are captured from the running implementation; the theorems are about the angle-sum and walk structure only")


def replay(ctx, data):
    d = data["case"]
    c = d["case"]
    if d["oracle"] == "hist":
        obs = ctx.impl("c17", {"hist": [{"v": c["v"], "r": c["r"], "ops": d["ops"]}]})
        fails = history_laws(c, d["ops"], obs["hist"][0])
    elif d["oracle"] == "area":
        ent = area_entries(c)
        obs = ctx.impl("c17", {"polys": [{"v": e["v"], "r": e["r"], "inv": bool(e.get("inv"))} for e in ent]})
        fails = area_laws(c, obs["polys"])
    else:
        obs = ctx.impl("c17", {"pairs": [pair_request(c)]})
        fails = pair_laws(c, obs["pairs"][0])
    return any(k == data["key"] for k, _ in fails)
