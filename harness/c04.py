"""C04 — weighted resampling (resample_gauss / resample_custom) is the normalised weighted mean of the neighbours in range.

run(ctx):
  1. seeded generator: geometry pairs (swath/area, poles, antimeridian, coincident points, invalid coordinates), radii
     (boundary seekers), k in 1..8 (also k > number of sources), gauss sigmas per channel / custom weight functions
     (dyadic bins, zero-valued ranges, scalar constants), data (integer-valued, floats, non-finite, float32/int32),
     masked data (incl. the masked_invalid idiom), fill number / None, with_uncert, reduce_data, segments.
  2. the real implementation: harness/impl/c04.py (get_neighbour_info + resample_* with identical arguments).
  3. property oracle (this file, pure Python, fractions.Fraction): neighbour info = k nearest valid sources inside the
     radius by exhaustive distances; weights = documented function; value = sum(w x)/sum(w) over the present neighbours
     within the stated rounding bound; fill/mask rules; count; unbiased weighted stddev; return contract.
  4. correspondence: the Coq model (coq/Model/Weights.v, binary64 instance) is evaluated by vm_compute on the
     implementation's own neighbour info and weight tables and compared with the implementation's output
     (masks and counts exactly; values bit for bit, or within twice the stated bound).

Stated bounds (u = 2^-53, eta = 2^-1074): a RUNNING error analysis (class RE) follows the code's operation order
  (result += w*x; norm += w; result/norm; norm_sqr += w*w; stddev += w*(x-result)^2; sqrt(v1/(v1*v1-v2)*stddev)) in binary64
  and carries, per intermediate, a bound on its distance from the exact value, with |fl(a op b) - (a op b)| <= u|fl| + eta
  (eta covers underflow), division by an uncertain denominator, |sqrt a - sqrt b| <= min(sqrt|a-b|, |a-b|/(sqrt a + sqrt b)).
  It therefore contains the conditioning of V1^2-V2 and of the deviation sum (errors of the mean enter every (x-mean)^2).
  value:  |impl - S/N| <= B = 4 e(result/norm);  stddev: |impl - sqrt(V1/(V1^2-V2) T)| <= E = 4 e(stddev);  k = 1: exact.
  gauss: each weight enters with relative uncertainty 16u(1+d^2/sigma^2) (+4 eta), the evaluation error allowed for exp.
  Sound for any implementation that evaluates the documented formulas in binary64 in this order (then the bound holds with
  factor 1); cells whose bound is infinite (denominator not separated from 0, overflow) are unconstrained; cells with
  B > 1e-6*sum|w x|/sum w or E > 1e-6*max(stddev, max|x-mean|) are counted as ill-conditioned (and still checked).
  The Coq comparison accepts 2B / 2E (implementation and binary64 model are both within B / E of the exact value).
Unconstrained by the property (accepted either way by the oracle, still compared bit for bit with the model):
  a masked neighbour in range whose weight is 0 (code: does not mask); count in {neighbours in range, neighbours with w != 0}
  (code: neighbours in range); stddev where >= 2 neighbours are in range but at most one has non-zero weight (0/0 or x/0).
Attribution keys: C04.fill.sentinel_dtype, C04.layout_independence, C04.input_mutated, C04.neighbour_info.radius.epsilon, C04.neighbour_info.*, C04.weights, C04.mean, C04.mean.missing_slot_leak, C04.mean.placeholder_weight, C04.fill, C04.mask, C04.count[.k1|.mask],
  C04.stddev[.undefined|.mask], C04.uncert.return[.empty], C04.shape, C04.error.<Exception>.
Translator (tools/gen_specs/GenC04.json, regenerated on every run, characterised in Proofs/C04_gen.v): the accumulation loop body and the
  normalisation block of _resample_with_weights, the loop body and the final-estimator block of _calculate_uncertainty (single- and
  multi-channel branches) and the closure of resample_gauss.  Correspondence only: the gather / weight-evaluation loops (fancy indexing,
  masked stores into copies, user callables), _extract_resample_result, _prepare_result, _remask_data, _prepare_and_fill_uncertainty_result
  (array plumbing: reshape, np.full, channel slicing, numpy.ma construction) and _query_resample_kdtree (pykdtree).
"""
import math
import struct
from fractions import Fraction

from .common import fhex, evals

PROP_FILE = "Properties/C04.v"
GEN = ["GenC04"]
RUN_FILES = ["Model/C04_run.v"]

U = 2.0 ** -53
R_EARTH = 6370997.0
F64MAX = float.fromhex("0x1.fffffffffffffp+1023")
F32MAX = float.fromhex("0x1.fffffep+127")
I32MAX = 2147483647.0
TINY = 1e-300


def hx(x):
    return float(x).hex()


def unhex(s):
    return float.fromhex(s)


def f32(x):
    return struct.unpack("f", struct.pack("f", x))[0]


# ------------------------------------------------------------------ scalar weight functions (oracle side)
def wf_eval(name, p, d):
    c32 = f32 if PREC["u"] == U32 else (lambda x: x)    # numpy: float32 array < Python float compares in float32
    if name == "bins":
        return 1.0 if d < c32(p) else (0.5 if d < c32(3 * p) else (0.25 if d < c32(6 * p) else 0.0))
    if name == "inv":
        return 1.0 / (1.0 + (d / p) * (d / p))
    if name == "lin":
        return max(0.0, 1.0 - d / p)
    if name == "const":
        return p
    if name == "step0":
        return 0.0 if d < c32(p) else 1.0
    if name == "allzero":
        return 0.0
    # singular / huge at distance 0 (IEEE: x/0 = inf)
    if name == "invd":
        return p / d if d != 0 else math.copysign(float("inf"), p)
    if name == "invd2":
        return p / (d * d) if d * d != 0 else math.copysign(float("inf"), p)
    if name == "invdt":
        return 1.0 / (d + p) if d + p != 0 else float("inf")
    # singular at the placeholder distance 1
    if name == "sing1":
        return p / abs(d - 1.0) if d != 1.0 else math.copysign(float("inf"), p)
    if name == "sing1sq":
        return p / ((d - 1.0) * (d - 1.0)) if d != 1.0 else math.copysign(float("inf"), p)
    raise KeyError(name)


def wf_eps(name, p, d):
    """relative uncertainty allowed between the table and the scalar evaluation"""
    if name in ("inv", "lin", "invd", "invd2", "invdt", "sing1", "sing1sq"):
        return 16 * PREC["u"]
    return 0.0


def gauss_eval(sigma, d):
    try:
        return math.exp(-(d * d) / (sigma * sigma))
    except OverflowError:
        return 0.0


def gauss_eps(sigma, d):
    return 16 * PREC["u"] * (1.0 + (d * d) / (sigma * sigma))


# ------------------------------------------------------------------ running error analysis (oracle side)
ETA = 2.0 ** -1074          # absolute error of an operation whose result is subnormal (covers underflow)
U32, ETA32 = 2.0 ** -24, 2.0 ** -149
# unit roundoff / underflow unit of the arithmetic the code runs in for the current case: binary64, or binary32 when the
# source geometry is float32 (kd-tree, distances and most weights are then float32, and with float32 data so are the sums).
# In float32 mode the centre values are still computed in binary64; the bound then holds for ANY evaluation of the same
# operation sequence whose every operation has relative error <= u (mixed float32/float64 included).
PREC = {"u": U, "eta": ETA}
SAFE = 1.0 + 2.0 ** -30     # the bounds themselves are computed in floating point


class RE:
    """A binary64 value computed in the code's operation order together with a bound on its distance from the exact
    (real-number) value of the same expression: |fl(a op b) - (a op b)| <= u |fl(a op b)| + ETA for + - * / sqrt."""
    __slots__ = ("v", "e")

    def __init__(self, v, e=0.0):
        self.v, self.e = v, e

    def _fin(self, v, e):
        if not (math.isfinite(v) and e == e):
            return RE(v, float("inf"))
        if PREC["u"] == U32 and abs(v) + e > 0.99 * F32MAX:
            return RE(v, float("inf"))      # may overflow in binary32: no bound, the cell is unconstrained
        return RE(v, e * SAFE)

    def add(self, o):
        v = self.v + o.v
        u = PREC["u"]
        return self._fin(v, (self.e + o.e) * (1 + u) + u * abs(v))

    def sub(self, o):
        v = self.v - o.v
        u = PREC["u"]
        return self._fin(v, (self.e + o.e) * (1 + u) + u * abs(v))

    def mul(self, o):
        v = self.v * o.v
        u = PREC["u"]
        return self._fin(v, (abs(self.v) * o.e + abs(o.v) * self.e + self.e * o.e) * (1 + u) + u * abs(v) + PREC["eta"])

    def div(self, o):
        den = abs(o.v) - o.e
        if not den > 0:
            return RE(self.v / o.v if o.v != 0 else float("nan"), float("inf"))
        v = self.v / o.v
        u = PREC["u"]
        return self._fin(v, ((self.e + (abs(v) * (1 + 4 * U) + ETA) * o.e) / den) * (1 + u) + u * abs(v) + PREC["eta"])

    def sqrt(self):
        if self.v < 0:
            return RE(float("nan"), float("inf"))
        v = math.sqrt(self.v)
        lo = max(self.v - self.e, 0.0)
        d = v + math.sqrt(lo)
        e = min(math.sqrt(self.e), self.e / d if d > 0 else float("inf"))
        u = PREC["u"]
        return self._fin(v, e * (1 + u) + u * abs(v))


def run_mean(pres, weps):
    """result/norm accumulated as the code does; pres = [(w, x)], weps = relative uncertainty of each weight"""
    res, nm = RE(0.0), RE(0.0)
    for (w, x), ew in zip(pres, weps):
        wt = RE(w, ew * abs(w) + (4 * PREC["eta"] if ew else 0.0))
        res = res.add(wt.mul(RE(x)))
        nm = nm.add(wt)
    return res.div(nm), nm


def run_stddev(pres, weps, mean_re, nm):
    v2, sd = RE(0.0), RE(0.0)
    for (w, x), ew in zip(pres, weps):
        wt = RE(w, ew * abs(w) + (4 * PREC["eta"] if ew else 0.0))
        v2 = v2.add(wt.mul(wt))
        dev = RE(x).sub(mean_re)
        sd = sd.add(wt.mul(dev.mul(dev)))
    den = nm.mul(nm).sub(v2)
    return nm.div(den).mul(sd).sqrt()


# ------------------------------------------------------------------ generator
CENTERS = [(0.0, 0.0), (10.0, 50.0), (-60.0, -30.0), (179.98, 10.0), (25.0, 85.0), (-179.99, -65.0), (0.0, 89.95),
           (100.0, 0.0), (-0.01, 0.01), (45.0, -89.9)]


def norm_lon(x):
    while x > 180.0:
        x -= 360.0
    while x < -180.0:
        x += 360.0
    return x


def xyz(lon, lat):
    lo, la = math.radians(lon), math.radians(lat)
    return (R_EARTH * math.cos(la) * math.cos(lo), R_EARTH * math.cos(la) * math.sin(lo), R_EARTH * math.sin(la))


def dist3(a, b):
    return math.sqrt((a[0] - b[0]) ** 2 + (a[1] - b[1]) ** 2 + (a[2] - b[2]) ** 2)


def legal(lon, lat):
    return -180 <= lon <= 180 and -90 <= lat <= 90


def gen_swath(r, lon0, lat0, span, rows, cols, lattice):
    lons, lats = [], []
    cl = max(math.cos(math.radians(lat0)), 0.02)
    for i in range(rows):
        lo_row, la_row = [], []
        for j in range(cols):
            if lattice:
                dx, dy = (j - (cols - 1) / 2.0) * span / max(cols, 2), (i - (rows - 1) / 2.0) * span / max(rows, 2)
            else:
                dx, dy = r.uniform(-span, span), r.uniform(-span, span)
            lo_row.append(norm_lon(lon0 + dx / cl))
            la_row.append(max(-90.0, min(90.0, lat0 + dy)))
        lons.append(lo_row)
        lats.append(la_row)
    return lons, lats


def gen_area(r, lon0, lat0, span, rows, cols):
    px = r.choice([500.0, 1000.0, 2500.0]) * (span / 0.05)
    proj = r.choice(["laea", "eqc", "stere"])
    if abs(lat0) > 80 and proj == "eqc":
        proj = "laea"
    pd = {"proj": proj, "lat_0": lat0, "lon_0": lon0, "ellps": "WGS84"}
    if proj == "eqc":
        pd = {"proj": "eqc", "lon_0": lon0, "lat_ts": 0, "ellps": "WGS84"}
        yc = lat0 * 110574.0
    else:
        yc = 0.0
    ox, oy = r.choice([0.0, 0.0, px / 2, -px * 0.25]), r.choice([0.0, 0.0, px / 2])
    ext = [ox - cols * px / 2, yc + oy - rows * px / 2, ox + cols * px / 2, yc + oy + rows * px / 2]
    return {"kind": "area", "proj": pd, "width": cols, "height": rows, "extent": [hx(v) for v in ext]}


def gen_case(r, stream):
    """stream: 'regular' | 'boundary' | 'nonfinite' | 'empty'"""
    lon0, lat0 = r.choice(CENTERS)
    # weight functions singular / huge at distance 0 (1/d, 1/d^2, 1/(d+tiny)): no coincident points, so every weight
    # actually used is finite; partially covered locations (1..k-1 neighbours in range) are where a placeholder
    # distance of a missing slot must not reach the sums
    singular = stream in ("regular", "boundary") and r.random() < 0.15
    span = r.choice([0.02, 0.05, 0.05, 0.2])
    srows, scols = r.randint(1, 5), r.randint(1, 6)
    trows, tcols = r.randint(1, 4), r.randint(1, 4)
    # non-default epsilon (approximate kd-tree search, passed to pykdtree as eps): few enough sources (one kd-tree leaf,
    # pykdtree leafsize 16) that the search is exhaustive whatever epsilon is, so the neighbour set is decided by the
    # radius alone and the oracle's exhaustive k-nearest check applies unchanged
    eps_mode = stream in ("regular", "boundary", "nonfinite") and r.random() < 0.25
    if eps_mode:
        srows, scols = r.randint(1, 3), r.randint(1, 4)
    want_f32 = r.random() < 0.3         # float32 source geometry (if the source is a swath)
    reduce_ok = abs(lat0) <= 40 and abs(lon0) < 170
    want_reduce = reduce_ok and r.random() < 0.3
    if want_reduce:     # one-pixel-thick areas make data_reduce raise (C09/C11 finding), not this property's business
        srows, scols, trows, tcols = max(srows, 2), max(scols, 2), max(trows, 2), max(tcols, 2)
    km_per_deg = 111.2
    spacing = span * km_per_deg * 1000.0 / 3.0
    src_area = r.random() < 0.2 and abs(lat0) < 89
    tgt_area = r.random() < 0.3 and abs(lat0) < 89 and not singular
    if src_area:
        src = gen_area(r, lon0, lat0, span, srows, scols)
        spts = None
    else:
        lons, lats = gen_swath(r, lon0, lat0, span, srows, scols, r.random() < 0.3)
        spts = [(lo, la) for a, b in zip(lons, lats) for lo, la in zip(a, b)]
        src = {"kind": "swath", "lons": lons, "lats": lats}
    if tgt_area:
        tgt = gen_area(r, lon0, lat0, span, trows, tcols)
        tpts = None
    else:
        shift = r.choice([0.0, 0.0, 0.0, span * 0.7, 30.0 * span])
        lons, lats = gen_swath(r, norm_lon(lon0 + shift), lat0, span, trows, tcols, r.random() < 0.3 and not singular)
        if spts and r.random() < 0.5 and not singular:           # coincident points: distance exactly 0
            for _ in range(r.randint(1, 2)):
                i, j = r.randrange(trows), r.randrange(tcols)
                lons[i][j], lats[i][j] = r.choice(spts)
        tpts = [(lo, la) for a, b in zip(lons, lats) for lo, la in zip(a, b)]
        tgt = {"kind": "swath", "lons": lons, "lats": lats}
    # invalid coordinates (swaths only)
    if stream == "empty":
        if src["kind"] == "swath" and r.random() < 0.6:
            src["lons"] = [[1e30 for _ in row] for row in src["lons"]]
            spts = None
        elif tgt["kind"] == "swath":
            tgt["lats"] = [[91.0 for _ in row] for row in tgt["lats"]]
            tpts = None
        else:
            tgt = {"kind": "swath", "lons": [[0.0]], "lats": [[-95.0]]}
            tpts = None
            trows = tcols = 1
    elif r.random() < 0.15:
        if src["kind"] == "swath":
            for _ in range(r.randint(1, 2)):
                i, j = r.randrange(srows), r.randrange(scols)
                if r.random() < 0.5:     # NaN in only one of the two paired coordinate arrays included
                    src["lons"][i][j] = r.choice([1e30, 180.5, -200.0, float("nan")])
                else:
                    src["lats"][i][j] = r.choice([1e30, 90.5, -91.0, float("nan")])
            spts = None
        if tgt["kind"] == "swath" and r.random() < 0.5:
            i, j = r.randrange(trows), r.randrange(tcols)
            tgt["lons"][i][j] = r.choice([1e30, 181.0])
            tpts = None
    # radius
    choice = r.random()
    if stream == "boundary" and spts and tpts:
        a, b = r.choice(tpts), r.choice(spts)
        d = dist3(xyz(*a), xyz(*b)) if legal(*a) and legal(*b) else spacing
        radius = r.choice([d, d * (1 + 2 ** -50), d * (1 - 2 ** -50), d * 1.5]) if d > 0 else spacing
    elif choice < 0.1:
        radius = 1.0e7
    elif choice < 0.15:
        radius = 1.0
    else:
        radius = spacing * r.choice([0.6, 1.0, 1.5, 2.5, 4.0])
    k = r.choice([1, 2, 2, 3, 3, 4, 4, 5, 6, 7, 8, 8])
    if singular:
        k = r.choice([2, 3, 4, 5, 6, 8])
        if choice >= 0.1 and stream == "regular":
            radius = spacing * r.choice([0.6, 1.0, 1.5, 2.5])
    nchan = r.choice([0, 0, 0, 1, 2, 3])
    if nchan == 0 and scols == 1:
        # 2-D single-channel data of shape (n, 1) is read by get_sample_from_neighbour_info as n points x 1 channel
        # (documented input ambiguity, outside this property): use the explicit channel axis instead
        nchan = 1
    dtype = r.choice(["float64", "float64", "float64", "float32", "int32"])
    if want_f32:
        dtype = r.choice(["float32", "float32", "float32", "float64", "int32"])
    nsrc = srows * scols
    shape_c = max(nchan, 1)
    dmode = r.choice(["int", "int", "float", "float", "big"])
    if stream == "nonfinite" and dtype == "int32":
        dtype = "float64"
    vals = []
    for _ in range(nsrc * shape_c):
        if dmode == "int" or dtype == "int32":
            v = float(r.randint(-20, 20))
        elif dmode == "float":
            v = r.uniform(-100.0, 100.0)
        else:
            v = r.choice([1.0, -1.0]) * 10.0 ** r.uniform(-3, 6)
        if dtype == "float32":
            v = f32(v)
        vals.append(v)
    mask = None
    mr = r.random()
    if mr < 0.35 or (stream == "nonfinite" and mr < 0.6):
        mask = [1 if r.random() < 0.3 else 0 for _ in vals]
        if r.random() < 0.4:
            for cidx in range(shape_c):
                mask[cidx] = 1                  # the first source location
    elif mr < 0.42:
        mask = [0 for _ in vals]                # masked array with nothing masked
    if stream == "nonfinite":
        bad = r.choice([float("nan"), float("nan"), float("inf"), float("-inf")])
        under_mask = mask is not None and any(mask) and r.random() < 0.6
        if under_mask:                          # np.ma.masked_invalid idiom: NaN exactly where masked
            vals = [bad if m else v for v, m in zip(vals, mask)]
        else:
            for cidx in range(shape_c):
                if r.random() < 0.8:
                    vals[cidx] = bad            # the first source location
            for _ in range(r.randint(0, 2)):
                vals[r.randrange(len(vals))] = bad
    it = iter(vals)
    im = iter(mask) if mask is not None else None

    def nest(itx, conv):
        out = []
        for _ in range(srows):
            row = []
            for _ in range(scols):
                if nchan:
                    row.append([conv(next(itx)) for _ in range(nchan)])
                else:
                    row.append(conv(next(itx)))
            out.append(row)
        return out
    data = nest(it, hx)
    maskn = nest(im, int) if im is not None else None
    if dtype == "int32":
        fill = r.choice([None, 0.0, -1.0, 255.0])
    else:
        fill = r.choice([None, None, 0.0, -1.0, -999.25, 255.0])
    mode = "custom" if singular else r.choice(["gauss", "custom", "custom"])
    c = {"src": src, "tgt": tgt, "dtype": dtype, "data": data, "mask": maskn, "C": nchan, "radius": hx(radius), "k": k,
         "fill": None if fill is None else hx(fill), "mode": mode, "with_uncert": r.random() < 0.65,
         "reduce_data": bool(want_reduce), "segments": None, "stream": stream}
    if trows * tcols >= 2 and r.random() < 0.1:
        c["segments"] = 2
    if mode == "gauss":
        c["sigmas"] = [hx(radius * r.choice([0.25, 0.5, 1.0, 2.0, 0.025, 1.0 / 3.0])) for _ in range(shape_c)]
    else:
        wf = []
        for _ in range(shape_c):
            name = r.choice(["bins", "bins", "bins", "inv", "lin", "const", "step0", "allzero"])
            if singular:
                name = r.choice(["invd", "invd2", "invdt", "sing1", "sing1sq"])
            if name == "invdt":
                p = r.choice([1e-310, 1e-300, 1e-3])       # 1/(0 + 1e-310) overflows to inf, 1/(0 + 1e-300) is huge but finite
            elif name in ("invd", "invd2", "sing1", "sing1sq"):
                p = r.choice([1.0, 1000.0, radius])
            elif name == "const":
                p = r.choice([1.0, 0.5, 2.0, 0.0])
            elif name == "lin":
                p = radius * r.choice([0.5, 1.0, 2.0])
            else:
                p = radius * r.choice([0.5, 0.25, 0.125, 0.0625])
            wf.append([name, hx(p)])
        c["wf"] = wf
    # float32 geometry (SwathDefinition built from float32 lons/lats; the target is cast to the source dtype by the
    # library) in all combinations with float32 / float64 / int32 data
    c["src_f32"] = bool(src["kind"] == "swath" and want_f32)
    c["tgt_f32"] = bool(tgt["kind"] == "swath" and r.random() < 0.3)
    if c["src_f32"]:
        if r.random() < 0.5:
            c["fill"] = None
        if mode == "gauss":     # keep exp(-d^2/sigma^2) away from the float32 subnormal range
            c["sigmas"] = [hx(radius * r.choice([1.0 / 3.0, 0.5, 1.0, 2.0])) for _ in range(shape_c)]
    # non-default optional argument epsilon
    c["epsilon"] = hx(0.0)
    if eps_mode:
        c["epsilon"] = hx(r.choice([radius * 0.02, radius * 0.2, radius * 0.2, 250.0, 0.5, radius]))
    # memory layout of the arrays handed to the library (same logical values): C, Fortran, transposed view of a
    # transposed store, strided view into a larger array, doubly reversed (negative strides)
    c["layout"] = r.choice(["C", "C", "C", "F", "F", "T", "T", "strided", "neg"])
    c["coord_layout"] = r.choice(["C", "C", "C", "F", "T", "strided", "neg"])
    # integral radius passed as a Python int (radius_of_influence accepts int and float)
    c["radius_int"] = bool(radius == int(radius) and r.random() < 0.5)
    # swath coordinates as hex
    for g in (src, tgt):
        if g["kind"] == "swath":
            g["lons"] = [[hx(v) for v in row] for row in g["lons"]]
            g["lats"] = [[hx(v) for v in row] for row in g["lats"]]
    return c


def gen_cases(ctx):
    r = ctx.rng
    n = ctx.n(400, 6000)
    cases = []
    for i in range(n):
        q = i % 20
        stream = "empty" if q == 19 else ("nonfinite" if q in (3, 8, 13) else ("boundary" if q in (1, 6, 11, 16) else "regular"))
        cases.append(gen_case(r, stream))
    return cases


# ------------------------------------------------------------------ oracle
def flat_channels(c):
    """data and mask flattened per source location: lists of per-channel lists"""
    nchan = max(c["C"], 1)
    vals, msk = [], []
    for i, row in enumerate(c["data"]):
        for j, e in enumerate(row):
            vals.append([unhex(v) for v in e] if c["C"] else [unhex(e)])
            if c["mask"] is not None:
                m = c["mask"][i][j]
                msk.append([int(v) for v in m] if c["C"] else [int(m)])
            else:
                msk.append([0] * nchan)
    return vals, msk


def fill_eff(c, is_masked):
    if c["fill"] is not None:
        return unhex(c["fill"])
    return {"float64": F64MAX, "float32": F32MAX, "int32": I32MAX}[c["dtype"]]


class Judge:
    """Evaluates one case: property oracle + rows for the Coq correspondence."""

    def __init__(self, c, o):
        self.c, self.o = c, o
        self.fail = []          # (key, what)
        self.rows = []          # Coq text rows
        self.stats = {}

    def bad(self, key, what):
        # a cell with a missing slot under a weight function singular at the placeholder distance: one root cause
        if getattr(self, "cell_override", None) and key in ("C04.mask", "C04.mean", "C04.fill", "C04.stddev", "C04.stddev.undefined", "C04.stddev.mask"):
            key = self.cell_override
        if getattr(self, "layout_broken", False) and key.split(".")[1] in ("mean", "mask", "fill", "stddev", "count"):
            key = "C04.layout_independence"     # consequences of the layout dependence already reported for this call
        if len(self.fail) < 6:
            self.fail.append((key, what))

    def stat(self, k, n=1):
        self.stats[k] = self.stats.get(k, 0) + n

    # -------- neighbour info by exhaustive distances
    def check_neighbours(self):
        c, o = self.c, self.o
        radius, k = unhex(c["radius"]), c["k"]
        src = [(unhex(a), unhex(b)) for a, b in o["src_lonlat"]]
        tgt = [(unhex(a), unhex(b)) for a, b in o["tgt_lonlat"]]
        vin, vout = o["valid_in"], o["valid_out"]
        for i, (lo, la) in enumerate(src):
            if not legal(lo, la) and vin[i]:
                self.bad("C04.neighbour_info.valid_input", "source %d at (%r,%r) is not a legal lon/lat but is a valid input" % (i, lo, la))
        valid_src = [i for i, v in enumerate(vin) if v]
        sxyz = [xyz(*src[i]) for i in valid_src]
        n_valid = len(valid_src)
        if n_valid == 0 or sum(vout) == 0:
            return
        for i, (lo, la) in enumerate(tgt):
            if bool(vout[i]) != legal(lo, la) and not c["reduce_data"]:
                self.bad("C04.neighbour_info.valid_output", "target %d at (%r,%r): valid_output_index=%s" % (i, lo, la, vout[i]))
        rows = [t for t, v in enumerate(vout) if v]
        if len(rows) != len(o["index"]):
            self.bad("C04.neighbour_info.shape", "index_array has %d rows for %d valid outputs" % (len(o["index"]), len(rows)))
            return
        # sources dropped by reduce_data must be out of reach of every valid target
        dropped = [i for i, v in enumerate(vin) if not v and legal(*src[i])]
        for r_i, t in enumerate(rows):
            txyz = xyz(*tgt[t])
            tol = 1e-6 + 1e-9 * radius
            if getattr(self, "f32coords", False):
                # float32 lon/lat -> float32 cartesian coordinates (ulp 0.5 m at the earth's radius), float32 distances
                tol = 10.0 + 1e-6 * radius
            for i in dropped:
                if dist3(txyz, xyz(*src[i])) < radius - tol:
                    self.bad("C04.neighbour_info.reduced", "source %d is within the radius of target %d but was reduced away" % (i, t))
            D = [dist3(txyz, p) for p in sxyz]
            idx = o["index"][r_i]
            dd = [unhex(v) for v in o["dist"][r_i]]
            if len(idx) != k:
                self.bad("C04.neighbour_info.shape", "row of %d slots for k=%d" % (len(idx), k))
                return
            seen = set()
            last = -1.0
            npres = 0
            for s, (ix, d) in enumerate(zip(idx, dd)):
                if ix == n_valid:
                    if not math.isinf(d):
                        self.bad("C04.neighbour_info.missing", "target %d slot %d: missing neighbour with distance %r" % (t, s, d))
                    last = float("inf")
                    continue
                npres += 1
                if not (0 <= ix < n_valid) or ix in seen:
                    self.bad("C04.neighbour_info.index", "target %d slot %d: index %d out of range or repeated" % (t, s, ix))
                    return
                seen.add(ix)
                if abs(d - D[ix]) > tol:
                    self.bad("C04.neighbour_info.distance", "target %d slot %d: distance %r but exhaustive distance to source %d is %r" % (t, s, d, ix, D[ix]))
                if not d <= radius + tol:       # pykdtree compares squared distances: d == radius can survive the sqrt
                    eps = unhex(c.get("epsilon", hx(0.0)))
                    self.bad("C04.neighbour_info.radius.epsilon" if eps > 0 else "C04.neighbour_info.radius",
                             "target %d slot %d: neighbour at %r is not inside the radius %r%s" % (
                                 t, s, d, radius, " (epsilon=%r must not widen the cut-off)" % eps if eps > 0 else ""))
                if d < last - tol:
                    self.bad("C04.neighbour_info.order", "target %d: slots not sorted by distance" % t)
                last = d
            # nothing nearer was left out
            cut = max([d for ix, d in zip(idx, dd) if ix != n_valid], default=0.0) if npres == k else radius
            for j, Dj in enumerate(D):
                if j not in seen and Dj < cut - tol:
                    self.bad("C04.neighbour_info.nearest", "target %d: valid source %d at distance %r is nearer than the %s but is not among the neighbours %s" % (
                        t, j, Dj, "k-th neighbour (%r)" % cut if npres == k else "radius", idx))
                    break

    # -------- main
    def run(self):
        c, o = self.c, self.o
        if "error" in o:
            self.bad("C04.error." + o["error"], "the implementation raised %s: %s" % (o["error"], o.get("msg", "")))
            return
        # arithmetic of the case: float32 source geometry -> float32 kd-tree, distances and (mostly) weights
        self.f32geo = o.get("dist_dtype") == "float32"
        self.f32coords = bool(c.get("src_f32") or c.get("tgt_f32")) or self.f32geo
        PREC["u"], PREC["eta"] = (U32, ETA32) if self.f32geo else (U, ETA)
        self.check_neighbours()
        self.layout_broken = o.get("same_as_c") is False
        if self.layout_broken:
            self.bad("C04.layout_independence", "data layout %s / coordinate layout %s: the result differs from the one for the same values in "
                     "C-contiguous arrays (%s)" % (c.get("layout"), c.get("coord_layout"), o.get("layout_diff", "")))
        if o.get("input_mutated"):
            self.bad("C04.input_mutated", "the call modified the caller's %s" % o["input_mutated"])
        k, nchan = c["k"], max(c["C"], 1)
        vals, msk = flat_channels(c)
        vin, vout = o["valid_in"], o["valid_out"]
        valid_src = [i for i, v in enumerate(vin) if v]
        n_valid = len(valid_src)
        n_vout = sum(vout)
        ntgt = len(vout)
        empty = (n_valid == 0 or n_vout == 0)
        is_masked = any(msk[i][j] for i in valid_src for j in range(nchan))
        fe = fill_eff(c, is_masked)
        # input is a numpy.ma array without a masked valid element: the code then computes with numpy.ma arithmetic
        self.ma_plain = c["mask"] is not None and not is_masked
        fill_none = c["fill"] is None
        wu = c["with_uncert"]
        if wu and o["ret_len"] != 3:
            self.bad("C04.uncert.return" + (".empty" if empty else ""),
                     "with_uncert=True but %d array(s) returned instead of (data, stddev, count)%s" % (
                         o["ret_len"], " [no valid input or output location]" if empty else ""))
            return
        if not wu and o["ret_len"] != 1:
            self.bad("C04.uncert.return", "with_uncert=False but %d arrays returned" % o["ret_len"])
            return
        res = o["res"]
        if len(res["val"]) != ntgt or any(len(v) != nchan for v in res["val"]):
            self.bad("C04.shape", "result has shape %dx%d, expected %dx%d" % (len(res["val"]), len(res["val"][0]), ntgt, nchan))
            return
        # weight tables: the documented function?
        tabs = []
        for j in range(nchan):
            tab = {unhex(a): unhex(b) for a, b in o["tables"][j]} if j < len(o["tables"]) else {}
            tabs.append(tab)
            for d, w in tab.items():
                if c["mode"] == "gauss":
                    s = unhex(c["sigmas"][j])
                    ref, eps = gauss_eval(s, d), gauss_eps(s, d)
                else:
                    name, p = c["wf"][j][0], unhex(c["wf"][j][1])
                    ref, eps = wf_eval(name, p, d), wf_eps(name, p, d)
                atol = TINY
                if PREC["u"] == U32:    # float32 evaluation: subnormal granularity; 1 - d/p cancels to absolute accuracy u
                    atol = 4 * ETA32 + (8 * U32 if c["mode"] != "gauss" and c["wf"][j][0] == "lin" else 0.0)
                if not (w == ref or abs(w - ref) <= eps * abs(ref) + atol):
                    self.bad("C04.weights", "channel %d: weight for distance %r is %r, documented function gives %r" % (j, d, w, ref))
        if o.get("table_conflict"):
            self.bad("C04.weights", "the weight function was observed with two different values for the same distance")
        first_valid = valid_src[0] if valid_src else None
        row_of = {}
        for r_i, t in enumerate([t for t, v in enumerate(vout) if v]):
            row_of[t] = r_i
        is_ma = res["mask"] is not None
        for t in range(ntgt):
            xs = []
            present_row = None
            if vout[t] and not empty:
                idx = o["index"][row_of[t]]
                dd = [unhex(v) for v in o["dist"][row_of[t]]]
                present_row = [(ix, d) for ix, d in zip(idx, dd) if ix != n_valid]
            for j in range(nchan):
                xs.append(self.judge_cell(t, j, present_row, vals, msk, valid_src, tabs[j], fe, fill_none, is_masked, is_ma, first_valid,
                                          len(o["index"][row_of[t]]) if present_row is not None else 0))
            if vout[t] and not empty:
                self.rows.append("(true, %s, %s, [%s])" % (
                    "[" + "; ".join(str(v) for v in o["index"][row_of[t]]) + "]",
                    "[" + "; ".join(fhex(unhex(v)) for v in o["dist"][row_of[t]]) + "]", "; ".join(xs)))
            else:
                self.rows.append("(false, [], [], [%s])" % "; ".join(xs))
        # Coq case
        cols = [[vals[i][j] for i in valid_src] for j in range(nchan)]
        if is_masked and not empty:
            cols += [[float(msk[i][j]) for i in valid_src] for j in range(nchan)]
        self.coq = "(%d, [%s], [%s], %s, %s, %s,\n  [%s])" % (
            n_valid,
            "; ".join("[" + "; ".join(fhex(v) for v in col) + "]" for col in cols),
            "; ".join("[" + "; ".join("(%s, %s)" % (fhex(a), fhex(b)) for a, b in tab.items()) + "]" for tab in tabs),
            "true" if (is_masked and not empty) else "false", fhex(fe), "true" if fill_none else "false",
            ";\n   ".join(self.rows))

    def judge_cell(self, t, j, present_row, vals, msk, valid_src, tab, fe, fill_none, is_masked, is_ma, first_valid, nslots):
        """Property oracle for one (location, channel); returns the Coq expectation literal."""
        c, o = self.c, self.o
        k = c["k"]
        v = unhex(o["res"]["val"][t][j])
        m = bool(o["res"]["mask"][t][j]) if is_ma else False
        where = "target %d channel %d" % (t, j)
        tolv = 0.0
        self.cell_override = None
        if (c["mode"] == "custom" and k > 1 and c["wf"][j][0] in ("sing1", "sing1sq") and present_row is not None
                and 0 < len(present_row) < nslots):
            self.cell_override = "C04.mean.placeholder_weight"
        # ---------------- expected value
        pres = []
        if present_row:
            for ix, d in present_row:
                src_i = valid_src[ix]
                w = tab.get(d, float("nan")) if k > 1 else 1.0
                pres.append((w, vals[src_i][j], msk[src_i][j], d))
        if k == 1 and pres:
            self.stat("cells_k1")
        wsum = sum(Fraction(w) for w, _, _, _ in pres if w == w and not math.isinf(w)) if pres else Fraction(0)
        finite = all(math.isfinite(x) for _, x, _, _ in pres) and all(math.isfinite(w) for w, _, _, _ in pres)
        contributes = bool(pres) and wsum > 0
        mean = None
        value_ok = True
        underflow = False
        B = 0.0
        mean_re = nm_re = None
        weps = []
        if contributes and finite:
            S = sum(Fraction(w) * Fraction(x) for w, x, _, _ in pres)
            mean = S / wsum
            if k > 1:
                if c["mode"] == "gauss":
                    s = unhex(c["sigmas"][j])
                    weps = [gauss_eps(s, d) for _, _, _, d in pres]
                else:
                    weps = [0.0] * len(pres)
                mean_re, nm_re = run_mean([(w, x) for w, x, _, _ in pres], weps)
                B = 4 * mean_re.e
                scale = float(sum(abs(Fraction(w) * Fraction(x)) for w, x, _, _ in pres) / wsum)
                if not math.isfinite(B):
                    # e.g. the sum of weights is subnormal: no usable bound, value unconstrained (still compared with the model)
                    underflow = True
                    mean = None
                    self.stat("cells_underflow")
                    tolv = 1e300
                else:
                    if B > 1e-6 * scale + 1e-290:
                        self.stat("cells_mean_illconditioned")
                    tolv = 2 * B
        must_mask = any(mm and w > 0 for w, _, mm, _ in pres) and contributes
        may_mask = any(mm for _, _, mm, _ in pres)
        if not contributes:
            self.stat("cells_filled")
            # no neighbour in range (or nothing carries weight): filled or masked
            if fill_none:
                if not m:
                    # the 'undetermined' marker must be the maximum of the dtype the result is stored in
                    sentinel = math.isinf(v) or v in (F64MAX, F32MAX, I32MAX)
                    self.bad("C04.fill.sentinel_dtype" if sentinel else "C04.fill",
                             "%s: no contributing neighbour and fill_value=None, but the result %r is not masked" % (where, v))
            elif not m and not (v == fe):
                key = "C04.fill"
                if v != v and present_row is not None and first_valid is not None and not math.isfinite(vals[first_valid][j]):
                    key = "C04.mean.missing_slot_leak"
                self.bad(key, "%s: no contributing neighbour, expected fill value %r (or masked), got %r" % (where, fe, v))
        else:
            self.stat("cells_mean")
            if must_mask and not m:
                self.bad("C04.mask", "%s: a masked neighbour with positive weight contributes but the result is not masked" % where)
            sing_placeholder = (c["mode"] == "custom" and k > 1 and c["wf"][j][0] in ("sing1", "sing1sq") and len(pres) < nslots)
            if m and not may_mask and not (fill_none and v == fe):
                self.bad("C04.mean.placeholder_weight" if sing_placeholder else "C04.mask",
                         "%s: result masked although no neighbour in range is masked%s" % (
                             where, " (%d neighbour(s) in range, weight function singular at the placeholder distance 1)" % len(pres) if sing_placeholder else ""))
            if not m and mean is not None:
                if not (math.isfinite(v) and abs(Fraction(v) - mean) <= Fraction(B)):
                    key = "C04.mean"
                    if v != v and first_valid is not None and len(pres) < nslots and not math.isfinite(vals[first_valid][j]):
                        key = "C04.mean.missing_slot_leak"
                    elif sing_placeholder:
                        key = "C04.mean.placeholder_weight"
                    value_ok = False
                    self.bad(key, "%s: result %r, but sum(w*x)/sum(w) over the %d neighbours in range %s is %r (bound %.3g)" % (
                        where, v, len(pres), [(w, x) for w, x, _, _ in pres][:8], float(mean), B))
        if (self.ma_plain or self.f32geo) and not finite:
            tolv = float("inf")
            self.stat("cells_value_not_compared")
        if not c["with_uncert"]:
            return "(%s, %s, %s, None)" % ("true" if m else "false", fhex(v), fhex(tolv))
        # ---------------- count / stddev
        sd_is_ma = o["sd"]["mask"] is not None
        cn_is_ma = o["cnt"]["mask"] is not None
        sdv = unhex(o["sd"]["val"][t][j])
        sdm = bool(o["sd"]["mask"][t][j]) if sd_is_ma else False
        cnv = unhex(o["cnt"]["val"][t][j])
        cnm = bool(o["cnt"]["mask"][t][j]) if cn_is_ma else False
        npres = len(pres)
        nnz = sum(1 for w, _, _, _ in pres if w != 0)
        if not sd_is_ma:
            self.bad("C04.stddev.mask", "stddev is not a masked array")
        if cnm != m:
            self.bad("C04.count.mask", "%s: count mask %s differs from result mask %s" % (where, cnm, m))
        if not cnm and cnv not in (float(npres), float(nnz)):
            self.bad("C04.count" + (".k1" if k == 1 else ""), "%s: count %r, but %d neighbours are in range (%d with non-zero weight)" % (where, cnv, npres, nnz))
        tols = 0.0
        if m and not sdm:
            self.bad("C04.stddev.mask", "%s: result masked but stddev is not" % where)
        if not m and value_ok:
            if npres <= 1:
                if not sdm:
                    self.bad("C04.stddev.undefined", "%s: only %d neighbour(s) in range but stddev %r is not masked" % (where, npres, sdv))
            elif nnz <= 1 or not contributes or underflow:
                # >= 2 neighbours in range but at most one carries weight: V1^2 - V2 = 0, the estimator is 0/0 or x/0;
                # the property leaves it undefined (the code yields NaN -> masked, or inf)
                self.stat("cells_sd_degenerate")
                tols = float("inf")
            elif finite and k > 1 and mean is not None:
                ws = [Fraction(w) for w, _, _, _ in pres]
                v1 = sum(ws)
                v2 = sum(w * w for w in ws)
                D = v1 * v1 - v2
                sd_re = run_stddev([(w, x) for w, x, _, _ in pres], weps, mean_re, nm_re)
                E = 4 * sd_re.e
                if D <= 0 or not math.isfinite(E):
                    # V1^2 - V2 cancels completely (or underflows) in binary64: no usable bound, stddev unconstrained
                    self.stat("cells_sd_illconditioned")
                    tols = float("inf")
                else:
                    T = sum(Fraction(w) * (Fraction(x) - mean) ** 2 for w, x, _, _ in pres)
                    var = v1 / D * T
                    varf = float(var)
                    spread = max(abs(float(Fraction(x) - mean)) for _, x, _, _ in pres)
                    if E > 1e-6 * max(math.sqrt(max(varf, 0.0)), spread) + 1e-290:
                        self.stat("cells_sd_illconditioned")     # checked all the same, with the (large) rigorous bound
                    tols = 2 * E
                    self.stat("cells_sd")
                    if sdm:
                        self.bad("C04.stddev.undefined", "%s: %d contributing neighbours but stddev is masked" % (where, nnz))
                    else:
                        ok = math.isfinite(sdv) and sdv >= 0
                        if ok:
                            lo, hi = Fraction(sdv) - Fraction(E), Fraction(sdv) + Fraction(E)
                            ok = (lo <= 0 or var >= lo * lo) and var <= hi * hi
                        if not ok:
                            self.bad("C04.stddev", "%s: stddev %r, documented estimator sqrt(V1/(V1^2-V2)*sum(w (x-mean)^2)) gives %r (bound %.3g)" % (
                                where, sdv, math.sqrt(max(varf, 0.0)), E))
        if tols == float("inf"):
            tols = 1e300
        if (self.ma_plain or self.f32geo) and (not finite or tols == 1e300):
            # not compared (Model/C04_run.v skip): numpy.ma arithmetic, or float32 arithmetic in a cell the property leaves
            # unconstrained (0/0 estimator, non-finite data), where binary32 and the binary64 model may differ in NaN vs inf
            tols = float("inf")
            self.stat("cells_sd_not_compared")
        return "(%s, %s, %s, Some (%s, %s, %s, %d, %s))" % (
            "true" if m else "false", fhex(v), fhex(tolv), "true" if sdm else "false", fhex(sdv), fhex(tols),
            int(cnv) if cnv == cnv and abs(cnv) < 1e9 and cnv == int(cnv) else -1, "true" if cnm else "false")


HDR = ("From Coq Require Import ZArith List Bool PrimFloat.\nFrom PR Require Import Base.F64 Base.ListX Model.Weights Model.C04_run.\n"
       "Import ListNotations.\nOpen Scope Z_scope.\n")


def slim(c):
    return {k: v for k, v in c.items()}


def evaluate(ctx, cases, record=True):
    """impl + oracle on all cases. Returns list of Judge."""
    obs = ctx.impl("c04", {"cases": cases}, timeout=1500)["cases"]
    judges = []
    for c, o in zip(cases, obs):
        j = Judge(c, o)
        try:
            j.run()
        except Exception as e:  # malformed observation: reported as a harness-level problem on this case
            j.fail.append(("C04.observation", "cannot interpret the implementation's output: %r" % (e,)))
        judges.append(j)
    return judges


def run(ctx):
    ctx.rule = ("PRNG cases in four streams (regular / radius on a neighbour distance / non-finite data incl. the first valid source and "
                "NaN under the mask / no valid input or output): source swath 1x1..5x6 or small laea/eqc/stere area, target swath or area "
                "at 10 centres incl. poles and antimeridian, k in 1..8 (also k > number of sources), gauss sigmas per channel or custom "
                "weight functions (dyadic bins with a zero range, 1/(1+(d/p)^2), linear-to-zero, scalar constant incl. 0, zero-near, all-zero, and p/d, p/d^2, 1/(d+tiny) singular or huge at 0 on geometries without coincident points), "
                "float64/float32/int32 data, 1..3 channels, masked data, fill number/None, with_uncert, reduce_data, segments, "
                "non-default epsilon > 0 (on <= 12 sources, where the kd-tree search stays exhaustive), data and coordinate arrays in C / Fortran / "
                "transposed-view / strided / negative-stride memory layout (each non-C call is also compared with the C-contiguous call), "
                "NaN in one of two paired coordinates, radius as int, float32 source / target swath coordinates in all combinations with "
                "float32 / float64 / int32 data (float32 geometry makes the kd-tree, distances, weights and - with float32 data - the sums float32). "
                "A case is non-trivial when at least one output cell is a weighted mean of >= 2 present neighbours AND at least one slot is "
                "missing or at least one cell is filled; distinct = distinct (geometry, data, parameters) inputs")
    cases = gen_cases(ctx)
    judges = evaluate(ctx, cases)
    texts, cur, cur_ids = [], [], []
    for i, (c, j) in enumerate(zip(cases, judges)):
        o = j.o
        kind = "%s/%s" % (c["mode"], "k1" if c["k"] == 1 else "k>1")
        ctx.count(kind)
        ctx.count("stream:" + c["stream"])
        ctx.count("k=%d" % c["k"])
        ctx.count("data_layout:" + c["layout"])
        ctx.count("coord_layout:" + c["coord_layout"])
        if unhex(c["epsilon"]) > 0:
            ctx.count("epsilon>0")
        if c["radius_int"]:
            ctx.count("radius_as_int")
        ctx.count("geometry:src_%s/tgt_%s/data_%s" % ("f32" if c["src_f32"] else "f64", "f32" if c["tgt_f32"] else "f64", c["dtype"]))
        if c["mode"] == "custom" and any(w[0] in ("invd", "invd2", "invdt") for w in c["wf"]):
            ctx.count("wf_singular_at_0")
        if c["mode"] == "custom" and any(w[0] in ("sing1", "sing1sq") for w in c["wf"]):
            ctx.count("wf_singular_at_placeholder_1")
        ctx.count("dtype:" + c["dtype"])
        if c["mask"] is not None:
            ctx.count("masked_input")
        if c["with_uncert"]:
            ctx.count("with_uncert")
        for kk, vv in j.stats.items():
            ctx.count(kk, vv)
        nontriv = False
        if "error" not in o and not j.fail:
            nv = sum(o["valid_in"])
            multi = any(sum(1 for ix in row if ix != nv) >= 2 for row in o["index"]) and c["k"] > 1
            holes = any(ix == nv for row in o["index"] for ix in row) or j.stats.get("cells_filled", 0) > 0
            nontriv = multi and holes
        ctx.count("src:%s/tgt:%s" % (c["src"]["kind"], c["tgt"]["kind"]))
        ctx.count("channels=%d" % c["C"])
        ctx.count("fill:" + ("None" if c["fill"] is None else "number"))
        if c["reduce_data"]:
            ctx.count("reduce_data")
        if c["segments"]:
            ctx.count("segments=2")
        if c["mode"] == "custom":
            for w in c["wf"]:
                ctx.count("wf:" + w[0])
        else:
            ctx.count("wf:gauss", max(c["C"], 1))
        if "error" not in o:
            if not all(o["valid_in"]):
                ctx.count("some_source_invalid_or_reduced")
            if not all(o["valid_out"]):
                ctx.count("some_target_invalid")
            if c["k"] > sum(o["valid_in"]):
                ctx.count("k_exceeds_valid_sources")
        ctx.case(("c04", repr(c)), nontrivial=nontriv,
                 sample={c["stream"]: {kk: c[kk] for kk in ("k", "mode", "dtype", "C", "fill", "with_uncert", "reduce_data")},
                         "weights": c.get("sigmas") and [unhex(x) for x in c["sigmas"]] or [[w[0], unhex(w[1])] for w in c.get("wf", [])],
                         "geometry": "%s %s -> %s %s" % (c["src"]["kind"], len(o.get("src_lonlat", [])), c["tgt"]["kind"], len(o.get("tgt_lonlat", []))),
                         "radius_m": unhex(c["radius"]), "masked_input": c["mask"] is not None,
                         "index_rows": o.get("index", [])[:3],
                         "distance_rows": [[round(unhex(x), 3) if unhex(x) != float("inf") else "inf" for x in row] for row in o.get("dist", [])[:3]],
                         "result": [[unhex(x) for x in row] for row in o.get("res", {}).get("val", [])[:3]],
                         "result_mask": (o.get("res", {}).get("mask") or [])[:3],
                         "count": [[unhex(x) for x in row] for row in o.get("cnt", {}).get("val", [])[:3]] if "cnt" in o else None})
        for key, what in j.fail:
            ctx.add_failure(key, what, {"case": c})
        if hasattr(j, "coq"):
            cur.append(j.coq)
            cur_ids.append(i)
            if len(cur) >= 40:
                texts.append((cur, cur_ids))
                cur, cur_ids = [], []
    if cur:
        texts.append((cur, cur_ids))
    named = []
    for n, (lits, ids) in enumerate(texts):
        named.append(("c04_cases_%03d" % n, HDR + "Definition cases : list xcase := [\n%s].\n"
                      "Eval vm_compute in (bad chk_case cases).\nEval vm_compute in (bad chk_case_exact cases).\n" % ";\n".join(lits)))
    res = ctx.coq_eval_many(named, timeout=900)
    n_inexact = 0
    n_cmp = 0
    for (name, _), (lits, ids) in zip(named, texts):
        out, ok = res[name]
        if not ok:
            ctx.broken.append(("correspondence:weights", "model evaluation failed (%s): %s" % (name, out[-300:])))
            continue
        ev = evals(out)
        import re
        bad = [int(x) for x in re.findall(r"-?\d+", re.sub(r"%[a-zA-Z]+", "", ev[0]))]
        inexact = [int(x) for x in re.findall(r"-?\d+", re.sub(r"%[a-zA-Z]+", "", ev[1]))]
        n_inexact += len(inexact)
        n_cmp += len(ids)
        if bad:
            c = cases[ids[bad[0]]]
            ctx.broken.append(("correspondence:weights", "model and implementation differ on %d of %d cases, e.g. case %d: %s" % (
                len(bad), len(ids), ids[bad[0]], {kk: c[kk] for kk in ("k", "mode", "dtype", "C", "fill", "with_uncert", "stream")})))
    ctx.traces = n_cmp
    ctx.notes.append("correspondence: %d calls compared with the binary64 model; %d of them not bit-for-bit (accepted only within "
                     "2x the running error bound; float32 source geometry runs the sums in float32 arithmetic)" % (n_cmp, n_inexact))
    ctx.count("calls_bit_exact", n_cmp - n_inexact)


def replay(ctx, data):
    c = data["case"]["case"]
    j = evaluate(ctx, [c])[0]
    for key, what in j.fail:
        print("  still failing: %s: %s" % (key, what))
    return bool(j.fail)
