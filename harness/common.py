"""Shared machinery of the checks: regenerate + build Coq, run the implementation, evaluate the
model inside Coq, classify failures against known findings, write evidence, print the verdict."""
from __future__ import annotations

import fcntl
import hashlib
import json
import os
import random
import re
import subprocess
import sys
import time

VERIF = os.path.dirname(os.path.dirname(os.path.abspath(__file__)))
REPO = os.environ.get("VERIF_REPO", "/repo")
# VERIF_COQ_DIR / VERIF_BUILD_DIR / VERIF_EVIDENCE_DIR: private copies for runs against ANOTHER tree (tools/seed_run.py), so that
# regenerating Gen/ for a patched worktree never disturbs checks of /repo running at the same time, nor their evidence files
COQ = os.environ.get("VERIF_COQ_DIR") or os.path.join(VERIF, "coq")
BUILD = os.environ.get("VERIF_BUILD_DIR") or os.path.join(VERIF, "build")
EVIDENCE = os.environ.get("VERIF_EVIDENCE_DIR") or os.path.join(VERIF, "evidence")
PY = "/venv/bin/python"
NPROC = 16

sys.path.insert(0, os.path.join(VERIF, "tools"))

ALLOWED_AXIOMS = {
    # declared by Coq's standard library (Reals / FunctionalExtensionality / Classical)
    "ClassicalDedekindReals.sig_forall_dec", "ClassicalDedekindReals.sig_not_dec",
    "FunctionalExtensionality.functional_extensionality_dep",
    "Classical_Prop.classic",
}
FORBIDDEN = re.compile(r"\b(Admitted|admit|Axiom|Axioms|Parameter|Parameters|Conjecture|Conjectures|Hypothesis|Hypotheses|Variable|Variables)\b"
                       r"|Unset\s+Guard|Unset\s+Positivity|Unset\s+Universe|bypass_check|type-in-type|impredicative-set|Admit\s+Obligations")

TRUSTED_BASE = [
    "Coq 8.16.1 kernel incl. vm_compute and primitive PrimFloat/Uint63 (no native_compute)",
    "stdlib axioms only, as printed by Print Assumptions (Reals: ClassicalDedekindReals.sig_forall_dec, sig_not_dec, "
    "FunctionalExtensionality.functional_extensionality_dep; Classical_Prop.classic via Flocq) - none declared by this development",
    "translators tools/py2coq.py and tools/py2coq_imp.py (imperative front end over coq/Base/Imp.v), with tools/py2coq_c15.py and harness/c20_gen.py (all fail-closed Python-ast -> Gallina; spec-declared patterns and primitives are trusted readings) for the regenerated definitions in coq/Gen",
    "correspondence harness (Python side transmits inputs/outputs faithfully; float.hex literals <-> Coq hex float literals)",
    "IEEE gap: theorems are over R (or Z/lists); code runs binary64/float32; matched bit-exactly where modelled",
    "external engines are oracles, not verified: PROJ/pyproj, pykdtree/scipy kd-tree, shapely, libm, sha1, PyYAML, dask/xarray plumbing",
    "no extraction is used",
]


def env_impl(extra=None):
    e = dict(os.environ)
    e.update({"PYTHONPATH": REPO, "PYTHONHASHSEED": "0", "OMP_NUM_THREADS": "1", "NUMEXPR_NUM_THREADS": "1",
              "OPENBLAS_NUM_THREADS": "1", "MKL_NUM_THREADS": "1", "PYRESAMPLE_VERIF": "1",
              "PYTHONWARNINGS": "ignore", "PYTHONDONTWRITEBYTECODE": "1"})
    if extra:
        e.update(extra)
    return e


class Failure:
    def __init__(self, key, what, replay=None, concrete=True):
        self.key, self.what, self.replay, self.concrete = key, what, replay or {}, concrete


class Ctx:
    def __init__(self, pid, tier="quick", seed=0):
        self.pid, self.tier, self.seed = pid, tier, int(seed)
        self.rng = random.Random(self.seed * 1000003 + int(pid[1:]))
        self.t0 = time.time()
        # one scratch directory per process, so two runs of the same property never share case files
        self.rundir = os.path.join(BUILD, "run", "%s_%d" % (pid, os.getpid()))
        os.makedirs(self.rundir, exist_ok=True)
        import atexit, shutil
        atexit.register(lambda d=self.rundir: shutil.rmtree(d, ignore_errors=True))
        os.makedirs(EVIDENCE, exist_ok=True)
        os.makedirs(os.path.join(VERIF, "replays"), exist_ok=True)
        self.broken = []        # obligations / correspondences that no longer check: (name, detail)
        self.failures = []      # concrete failing inputs found on the implementation (Failure)
        self.evaluations = 0
        self.distinct = set()
        self.samples = []
        self._sample_kinds = {}
        self.hist = {}
        self.obligations = 0
        self.discharged = 0
        self.checker_cmds = []
        self.assumptions_seen = {}
        self.notes = []
        self.exhaustive = False
        self.rule = ""
        self.traces = 0

    thorough = property(lambda self: self.tier == "thorough")

    def n(self, quick, thorough):
        return thorough if self.thorough else quick

    def count(self, label, k=1):
        self.hist[label] = self.hist.get(label, 0) + k

    def case(self, canon, nontrivial=True, sample=None):
        """Record one evaluated case; canon is any hashable canonical form."""
        self.evaluations += 1
        if nontrivial:
            self.distinct.add(hashlib.sha1(repr(canon).encode()).hexdigest())
        if sample is not None and nontrivial:
            kind = next(iter(sample)) if isinstance(sample, dict) and sample else "case"
            k = self._sample_kinds.get(kind, 0)
            if k < 2 and len(self.samples) < 16:
                self._sample_kinds[kind] = k + 1
                self.samples.append(sample)

    # ------------------------------------------------------------------ Coq side
    def regen(self, modules):
        """Re-run the translator for the named Gen modules against the current /repo tree."""
        import py2coq
        specs = load_gen_specs()
        ok = True
        with BuildLock():
            for m in modules:
                path = os.path.join(COQ, "Gen", m + ".v")
                try:
                    text = py2coq.translate_module(REPO, m, specs[m])
                except Exception as e:  # Untranslatable or a syntax error in the source
                    ok = False
                    self.broken.append(("translator:" + m, "py2coq cannot translate the current source: %s" % e))
                    text = "(* translation failed: %s *)\nDefinition translation_failed : False := I.\n" % str(e).replace("*)", "* )")
                old = open(path).read() if os.path.exists(path) else None
                if old != text:
                    with open(path, "w") as f:
                        f.write(text)
        return ok

    def build(self, targets, timeout=900):
        """make the given .vo targets (and what they depend on). Returns True iff all built."""
        with BuildLock():
            ensure_makefile()
            cmd = ["make", "-f", "Makefile.coq", "-j%d" % NPROC, "-k"] + targets
            self.checker_cmds.append("cd coq && coq_makefile -f _CoqProject <all .v> -o Makefile.coq && " + " ".join(cmd))
            p = subprocess.run(["timeout", str(timeout)] + cmd, cwd=COQ, capture_output=True, text=True)
            ok = p.returncode == 0
            log = (p.stdout + p.stderr)
        if not ok:
            errs = re.findall(r'File "\./([^"]+)", line (\d+)[^\n]*\n((?:(?!File ")[^\n]*\n){0,8})', log)
            seen = set()
            for f, line, msg in errs:
                if f in seen:
                    continue
                seen.add(f)
                self.broken.append(("proof:" + f, "coqc fails at %s line %s: %s" % (f, line, " ".join(msg.split())[:400])))
            if not errs:
                self.broken.append(("proof:build", "make failed: " + log[-600:]))
        return ok

    def closure(self, prop_file):
        """Property file + the Proofs/Gen/Model files it (transitively) requires."""
        seen, todo = [], [prop_file]
        while todo:
            f = todo.pop()
            if f in seen or not os.path.exists(os.path.join(COQ, f)):
                continue
            seen.append(f)
            src = open(os.path.join(COQ, f)).read()
            for m in re.finditer(r"From PR Require (?:Import|Export)([^.]*(?:\.[A-Za-z_][^.]*)*)\.\s", src):
                for name in m.group(1).split():
                    todo.append(name.replace(".", "/") + ".v")
        return seen

    def obligations_of(self, prop_file):
        """Count statements (obligations) and how many sit in files whose .vo is up to date (discharged)."""
        files = self.closure(prop_file)
        stmt = re.compile(r"^\s*(?:Theorem|Lemma|Corollary|Example|Fact|Proposition)\s+([A-Za-z_][A-Za-z0-9_']*)", re.M)
        names_prop = []
        for f in files:
            src = open(os.path.join(COQ, f)).read()
            for mm in FORBIDDEN.finditer(strip_comments(src)):
                bad = mm.group(0)
                if bad in ("Variable", "Variables", "Hypothesis", "Hypotheses") and inside_section_only(src):
                    continue
                self.broken.append(("gate:" + f, "forbidden vernacular %r" % bad))
                break
            names = stmt.findall(src)
            if not (f.startswith("Proofs/") or f.startswith("Properties/")):
                continue
            self.obligations += len(names)
            vo = os.path.join(COQ, f[:-2] + ".vo")
            if os.path.exists(vo) and os.path.getmtime(vo) >= os.path.getmtime(os.path.join(COQ, f)):
                self.discharged += len(names)
            if f == prop_file:
                names_prop = [n for n in re.findall(r"^\s*Theorem\s+([A-Za-z_][A-Za-z0-9_']*)", src, re.M)]
        return names_prop

    def check_assumptions(self, prop_module, theorems):
        text = "From PR Require Import %s.\n" % prop_module
        for t in theorems:
            text += 'Goal True. idtac "@@ %s". exact I. Qed.\nPrint Assumptions %s.\n' % (t, t)
        out, ok = self.coqc("assumptions", text, timeout=300)
        if not ok:      # a concurrent rebuild (another check regenerating Gen/ for another tree) can leave .vo files inconsistent
            with BuildLock():
                out, ok = self.coqc("assumptions", text, timeout=300)
        if not ok:
            self.broken.append(("assumptions:" + prop_module, out[-400:]))
            return
        cur = None
        in_axioms = False
        for line in out.splitlines():
            if line.startswith("@@ "):
                cur = line[3:].strip()
                self.assumptions_seen[cur] = []
                in_axioms = False
            elif line.startswith("Axioms:"):
                in_axioms = True
            elif line.startswith("Closed under"):
                in_axioms = False
            elif cur and in_axioms:
                # an axiom is printed at column 0 as `Name : type` or as `Name` with `  : type` on the next line(s)
                m = re.match(r"^([A-Za-z_][\w.']*)\s*(:|$)", line)
                if not m:
                    continue
                ax = m.group(1)
                self.assumptions_seen[cur].append(ax)
        # every reported axiom/primitive must be a constant of Coq's own standard library (logical path Coq.*)
        names = sorted({a for l in self.assumptions_seen.values() for a in l})
        if names:
            text2 = "From PR Require Import %s.\n" % prop_module + "".join("Locate %s.\n" % a for a in names)
            out2, ok2 = self.coqc("assumptions_locate", text2, timeout=300)
            if not ok2:
                with BuildLock():
                    out2, ok2 = self.coqc("assumptions_locate", text2, timeout=300)
            if not ok2:     # never blame the axioms for a failed lookup
                self.broken.append(("assumptions:" + prop_module, "Locate of the reported assumptions failed: " + out2[-300:]))
                return
            paths = re.findall(r"^(?:Constant|Inductive|Axiom)\s+(\S+)", out2, re.M)
            full = {}
            for a in names:
                cands = [q for q in paths if q == a or q.endswith("." + a.split(".")[-1])]
                full[a] = sorted(set(cands))
            self.axiom_paths = full
            for thm, axs in self.assumptions_seen.items():
                for a in axs:
                    if not full.get(a) or not all(q.startswith("Coq.") for q in full[a]):
                        self.broken.append(("assumptions:" + thm, "theorem depends on %s (%s), which is not a standard-library constant" % (a, full.get(a))))

    def prove(self, prop_file, gen_modules=(), extra_targets=()):
        """Steps 1-2 of a check: regenerate, rebuild, gate, assumptions. Returns True iff all obligations hold."""
        n0 = len(self.broken)
        if gen_modules:
            self.regen(list(gen_modules))
        built = self.build([prop_file[:-2] + ".vo"] + [t[:-2] + ".vo" for t in extra_targets])
        theorems = self.obligations_of(prop_file)
        if built:
            self.check_assumptions("Properties." + os.path.basename(prop_file)[:-2], theorems)
        else:
            self.discharged = min(self.discharged, max(self.obligations - 1, 0))
        self.theorems = theorems
        if built and self.thorough and not os.environ.get("VERIF_NO_COQCHK"):
            self.run_coqchk("PR.Properties." + os.path.basename(prop_file)[:-2])
        return len(self.broken) == n0

    def run_coqchk(self, module, timeout=1500):
        """Thorough tier: re-check the compiled property file and everything it depends on with the independent checker."""
        t0 = time.time()
        p = subprocess.run(["timeout", str(timeout), "coqchk", "-silent", "-o", "-R", COQ, "PR", module], capture_output=True, text=True)
        out = p.stdout + p.stderr
        info = {"module": module, "rc": p.returncode, "wall_s": round(time.time() - t0, 1)}
        m = re.search(r"\* Axioms:(.*?)\n\s*\n\* Constants/Inductives relying on type-in-type:(.*?)\n\s*\n\* Constants/Inductives relying on unsafe \(co\)fixpoints:(.*?)\n\s*\n\* Inductives whose positivity is assumed:(.*?)\n", out, re.S)
        if m:
            info["axioms"] = [x.strip() for x in m.group(1).strip().splitlines() if x.strip() and x.strip() != "<none>"]
            info["type_in_type"], info["unsafe_fix"], info["positivity_assumed"] = (m.group(i).strip() for i in (2, 3, 4))
            for k in ("type_in_type", "unsafe_fix", "positivity_assumed"):
                if info[k] != "<none>":
                    self.broken.append(("coqchk:" + module, "%s: %s" % (k, info[k][:200])))
            for ax in info["axioms"]:
                if not ax.startswith("Coq."):
                    self.broken.append(("coqchk:" + module, "axiom outside the standard library: %s" % ax))
        elif p.returncode == 124:
            self.notes.append("coqchk timed out after %ds (not a failure of the check)" % timeout)
        elif p.returncode != 0:
            self.broken.append(("coqchk:" + module, out[-400:]))
        self.coqchk = info

    def coqc(self, name, text, timeout=600):
        path = os.path.join(self.rundir, name + ".v")
        with open(path, "w") as f:
            f.write(text)
        p = subprocess.run(["timeout", str(timeout), "coqc", "-R", COQ, "PR", "-w", "none", path], cwd=self.rundir,
                           capture_output=True, text=True)
        for ext in (".vo", ".vok", ".vos", ".glob"):
            try:
                os.remove(path[:-2] + ext)
            except OSError:
                pass
        try:
            os.remove(os.path.join(self.rundir, "." + name + ".aux"))
        except OSError:
            pass
        return p.stdout + p.stderr, p.returncode == 0

    def coq_eval_many(self, named_texts, timeout=600):
        """Run several case files in parallel. Returns {name: (output, ok)}."""
        from concurrent.futures import ThreadPoolExecutor
        with ThreadPoolExecutor(max_workers=NPROC) as ex:
            futs = {n: ex.submit(self.coqc, n, t, timeout) for n, t in named_texts}
            return {n: f.result() for n, f in futs.items()}

    # ------------------------------------------------------------------ implementation side
    def impl(self, script, payload, timeout=900, extra_env=None):
        """Run harness/impl/<script>.py on the real pyresample in a subprocess; JSON in, JSON out."""
        path = os.path.join(VERIF, "harness", "impl", script + ".py")
        p = subprocess.run(["timeout", str(timeout), PY, path], input=json.dumps(payload), capture_output=True,
                           text=True, env=env_impl(extra_env), cwd=self.rundir)
        if p.returncode != 0:
            raise ImplCrash("implementation driver %s failed (rc=%s): %s" % (script, p.returncode, p.stderr[-1500:]))
        return json.loads(p.stdout)

    # ------------------------------------------------------------------ verdict
    def add_failure(self, key, what, replay, concrete=True):
        self.failures.append(Failure(key, what, replay, concrete))

    def finish(self, level="proof"):
        known = load_known(self.pid)
        lines, nviol = [], 0
        reported_known = set()
        new_fail = []
        for f in self.failures:
            k = known.get(f.key)
            if k is not None:
                if f.key not in reported_known:
                    reported_known.add(f.key)
                    lines.append("KNOWN-FINDING: property=%s %s :: %s" % (self.pid, f.key, k))
            else:
                new_fail.append(f)
        seen_keys = set()
        for f in new_fail:
            if f.key in seen_keys:
                continue
            seen_keys.add(f.key)
            nviol += 1
            path = self.write_replay({"property": self.pid, "kind": "input", "key": f.key, "what": f.what,
                                      "case": f.replay, "broken": [list(b) for b in self.broken]})
            lines.append("VIOLATION property=%s replay=%s" % (self.pid, path))
            sys.stderr.write("  %s: %s\n" % (f.key, f.what))
        if self.broken and not new_fail:
            # a proof obligation or a correspondence no longer checks, and the search found no (new) failing input
            nviol += 1
            path = self.write_replay({"property": self.pid, "kind": "obligation",
                                      "no_longer_checks": [{"name": b[0], "detail": b[1]} for b in self.broken],
                                      "note": "no failing input found by the search; the property is no longer shown to hold"})
            lines.append("VIOLATION property=%s replay=%s no-failing-input-found" % (self.pid, path))
        for b in self.broken:
            sys.stderr.write("  no longer checks: %s: %s\n" % (b[0], b[1][:300]))
        self.write_evidence(level, nviol)
        for ln in lines:
            print(ln)
        if not nviol:
            print("OK property=%s tier=%s obligations=%d/%d evaluations=%d distinct=%d wall=%.1fs" % (
                self.pid, self.tier, self.discharged, self.obligations, self.evaluations, len(self.distinct),
                time.time() - self.t0))
        sys.stdout.flush()
        return 1 if nviol else 0

    def write_replay(self, data):
        h = hashlib.sha1(json.dumps(data, sort_keys=True, default=str).encode()).hexdigest()[:12]
        path = os.path.join(VERIF, "replays", "%s-%s.json" % (self.pid, h))
        with open(path, "w") as f:
            json.dump(data, f, indent=1, sort_keys=True, default=str)
        return path

    def write_evidence(self, level, nviol):
        if self.broken:
            self.discharged = min(self.discharged, max(self.obligations - 1, 0))
        cov = {
            "obligations": self.obligations, "discharged": self.discharged,
            "checker_cmd": " ; ".join(dict.fromkeys(self.checker_cmds)) or "make -f Makefile.coq",
            "trusted_base": TRUSTED_BASE,
            "evaluations": self.evaluations, "distinct_nontrivial": len(self.distinct),
            "rule": self.rule, "samples": self.samples or [{"note": "no case evaluated"}],
            "exhaustive": self.exhaustive,
            "traces_validated_against_impl": self.traces,
            "input_distribution": self.hist,
            "print_assumptions": self.assumptions_seen,
            "axiom_paths": getattr(self, "axiom_paths", {}),
            "coqchk": getattr(self, "coqchk", None),
            "theorems": getattr(self, "theorems", []),
            "no_longer_checks": [list(b) for b in self.broken],
            "notes": self.notes,
        }
        ev = {"property_id": self.pid, "tier": self.tier, "seed": self.seed, "level": level, "coverage": cov,
              "assumptions": TRUSTED_BASE + self.notes, "wall_s": round(time.time() - self.t0, 2), "violations": nviol}
        with open(os.path.join(EVIDENCE, self.pid + ".json"), "w") as f:
            json.dump(ev, f, indent=1, default=str)


class ImplCrash(Exception):
    pass


class BuildLock:
    def __enter__(self):
        os.makedirs(BUILD, exist_ok=True)
        self.f = open(os.path.join(BUILD, ".lock"), "w")
        fcntl.flock(self.f, fcntl.LOCK_EX)

    def __exit__(self, *a):
        fcntl.flock(self.f, fcntl.LOCK_UN)
        self.f.close()


def load_gen_specs():
    d = os.path.join(VERIF, "tools", "gen_specs")
    return {f[:-5]: json.load(open(os.path.join(d, f))) for f in sorted(os.listdir(d)) if f.endswith(".json")}


def all_v_files():
    out = []
    for d in ("Base", "Model", "Gen", "Proofs", "Properties"):
        p = os.path.join(COQ, d)
        if os.path.isdir(p):
            out += sorted(os.path.join(d, f) for f in os.listdir(p) if f.endswith(".v"))
    return out


def ensure_makefile():
    files = all_v_files()
    stamp = os.path.join(COQ, ".files")
    cur = "\n".join(files)
    if not os.path.exists(os.path.join(COQ, "Makefile.coq")) or not os.path.exists(stamp) or open(stamp).read() != cur:
        subprocess.run(["coq_makefile", "-f", "_CoqProject"] + files + ["-o", "Makefile.coq"], cwd=COQ, check=True,
                       capture_output=True)
        open(stamp, "w").write(cur)


def strip_comments(src):
    out, depth, i = [], 0, 0
    while i < len(src):
        if src.startswith("(*", i):
            depth += 1
            i += 2
        elif src.startswith("*)", i) and depth:
            depth -= 1
            i += 2
        else:
            if not depth:
                out.append(src[i])
            i += 1
    return "".join(out)


def inside_section_only(src):
    """True iff every Variable/Hypothesis/Context occurs between Section ... End."""
    depth = 0
    for line in strip_comments(src).splitlines():
        s = line.strip()
        if re.match(r"^Section\b", s):
            depth += 1
        elif re.match(r"^End\b", s) and depth:
            depth -= 1
        elif re.match(r"^(Variable|Variables|Hypothesis|Hypotheses)\b", s) and depth == 0:
            return False
    return True


def load_known(pid):
    """known_findings.txt: 'known: property=C03 key=<key> <what fails>' suppress; 'fixed:' lines suppress nothing."""
    out = {}
    path = os.path.join(VERIF, "known_findings.txt")
    if os.path.exists(path):
        for line in open(path):
            m = re.match(r"^known:\s+property=(\S+)\s+key=(\S+)\s+(.*)$", line.strip())
            if m and m.group(1) == pid:
                out[m.group(2)] = m.group(3)
    return out


def ints(text):
    """All integers in the value printed by the last `Eval` of a coqc output."""
    m = re.findall(r"^\s*=\s(.*?)^\s*:\s", text, re.S | re.M)
    if not m:
        raise ValueError("no Eval result in coqc output: " + text[-500:])
    return [int(x) for x in re.findall(r"-?\d+", re.sub(r"%[a-zA-Z]+", "", m[-1]))]


def evals(text):
    """All `= value : type` blocks of a coqc output, whitespace-collapsed."""
    return [" ".join(v.split()) for v in re.findall(r"^\s*=\s(.*?)^\s*:\s", text, re.S | re.M)]


def zlit(n):
    return "(%d)" % n


def zlist(l):
    return "[" + "; ".join(zlit(x) for x in l) + "]"


def fhex(x):
    """A Python float as a Coq primitive-float literal."""
    x = float(x)
    if x != x:
        return "nan"
    if x == float("inf"):
        return "infinity"
    if x == float("-inf"):
        return "neg_infinity"
    h = x.hex()
    if h.startswith("-"):
        return "(-%s)%%float" % h[1:]
    return "(%s)%%float" % h
