"""C05 — the dask/xarray nearest-neighbour resamplers agree with the numpy reference for every chunking.

run(ctx): PRNG geometry pairs x data layouts x masks -> driver impl/c05.py once per PYTROLL_CHUNK_SIZE in {1,2,3,7,4096}
(one subprocess each; the variable is read at import) ->
  (1) property oracle on the implementation (independent brute force over chord distances, tie / radius-boundary aware):
      every result element of XArrayResamplerNN and KDTreeNearestXarrayResampler is the value of a nearest valid unmasked
      source pixel within the radius or the fill value; equals kd_tree.resample_nearest wherever the nearest source is
      unique; identical across chunk sizes and across arbitrary (ragged, 1-element) target chunkings; dims, sizes of
      non-geo dims, dtype, attrs preserved;
  (1b) histories: ONE resampler instance reused for 2-4 successive calls with different masks / data carrying the same
      explicit DataArray name, and several lazy results sharing target and radius evaluated in ONE dask.compute: every
      result (stand-alone and joint) must be the numpy result for its own mask/source (purity of the pipeline);
  (2) correspondence with Model/Blockwise.v inside Coq: query_no_distance on one block, the blockwise assembly for the
      implementation's own chunk tuples (from the per-pixel kd-tree answers of one unchunked query), the _my_index gather,
      the numpy pipeline, and the dimension bookkeeping.
"""
import math
import re
import struct
import sys
import time
from concurrent.futures import ThreadPoolExecutor

from .common import fhex, ints

PROP_FILE = "Properties/C05.v"
GEN = ["GenC05", "GenC05imp"]
RUN_FILES = ["Model/C05_run.v", "Model/C05_run_gen.v", "Model/C05_imp_run.v"]

R_EARTH = 6370997.0
NAN, INF = float("nan"), float("inf")
CHUNK_SIZES = [4096, 7, 3, 2, 1]
INT_RANGE = {"int16": (-2 ** 15, 2 ** 15 - 1), "uint8": (0, 255), "int32": (-2 ** 31, 2 ** 31 - 1), "int64": (-2 ** 63, 2 ** 63 - 1)}
BAD_LON = [200.0, 180.00000000000003, -180.5, NAN, INF, 1e30]
BAD_LAT = [90.00000000000001, -91.0, NAN, -INF, 1e30]
NAN_CODE = -(2 ** 70)


# ------------------------------------------------------------------------------------------ generators
def wrap(lon):
    return ((lon + 180.0) % 360.0) - 180.0


def compositions(r, n, style):
    """A chunk tuple for an axis of length n."""
    if n == 0:
        return [0]
    if style == "one":
        return [n]
    if style == "ones":
        return [1] * n
    if style == "regular":
        c = r.randint(1, max(1, n))
        return [c] * (n // c) + ([n % c] if n % c else [])
    out = []
    left = n
    while left > 0:
        c = r.choice([1, 1, 2, 3, r.randint(1, left)])
        c = min(c, left)
        out.append(c)
        left -= c
    return out


def chunk_tuple(r, shape, maxblocks=None):
    for _ in range(20):
        ch = [compositions(r, n, r.choice(["one", "ones", "regular", "ragged", "ragged"])) for n in shape]
        nb = 1
        for c in ch:
            nb *= len(c)
        if maxblocks is None or nb <= maxblocks:
            return ch
    return [[n] for n in shape]


def area_spec(r, centre, half_m, h, w):
    lon0, lat0 = centre
    fams = ["laea", "eqc", "longlat"] + (["stere"] if abs(lat0) > 50 else ["merc"])
    fam = r.choice(fams)
    a = r.uniform(0.6, 1.0)
    if fam == "laea":
        proj = "+proj=laea +lat_0=%r +lon_0=%r +ellps=WGS84" % (lat0, lon0)
        ext = [-half_m, -half_m * a, half_m * a, half_m]
    elif fam == "stere":
        proj = "+proj=stere +lat_0=%d +lat_ts=%d +lon_0=%r +ellps=WGS84" % (90 if lat0 > 0 else -90, 60 if lat0 > 0 else -60, lon0)
        # centred near the pole side of the region
        cy = (90 - abs(lat0)) * 111e3
        sgn = -1 if lat0 > 0 else 1
        ext = [-half_m, sgn * cy - half_m, half_m, sgn * cy + half_m]
    elif fam == "merc":
        proj = "+proj=merc +lon_0=%r +ellps=WGS84" % (lon0,)
        y0 = 6378137.0 * math.log(math.tan(math.pi / 4 + math.radians(max(-75, min(75, lat0))) / 2))
        ext = [-half_m, y0 - half_m, half_m, y0 + half_m * a]
    elif fam == "eqc":
        proj = "+proj=eqc +lon_0=%r +ellps=WGS84" % (lon0,)
        y0 = lat0 * 111319.49
        ext = [-half_m, max(y0 - half_m, -9.9e6), half_m, min(y0 + half_m, 9.9e6)]
    else:
        proj = "+proj=longlat +datum=WGS84"
        dd = half_m / 111e3
        f = min(1.0 / max(math.cos(math.radians(lat0)), 0.05), 20.0)
        ext = [lon0 - dd * f, max(-90.0, lat0 - dd), lon0 + dd * f, min(90.0, lat0 + dd)]  # may cross +-180 (invalid lons)
        if ext[1] >= ext[3]:
            ext[1] = ext[3] - 1.0
    if r.random() < 0.15:    # flipped (south-up)
        ext = [ext[0], ext[3], ext[2], ext[1]]
    return {"kind": "area", "proj": proj, "w": w, "h": h, "extent": ext, "fam": fam}


def swath_spec(r, centre, half_m, shape, dims, polar):
    lon0, lat0 = centre
    n = 1
    for s in shape:
        n *= s
    h = shape[0]
    w = shape[1] if len(shape) > 1 else 1
    dd = half_m / 111e3
    lons, lats = [], []
    jit = r.choice([0.0, 0.05, 0.3])
    for i in range(h):
        for j in range(w):
            if len(shape) == 1:
                u, v = r.uniform(-1, 1), r.uniform(-1, 1)
            else:
                u = (j + 0.5) / w * 2 - 1 + r.uniform(-jit, jit) / max(w, 1)
                v = 1 - (i + 0.5) / h * 2 + r.uniform(-jit, jit) / max(h, 1)
            lat = lat0 + v * dd
            if polar:
                # walk over the pole: reflect
                if lat > 90:
                    lat, lonoff = 180 - lat, 180.0
                elif lat < -90:
                    lat, lonoff = -180 - lat, 180.0
                else:
                    lonoff = 0.0
                f = min(1.0 / max(math.cos(math.radians(lat)), 0.02), 60.0)
                lon = wrap(lon0 + lonoff + u * dd * f)
            else:
                lat = max(-90.0, min(90.0, lat))
                f = min(1.0 / max(math.cos(math.radians(lat)), 0.05), 20.0)
                lon = wrap(lon0 + u * dd * f)
            lons.append(lon)
            lats.append(lat)
    tags = []
    u = r.random()
    if u < 0.3:
        p = r.choice([0.05, 0.3, 0.8])
        for k in range(n):
            if r.random() < p:
                if r.random() < 0.5:
                    lons[k] = r.choice(BAD_LON)
                else:
                    lats[k] = r.choice(BAD_LAT)
        tags.append("invalid")
    if r.random() < 0.3:      # coordinates exactly on the validity bounds (still valid)
        for _ in range(r.randint(1, 3)):
            k = r.randrange(n)
            if r.random() < 0.5:
                lons[k] = r.choice([180.0, -180.0])
            else:
                lats[k] = r.choice([90.0, -90.0])
        tags.append("edge")
    if r.random() < 0.15 and n > 1:
        for k in range(n):
            if r.random() < 0.3:
                j = r.randrange(n)
                lons[k], lats[k] = lons[j], lats[j]
        tags.append("dup")
    dt = "float64"
    if r.random() < 0.08:
        dt = "float32"
        lons = [struct.unpack("f", struct.pack("f", x))[0] if x == x and abs(x) < 1e30 else x for x in lons]
        lats = [struct.unpack("f", struct.pack("f", x))[0] if x == x and abs(x) < 1e30 else x for x in lats]
        tags.append("f32")
    return {"kind": "swath", "shape": list(shape), "lons": lons, "lats": lats, "dims": list(dims), "dtype": dt,
            "chunks": chunk_tuple(r, shape, 40), "tags": tags}


def gen_values(r, dt, n):
    if dt in INT_RANGE:
        lo, hi = INT_RANGE[dt]
        span = hi - lo
        base = r.randint(lo, hi - min(span, n + 5))
        if span + 1 >= 4 * n:
            vals = [base + k for k in range(n)]
            r.shuffle(vals)
        else:
            vals = [r.randint(lo, hi - 1) for _ in range(n)]
        if r.random() < 0.3:
            for _ in range(r.randint(1, 3)):
                vals[r.randrange(n)] = hi          # the integer "fill"/mask sentinel of the resamplers
        return vals
    vals = [float(k) + r.choice([0.0, 0.25, 0.5]) for k in range(n)]
    r.shuffle(vals)
    if dt == "float64" and r.random() < 0.5:
        vals = [v + r.random() * 0.001 for v in vals]
    return vals


def gen_case(r, cid, size, force_pair=None, special=None):
    region = r.choice(["npole", "spole", "antimeridian", "equator0", "europe", "random"])
    polar = region in ("npole", "spole")
    centre = {"npole": (r.uniform(-180, 180), 90.0 - r.choice([0.0, 0.5, 3.0])),
              "spole": (r.uniform(-180, 180), -90.0 + r.choice([0.0, 0.5, 3.0])),
              "antimeridian": (r.choice([180.0, 179.9, -179.95]), r.uniform(-60, 60)),
              "equator0": (0.0, 0.0), "europe": (10.0, 50.0),
              "random": (r.uniform(-180, 180), r.uniform(-80, 80))}[region]
    half = r.choice([2e4, 3e5, 3e5, 1.5e6])
    smax, tmax = size
    pair = r.choice(["swath->area", "swath->area", "area->area", "area->area", "swath->swath", "area->swath", "swath1d->area"])
    pair = force_pair or pair
    # ---- source
    if pair.startswith("swath1d"):
        s_shape = [r.randint(1, smax)]
        s_dims = ["pts"]
    else:
        sh = r.randint(1, max(1, int(smax ** 0.5) + 3))
        sw = r.randint(1, max(1, smax // sh))
        s_shape = [sh, sw]
        s_dims = r.choice([["y", "x"], ["y", "x"], ["rows", "cols"]])
    if pair.startswith("swath"):
        src = swath_spec(r, centre, half, s_shape, s_dims, polar)
    else:
        src = area_spec(r, centre, half, s_shape[0], s_shape[1])
        s_dims = ["y", "x"]
    # ---- target
    th = r.randint(1, max(1, int(tmax ** 0.5) + 3))
    tw = r.randint(1, max(1, tmax // th))
    thalf = half * r.choice([0.4, 0.8, 1.0, 1.3])
    tcentre = centre if r.random() < 0.7 else (wrap(centre[0] + r.uniform(-2, 2)), max(-90, min(90, centre[1] + r.uniform(-1, 1))))
    identical = False
    if pair.endswith("->area"):
        if src["kind"] == "area" and r.random() < 0.2:
            # same projection, shifted by exactly half a pixel or identical grid: exact ties / exact hits
            tgt = dict(src)
            identical = True
            if r.random() < 0.6:
                px = (src["extent"][2] - src["extent"][0]) / src["w"]
                py = (src["extent"][3] - src["extent"][1]) / src["h"]
                k = r.choice([0.5, 1.0, 0.25])
                tgt["extent"] = [src["extent"][0] + k * px, src["extent"][1] + k * py, src["extent"][2] + k * px, src["extent"][3] + k * py]
            th, tw = tgt["h"], tgt["w"]
        else:
            tgt = area_spec(r, tcentre, thalf, th, tw)
    else:
        tgt = swath_spec(r, tcentre, thalf, [th, tw], ["y", "x"], polar)
    S = 1
    for s in s_shape:
        S *= s
    T = th * tw
    if special == "empty_source":          # no valid source pixel at all
        src["lons"] = [r.choice(BAD_LON) for _ in range(S)]
        src["tags"] = ["all_invalid"]
    elif special == "mask_invalid":        # invalid source coordinates AND a data mask: the mask must be compacted like the sources
        for k in range(S):
            if r.random() < 0.35:
                src["lons"][k] = r.choice(BAD_LON)
    elif special == "one_valid_source":
        keep = r.randrange(S)
        src["lons"] = [x if k == keep else 1e30 for k, x in enumerate(src["lons"])]
        src["lons"][keep], src["lats"][keep] = centre[0], max(-90.0, min(90.0, centre[1]))
    # ---- radius: relative to the source spacing
    spacing = 2 * half / max(1.0, math.sqrt(S))
    u = r.random()
    if u < 0.55:
        radius, rk = spacing * r.choice([0.4, 0.75, 1.5, 4.0]), "typical"
    elif u < 0.7:
        radius, rk = r.choice([1e7, 2e7, 1e9]), "huge"
    elif u < 0.8:
        radius, rk = r.choice([1.0, 1e-3, 50.0]), "tiny"
    elif u < 0.9:
        radius, rk = int(spacing) + 1, "int"
    else:
        radius, rk = spacing * r.uniform(0.3, 3.0), "typical"
    # ---- data layout
    dt = r.choice(["float64"] * 4 + ["float32", "float32", "int16", "uint8", "int32", "int64"])
    lay = r.choice(["geo", "geo", "lead", "lead", "trail", "trail", "both", "lead2", "trail2"])
    lead = {"geo": [], "lead": [("bands", r.randint(1, 3))], "trail": [], "both": [("time", r.randint(1, 2))],
            "lead2": [("time", 2), ("bands", r.randint(1, 3))], "trail2": []}[lay]
    trail = {"geo": [], "lead": [], "trail": [("bands", r.randint(1, 3))], "both": [("bands", r.randint(1, 3))],
             "lead2": [], "trail2": [("bands", 2), ("z", r.randint(1, 2))]}[lay]
    dims = [d for d, _ in lead] + list(s_dims) + [d for d, _ in trail]
    shape = [n for _, n in lead] + list(s_shape) + [n for _, n in trail]
    n = 1
    for s in shape:
        n *= s
    values = gen_values(r, dt, n)
    nan_data = False
    if dt.startswith("float") and r.random() < 0.25:
        for _ in range(r.randint(1, max(1, n // 4))):
            values[r.randrange(n)] = NAN
        nan_data = True
    # ---- fill
    if dt in INT_RANGE:
        fill = r.choice(["nan", "nan", 0, 7, INT_RANGE[dt][1], INT_RANGE[dt][0]])
    else:
        fill = r.choice(["nan", "nan", "nan", 0, -999.5, 1e30 if dt == "float64" else 65536.0])
    # ---- mask
    mask, mask_chunks, mk = None, None, "nomask"
    u = r.random()
    if u < 0.4 or special == "mask_invalid":
        p = r.choice([0.15, 0.5, 0.9, 1.0, 0.0]) if special != "mask_invalid" else 0.5
        mask = [1 if r.random() < p else 0 for _ in range(S)]
        mask_chunks = chunk_tuple(r, s_shape, 40)
        mk = "mask%.2f" % p
    future_mask = "off"
    if mask is None and r.random() < 0.35:
        future_mask = r.choice(["default", "on"])
    attrs = r.choice([{}, {"units": "K", "n": 3}, {"units": "K", "nested": {"a": [1, 2]}, "list": [1, 2.5], "name": "x" * 3}])
    coords = {}
    if lead and r.random() < 0.5:
        coords[lead[0][0]] = lead[0][0]
    case = {"id": cid, "src": src, "tgt": tgt, "radius": radius, "fill": fill,
            "data": {"dtype": dt, "dims": dims, "shape": shape, "values": values, "chunks": chunk_tuple(r, shape, 60), "coords": coords},
            "mask": mask, "mask_chunks": mask_chunks, "future_mask": future_mask, "attrs": attrs,
            "tgt_chunks": [chunk_tuple(r, [th, tw], 80) for _ in range(2)]}
    if special == "one_valid_source":
        radius, rk = 1e8, "huge"
        case["radius"] = radius
    if special == "mask_invalid":
        case["radius"] = radius = spacing * 3.0
    meta = {"region": region, "pair": pair + ("/samegrid" if identical else "") + ("/" + special if special else ""), "radius": rk, "dtype": dt, "layout": lay, "mask": mk,
            "future_mask": future_mask, "nan_data": nan_data, "S": S, "T": T, "s_shape": s_shape, "t_shape": [th, tw],
            "lead": [n for _, n in lead], "trail": [n for _, n in trail], "s_dims": list(s_dims)}
    return case, meta


def nblocks(n, cs):
    return -(-n // cs) if n else 1


def cost(meta, case, cs):
    """Rough number of (target block x source chunk) pairs dask has to shuffle for one resampler at chunk size cs."""
    th, tw = meta["t_shape"]
    tb = nblocks(th, cs) * nblocks(tw, cs)
    if case["mask_chunks"] is not None:
        sb = 1
        for c in case["mask_chunks"]:
            sb *= len(c)
    else:
        sb = 1
        for n in meta["s_shape"]:
            sb *= nblocks(n, cs)
    return tb * (sb + 4)


# ------------------------------------------------------------------------------------------ property oracle
def xyz(lon, lat):
    la, lo = math.radians(lat), math.radians(lon)
    return (R_EARTH * math.cos(la) * math.cos(lo), R_EARTH * math.cos(la) * math.sin(lo), R_EARTH * math.sin(la))


def in_range(lon, lat):
    return -180 <= lon <= 180 and -90 <= lat <= 90


def veq(a, b):
    return a == b or (a != a and b != b)


class Truth:
    """Brute force over chord distances for one (case, mask): per target pixel the set of acceptable source pixels."""

    def __init__(self, obs, mask, radius, single):
        sl, sa, tl, ta = obs["slon"], obs["slat"], obs["tlon"], obs["tlat"]
        self.S, self.T = len(sl), len(tl)
        self.valid_in = [in_range(sl[i], sa[i]) for i in range(self.S)]
        self.valid_out = [in_range(tl[i], ta[i]) for i in range(self.T)]
        cand = [i for i in range(self.S) if self.valid_in[i] and not (mask and mask[i])]
        sx = [xyz(sl[i], sa[i]) for i in cand]
        rel, ab = (2e-5, 30.0) if single else (1e-9, 1e-5)
        self.near = []      # per target: list of acceptable sources (nearest up to tolerance), may be []
        self.must_value = []    # nearest clearly inside the radius
        self.must_fill = []     # nothing within the radius (clearly)
        for t in range(self.T):
            if not self.valid_out[t] or not cand:
                self.near.append([])
                self.must_value.append(False)
                self.must_fill.append(True)
                continue
            tx = xyz(tl[t], ta[t])
            ds = [math.sqrt((tx[0] - p[0]) ** 2 + (tx[1] - p[1]) ** 2 + (tx[2] - p[2]) ** 2) for p in sx]
            dmin = min(ds)
            tol = ab + rel * dmin
            self.near.append([cand[k] for k, d in enumerate(ds) if d <= dmin + tol and d < radius + tol])
            self.must_value.append(dmin < radius - tol)
            self.must_fill.append(dmin > radius + tol)


def decompact(vii):
    """positions of the True entries: compacted index -> flat source pixel"""
    return [i for i, b in enumerate(vii) if b]


def geo_layout(meta):
    L = 1
    for n in meta["lead"]:
        L *= n
    Tr = 1
    for n in meta["trail"]:
        Tr *= n
    return L, Tr


def expected_fill(case):
    dt = case["data"]["dtype"]
    if case["fill"] == "nan":
        return INT_RANGE[dt][1] if dt in INT_RANGE else NAN
    return case["fill"]


def f32(x):
    try:
        return struct.unpack("f", struct.pack("f", x))[0]
    except OverflowError:
        return INF if x > 0 else -INF


def cast(dt, v):
    if dt == "float32" and isinstance(v, float):
        return f32(v)
    return v


def judge_result(key, case, meta, res, truth, fails, label):
    """One resampler result (xarray flavour: dims lead + (y,x) + trail) against the brute-force truth."""
    d = case["data"]
    th, tw = meta["t_shape"]
    L, Tr = geo_layout(meta)
    S = meta["S"]
    want_dims = d["dims"][:len(meta["lead"])] + ["y", "x"] + d["dims"][len(d["dims"]) - len(meta["trail"]):]
    want_shape = meta["lead"] + [th, tw] + meta["trail"]
    if res["dims"] != want_dims or res["shape"] != want_shape:
        fails.append((key + ".dims", "%s: output dims %s %s, expected %s %s" % (label, res["dims"], res["shape"], want_dims, want_shape)))
        return False
    if res["dtype"] != d["dtype"]:
        fails.append((key + ".dtype", "%s: output dtype %s, input dtype %s" % (label, res["dtype"], d["dtype"])))
    for k, v in (case.get("attrs") or {}).items():
        if k not in res["attrs"] or res["attrs"][k] != v:
            fails.append((key + ".attrs", "%s: attribute %r=%r not preserved (got %r)" % (label, k, v, res["attrs"].get(k))))
            break
    vals = res["values"]
    fill = cast(d["dtype"], expected_fill(case))
    data = d["values"]
    ok = True
    for l in range(L):
        for t in range(th * tw):
            for c in range(Tr):
                v = vals[(l * th * tw + t) * Tr + c]
                allowed = [cast(d["dtype"], data[(l * S + s) * Tr + c]) for s in truth.near[t]]
                good = any(veq(v, a) for a in allowed) and not truth.must_fill[t]
                if not good and not truth.must_value[t] and veq(v, fill):
                    good = True
                if not good:
                    if ok:
                        kind = ".lost" if veq(v, fill) else ".wrong_pixel"
                        fails.append((key + kind, "%s: element (lead %d, target %d (row %d, col %d), trail %d) = %r; nearest valid unmasked "
                                      "sources %s carry %s; must_value=%s must_fill=%s fill=%r" % (
                                          label, l, t, t // tw, t % tw, c, v, truth.near[t][:4], allowed[:4], truth.must_value[t], truth.must_fill[t], fill)))
                    ok = False
    return ok


def judge_index(key, ia, vii, truth, mask, fails, label):
    pos = decompact(vii)
    n = len(pos)
    for t, i in enumerate(ia):
        if i == -1:
            if truth.must_value[t]:
                fails.append((key + ".lost", "%s: index -1 (fill) at target %d although source %s lies within the radius" % (label, t, truth.near[t][:3])))
                return False
            continue
        if not (0 <= i < n):
            fails.append((key + ".index_range", "%s: index %d at target %d outside [0,%d)" % (label, i, t, n)))
            return False
        s = pos[i]
        if mask and mask[s]:
            fails.append((key + ".masked_selected", "%s: target %d selects masked source pixel %d" % (label, t, s)))
            return False
        if s not in truth.near[t] or truth.must_fill[t]:
            fails.append((key + ".wrong_pixel", "%s: target %d selects source %d, nearest candidates are %s (must_fill=%s)" % (
                label, t, s, truth.near[t][:4], truth.must_fill[t])))
            return False
    return True


def unique_nearest(truth, t):
    return len(truth.near[t]) <= 1 and (truth.must_value[t] or truth.must_fill[t])


def numpy_layout(meta, res_vals):
    """numpy reference (H, W, K) with K = lead x trail channels  ->  xarray layout lead x H x W x trail (flat)."""
    th, tw = meta["t_shape"]
    L, Tr = geo_layout(meta)
    K = L * Tr
    out = [None] * (L * th * tw * Tr)
    for t in range(th * tw):
        for l in range(L):
            for c in range(Tr):
                out[(l * th * tw + t) * Tr + c] = res_vals[t * K + l * Tr + c]
    return out


def enc(dt, v):
    """value -> integer code for the Coq side (bit pattern of the float64 / the integer itself)."""
    if dt in INT_RANGE:
        return int(v)
    if v != v:
        return NAN_CODE
    return struct.unpack(">q", struct.pack(">d", float(v)))[0]



# ------------------------------------------------------------------------------------------ histories / joint evaluation
def gen_history(r, hid):
    """One resampler instance reused for several calls with different masks / data carrying the same explicit
    DataArray name ('masks'), or several sources sharing target and radius ('sources'); small."""
    kind = r.choice(["masks", "masks", "sources"])
    region = r.choice(["europe", "antimeridian", "npole", "equator0"])
    centre = {"europe": (10.0, 50.0), "antimeridian": (179.9, r.uniform(-40, 40)), "npole": (r.uniform(-180, 180), 88.0),
              "equator0": (0.0, 0.0)}[region]
    polar = region == "npole"
    half = 3e5
    sh, sw = r.randint(3, 6), r.randint(3, 7)
    th, tw = r.randint(2, 5), r.randint(2, 6)
    S = sh * sw
    spacing = 2 * half / math.sqrt(S)
    radius = spacing * r.choice([2.5, 4.0])
    src_area = r.random() < 0.4
    sources = []
    nsrc = 1 if kind == "masks" else r.randint(2, 3)
    for k in range(nsrc):
        if src_area and kind == "masks":
            sources.append(area_spec(r, centre, half, sh, sw))
        else:
            sp = swath_spec(r, (wrap(centre[0] + 0.3 * k), centre[1]), half, [sh, sw], ["y", "x"], polar)
            sp["dtype"] = "float64"
            sources.append(sp)
    if r.random() < 0.6:
        tgt = area_spec(r, centre, half * 0.8, th, tw)
    else:
        tgt = swath_spec(r, centre, half * 0.8, [th, tw], ["y", "x"], polar)
        tgt["dtype"] = "float64"
    name = r.choice(["band", "band", None])
    steps = []
    for k in range(r.randint(2, 4) if kind == "masks" else nsrc):
        vals = [float(1000 * k + i) + 0.5 for i in range(S)]
        mode = r.choice(["explicit", "on"]) if kind == "masks" else r.choice(["explicit", "off"])
        mask = None
        if mode != "off":
            mask = [1 if r.random() < 0.4 else 0 for _ in range(S)]
            if kind == "masks" and k == 0 and r.random() < 0.5:
                mask = [0] * S
        if mode == "on":
            vals = [NAN if m else v for v, m in zip(vals, mask)]
        steps.append({"src": 0 if kind == "masks" else k, "values": vals, "mask": mask, "mode": mode, "name": name,
                      "chunks": chunk_tuple(r, [sh, sw], 12)})
    if kind == "masks" and r.random() < 0.5:
        steps.append(dict(steps[r.randrange(len(steps))]))      # an identical call again: served from the cache
    return {"id": hid, "kind": kind, "region": region, "sources": sources, "tgt": tgt, "radius": radius, "fill": "nan",
            "dims": ["y", "x"], "steps": steps, "t_shape": [th, tw], "s_shape": [sh, sw], "named": name is not None}


def judge_history(ctx, h, per_cs, coq):
    th, tw = h["t_shape"]
    S = h["s_shape"][0] * h["s_shape"][1]
    meta = {"t_shape": [th, tw], "lead": [], "trail": [], "S": S}
    fails = []
    for cs, o in sorted(per_cs.items()):
        if "fatal" in o:
            fails.append(("C05.driver", "history %d: driver failed: %s" % (h["id"], o["fatal"])))
            continue
        for k, (st, so) in enumerate(zip(h["steps"], o["steps"])):
            obs = {"slon": so["slon"], "slat": so["slat"], "tlon": o["tlon"], "tlat": o["tlat"]}
            truth = Truth(obs, st["mask"], float(h["radius"]), False)
            case = {"data": {"dtype": "float64", "dims": h["dims"], "shape": h["s_shape"], "values": st["values"]}, "fill": h["fill"],
                    "attrs": {"step": k}}
            ref = so.get("ref", {})
            for which in ("legacy", "future"):
                w = so[which]
                rname = "XArrayResamplerNN" if which == "legacy" else "KDTreeNearestXarrayResampler"
                label = "%s, PYTROLL_CHUNK_SIZE=%d, call %d of %d on one instance (%s, DataArray name %r, mask mode %s)" % (
                    rname, cs, k + 1, len(h["steps"]), h["kind"], st["name"], st["mode"])
                if "error" in w:
                    fails.append(("C05.%s.history.error" % which, "%s raises %s: %s" % (label, w["error"], w["msg"])))
                    continue
                if "joint_error" in w:
                    fails.append(("C05.%s.joint_compute" % which, "%s: dask.compute of all lazy results together raises %s" % (label, w["joint_error"])))
                    continue
                alone = w["alone"]
                tmp = []
                ok = judge_result("x", case, meta, alone, truth, tmp, label)
                if ok and "values" in ref:
                    for t in range(th * tw):
                        if unique_nearest(truth, t) and not veq(alone["values"][t], ref["values"][t]):
                            tmp.append(("x", "%s: target %d = %r, numpy resample_nearest on the unmasked pixels gives %r" % (
                                label, t, alone["values"][t], ref["values"][t])))
                            break
                if which == "legacy":
                    judge_index("x", w["ia_alone"], w["vii"], truth, st["mask"], tmp, label)
                alone_bad = bool(tmp)
                if tmp:
                    fails.append(("C05.%s.history.reuse" % which, tmp[0][1]))
                # joint evaluation of all lazy results of the history: must equal the stand-alone computation
                jres = dict(alone)
                jres["values"] = w["joint"]
                tmp = []
                ok = judge_result("x", case, meta, jres, truth, tmp, label + " [dask.compute of all results together]")
                if not all(veq(a, b) for a, b in zip(w["joint"], alone["values"])) and not tmp:
                    diff = [t for t in range(th * tw) if not veq(w["joint"][t], alone["values"][t])]
                    if any(unique_nearest(truth, t) for t in diff):
                        tmp.append(("x", "%s: computed together with the other results the values differ from the stand-alone computation at targets %s" % (label, diff[:5])))
                if which == "legacy" and not tmp:
                    judge_index("x", w["ia_joint"], w["vii"], truth, st["mask"], tmp, label + " [joint index array]")
                same_as_alone = all(veq(a, b) for a, b in zip(w["joint"], alone["values"])) and (which != "legacy" or w["ia_joint"] == w["ia_alone"])
                if tmp and not (alone_bad and same_as_alone):     # a wrong stand-alone result is attributed to history.reuse only
                    fails.append(("C05.%s.joint_compute" % which, tmp[0][1]))
                nval = sum(1 for v, f in zip(alone["values"], [truth.must_fill[t] for t in range(th * tw)]) if not f)
                ctx.case(("hist", h["id"], cs, which, k), nontrivial=nval > 0 and (st["mask"] is not None or h["kind"] == "sources"),
                         sample={"history": "history %d" % h["id"], "kind": h["kind"], "resampler": which, "call": k + 1, "calls": len(h["steps"]),
                                 "name": st["name"], "mask_mode": st["mode"], "masked": sum(st["mask"] or []), "targets_with_value": nval})
                ctx.count("history_%s_%s" % (h["kind"], which))
                if which == "legacy" and "oracle_q" in w:
                    # the jointly computed index array must be the model's assembly of THIS call's own kd-tree answers
                    coq.asm.append(("(%d, %s, %s, %s, %s, %s)" % (w["n"], zl(w["ia_chunks"][0]), zl(w["ia_chunks"][1]), bl(w["voi"]),
                                                                 zl(w["oracle_q"]), zl(w["ia_joint"])),
                                    "history %d cs %d call %d joint index array" % (h["id"], cs, k + 1)))
        if h["kind"] == "masks" and all("cache_size" in so["future"] for so in o["steps"]):
            # identity of each call's cache key: (mask.data.name, 1, radius, epsilon); dask names are tokens of content + chunks
            ids, seen_keys = [], {}
            for st in h["steps"]:
                ident = ("none",) if st["mode"] == "off" or st["mask"] is None else \
                    (("e", repr(st["mask"])) if st["mode"] == "explicit" else ("d", repr(st["values"]))) + (repr(st["chunks"]),)
                ids.append(seen_keys.setdefault(ident, len(seen_keys)))
            coq.cache.append(("(%s, %s)" % (zl(ids), zl([so["future"]["cache_size"] for so in o["steps"]])),
                              "history %d cs %d cache sizes" % (h["id"], cs)))
            ctx.count("history_cache_hit" if len(set(ids)) < len(ids) else "history_cache_all_miss")
    seen = set()
    for key, what in fails:
        if key in seen:
            continue
        seen.add(key)
        ctx.add_failure(key, "history %d [%s]: %s" % (h["id"], h["kind"], what), {"history": h, "chunk_sizes": sorted(per_cs)})


# ------------------------------------------------------------------------------------------ Coq text
def mark(t):
    """long list literals are shared between the cases of one file through a Definition (see CoqCases.evaluate)"""
    return "\u00ab" + t + "\u00bb" if len(t) > 60 else t


def zl(l):
    return mark("[" + ";".join("%d" % x for x in l) + "]")


def bl(l):
    return mark("[" + ";".join("true" if x else "false" for x in l) + "]")


HDR = ("From Coq Require Import ZArith List Bool.\nFrom PR Require Import Base.ListX Model.Blockwise Model.C05_run.\n"
       "Import ListNotations.\nOpen Scope Z_scope.\n")
HDR_IMP = ("From Coq Require Import ZArith List Bool.\nFrom PR Require Import Base.ListX Model.C05_imp_run.\n"
           "Import ListNotations.\nOpen Scope Z_scope.\n")
HDR_GEN = ("From Coq Require Import ZArith List Bool Floats.\nFrom PR Require Import Base.ListX Model.C05_run_gen.\n"
           "Import ListNotations.\n")


def run(ctx):
    r = ctx.rng
    ctx.rule = ("PRNG geometry pairs (swath/area/1-D swath sources, area/2-D swath targets; poles, antimeridian, equator, same-grid and "
                "half-pixel-shifted grids for exact ties; invalid and duplicated coordinates; float32 coordinates) x data layouts "
                "((y,x), (bands,y,x), (y,x,bands), leading+trailing dims) x dtypes x fills x masks x ragged/1-element chunk tuples on "
                "coordinates, data, mask and target, each run under PYTROLL_CHUNK_SIZE in {1,2,3,7,4096} (cost-capped for small chunk "
                "sizes); non-trivial = at least one target pixel receives a source value AND more than one block is assembled or "
                "a mask / extra dim / invalid pixel is present; distinct = distinct (case, chunk size, resampler, chunking); plus "
                "resampler-reuse histories (one instance, 2-4 calls, differing masks / NaN patterns, same DataArray name) and joint "
                "dask.compute of lazy results sharing target and radius but differing in mask or source (non-trivial = some target gets a value "
                "and a mask or a second source is involved); the regenerated validity expressions are run on the actual binary64 lon/lat; "
                "nothing is enumerated exhaustively (exhaustive=false)")
    ncase = ctx.n(32, 300)
    sizes = [(30, 24), (60, 40), (120, 80), (400, 300)]
    cases, metas = [], {}
    for cid in range(ncase):
        size = sizes[cid % 4] if cid % 11 else (400, 300)
        if cid % 40 == 1:
            c, m = gen_case(r, cid, (30, 24), force_pair="swath->area", special="empty_source")
        elif cid % 8 == 3:
            c, m = gen_case(r, cid, sizes[cid % 3], force_pair=r.choice(["swath->area", "swath->swath", "swath1d->area"]), special="mask_invalid")
        elif cid % 40 == 2:
            c, m = gen_case(r, cid, (30, 24), force_pair=r.choice(["swath->area", "swath->swath"]), special="one_valid_source")
        else:
            c, m = gen_case(r, cid, size)
        cases.append(c)
        metas[cid] = m
    budget = ctx.n(1200, 6000)
    histories = [gen_history(r, hid) for hid in range(ctx.n(8, 80))]
    hist_cs = [4096, 3]
    per_cs = {}
    for cs in CHUNK_SIZES:
        sel = []
        for c in cases:
            m = metas[c["id"]]
            cc = dict(c)
            # ragged target chunkings are only exercised under the large chunk size (they are independent of the env variable)
            if cs != 4096:
                cc["tgt_chunks"] = []
            else:
                cc["dim_variants"] = ["swap", "rename", "split"]
            if cs == 4096 or cost(m, c, cs) <= budget:
                sel.append(cc)
        per_cs[cs] = sel

    timing = {}

    def call(cs):
        t0 = time.time()
        o = ctx.impl("c05", {"cases": per_cs[cs], "histories": histories if cs in hist_cs else []}, timeout=ctx.n(900, 3000),
                     extra_env={"PYTROLL_CHUNK_SIZE": str(cs)})
        ws = sorted((c.get("wall", 0), c["id"]) for c in o["cases"])
        timing[cs] = (len(per_cs[cs]), round(time.time() - t0, 1), "sum %.1f" % sum(w for w, _ in ws), "slowest %s" % (ws[-2:],))
        return o

    with ThreadPoolExecutor(max_workers=len(CHUNK_SIZES)) as ex:
        futs = {cs: ex.submit(call, cs) for cs in CHUNK_SIZES}
        obs = {cs: f.result() for cs, f in futs.items()}
    t_impl = time.time() - ctx.t0
    by_case = {}
    for cs in CHUNK_SIZES:
        if obs[cs]["chunk_size"] != cs:
            ctx.broken.append(("correspondence:driver", "PYTROLL_CHUNK_SIZE=%d not honoured (CHUNK_SIZE=%s)" % (cs, obs[cs]["chunk_size"])))
        for o in obs[cs]["cases"]:
            by_case.setdefault(o["id"], {})[cs] = o
    case_by_id = {c["id"]: c for c in cases}
    coq = CoqCases()
    for cid in sorted(by_case):
        judge_case(ctx, case_by_id[cid], metas[cid], by_case[cid], coq)
    hist_by_id = {}
    for cs in hist_cs:
        for o in obs[cs].get("histories", []):
            hist_by_id.setdefault(o["id"], {})[cs] = o
    for h in histories:
        if h["id"] in hist_by_id:
            judge_history(ctx, h, hist_by_id[h["id"]], coq)
    t_judge = time.time() - ctx.t0
    coq.evaluate(ctx)
    sys.stderr.write("  timing C05: build+implementation done at %.1fs (driver (cases, s) per PYTROLL_CHUNK_SIZE: %s), oracle at %.1fs, "
                     "Coq correspondence at %.1fs\n" % (t_impl, timing, t_judge, time.time() - ctx.t0))


def replay(ctx, data):
    """Re-run one recorded failing case against the current tree; True iff it still fails."""
    if "history" in data["case"]:
        h = data["case"]["history"]
        per = {}
        for cs in data["case"].get("chunk_sizes") or [4096]:
            o = ctx.impl("c05", {"cases": [], "histories": [h]}, extra_env={"PYTROLL_CHUNK_SIZE": str(cs)})
            per[cs] = o["histories"][0]
        coq = CoqCases()
        judge_history(ctx, h, per, coq)
        coq.evaluate(ctx)
        return bool(ctx.failures or ctx.broken)
    case = dict(data["case"]["case"], dim_variants=["swap", "rename", "split"])
    meta = data["case"]["meta"]
    cs_list = data["case"].get("chunk_sizes") or CHUNK_SIZES
    per = {}
    for cs in cs_list:
        o = ctx.impl("c05", {"cases": [case]}, extra_env={"PYTROLL_CHUNK_SIZE": str(cs)})
        per[cs] = o["cases"][0]
    coq = CoqCases()
    judge_case(ctx, case, meta, per, coq)
    coq.evaluate(ctx)
    return bool(ctx.failures or ctx.broken)


# ------------------------------------------------------------------------------------------ judging one case
def judge_case(ctx, case, meta, per_cs, coq):
    cid = case["id"]
    d = case["data"]
    th, tw = meta["t_shape"]
    fails = []
    base = per_cs.get(4096) or next(iter(per_cs.values()))
    if "fatal" in base:
        ctx.add_failure("C05.driver", "case %d: driver failed: %s" % (cid, base["fatal"]), {"case": case, "meta": meta})
        return
    single = case["src"].get("dtype") == "float32" or case["tgt"].get("dtype") == "float32"
    mask = case["mask"]
    radius = float(case["radius"])
    truth_plain = Truth(base, None, radius, single)
    truth_mask = Truth(base, mask, radius, single) if mask is not None else truth_plain
    n_valid = sum(truth_plain.valid_in)
    for lbl in ("region", "pair", "radius", "dtype", "layout", "mask", "future_mask"):
        ctx.count("%s=%s" % (lbl, meta[lbl]))
    ref = base["ref"]
    ref_m = base.get("ref_explicit", ref) if mask is not None else ref
    got_value = False

    for cs, o in sorted(per_cs.items()):
        if "fatal" in o:
            fails.append(("C05.driver", "chunk size %d: driver failed: %s" % (cs, o["fatal"])))
            continue
        for which in ("legacy", "future"):
            w = o[which]
            key = "C05.%s" % which
            label = "%s, PYTROLL_CHUNK_SIZE=%d" % ("XArrayResamplerNN" if which == "legacy" else "KDTreeNearestXarrayResampler", cs)
            if "error" in w:
                if n_valid == 0:
                    fails.append((key + ".empty_source", "%s raises %s (%s) for a source without any valid pixel; the numpy resampler returns all fill"
                                  % (label, w["error"], w["msg"])))
                else:
                    fails.append((key + ".error." + w["error"], "%s raises %s: %s" % (label, w["error"], w["msg"])))
                continue
            tr = truth_mask
            msk = mask
            rref = ref_m
            if which == "future" and mask is None and w.get("implied_mask") is not None:
                msk = w["implied_mask"]
                want = implied_mask(case, meta)
                if [int(x) for x in msk] != want:
                    fails.append((key + ".data_mask", "%s: compute_data_mask gives %s, documented rule gives %s" % (label, msk, want)))
                tr = Truth(base, msk, radius, single)
                rref = o.get("ref_implied", {})
            # validity masks
            if [bool(x) for x in w["vii"]] != truth_plain.valid_in:
                fails.append((key + ".valid_input", "%s: valid_input_index differs from the lon/lat range test" % label))
                continue
            if which == "legacy" and [bool(x) for x in w["voi"]] != truth_plain.valid_out:
                fails.append((key + ".valid_output", "%s: valid_output_index differs from the lon/lat range test" % label))
                continue
            variants = [("", w["ia"], w["result"], w["ia_chunks"])]
            for k, e in enumerate(w.get("ragged") or []):
                if "error" in e:
                    fails.append((key + ".ragged.error", "%s: target chunks %s raise %s: %s" % (label, case["tgt_chunks"][k], e["error"], e["msg"])))
                else:
                    variants.append((" target chunks %s" % (e["chunks"][:2],), e["ia"], e["result"], e["chunks"]))
            for vlabel, ia, res, chunks in variants:
                ok1 = judge_index(key, ia, w["vii"], tr, msk, fails, label + vlabel)
                ok2 = judge_result(key, case, meta, res, tr, fails, label + vlabel)
                nblk = len(chunks[0]) * len(chunks[1])
                has_val = any(i != -1 for i in ia)
                got_value = got_value or has_val
                ctx.case((cid, cs, which, repr(chunks)), nontrivial=has_val and (nblk > 1 or mask is not None or meta["layout"] != "geo" or n_valid < meta["S"]),
                         sample={meta["pair"].split("/")[0]: "case %d" % cid, "pair": meta["pair"], "chunk_size": cs, "resampler": which, "index_chunks": chunks[:2],
                                 "data_dims": d["dims"], "data_shape": d["shape"], "mask": meta["mask"], "valid_sources": n_valid,
                                 "targets_with_value": sum(1 for i in ia if i != -1), "targets": th * tw})
                ctx.count("blocks=%s" % ("1" if nblk == 1 else "2-9" if nblk < 10 else "10+"))
                # exact agreement with the numpy reference wherever the nearest source is unique
                if ok1 and ok2 and "values" in rref:
                    refv = numpy_layout(meta, rref["values"])
                    if len(refv) != len(res["values"]):
                        fails.append((key + ".numpy_shape", "%s: %d elements, numpy reference %d" % (label + vlabel, len(res["values"]), len(refv))))
                    else:
                        L, Tr = geo_layout(meta)
                        for l in range(L):
                            for t in range(th * tw):
                                if not unique_nearest(tr, t) or ("voi" in rref and bool(rref["voi"][t]) != tr.valid_out[t]):
                                    continue
                                for c in range(Tr):
                                    j = (l * th * tw + t) * Tr + c
                                    if not veq(res["values"][j], refv[j]):
                                        fails.append((key + ".differs_from_numpy", "%s: element %d (target %d) = %r, numpy resample_nearest gives %r"
                                                      % (label + vlabel, j, t, res["values"][j], refv[j])))
                                        break
                                else:
                                    continue
                                break
                            else:
                                continue
                            break
                    if rref.get("dtype") != res["dtype"]:
                        fails.append((key + ".dtype_vs_numpy", "%s: dtype %s, numpy reference dtype %s" % (label + vlabel, res["dtype"], rref.get("dtype"))))
                # chunk invariance on the implementation itself: identical index arrays / results for every chunking
                b = base[which]
                if "error" not in b and (ia != b["ia"] or not all(veq(x, y) for x, y in zip(res["values"], b["result"]["values"]))):
                    diff = [t for t in range(len(ia)) if ia[t] != b["ia"][t]]
                    if any(unique_nearest(tr, t) for t in diff) or not diff:
                        fails.append((key + ".chunk_dependent", "%s: index array / result differs from the PYTROLL_CHUNK_SIZE=4096 run at targets %s"
                                      % (label + vlabel, diff[:5])))
            coq.add(ctx, case, meta, cs, which, w, o, msk)
            # the same field offered with its geo dims in another order / under other names / not adjacent:
            # a loud error or the right values (of the correctly transposed data), never other values
            for e in w.get("dim_variants") or []:
                res = e["res"]
                vkey = "C05.%s.dim_%s" % (which, {"swap": "order", "rename": "names", "split": "nonadjacent"}[e["kind"]])
                vlabel = "%s with the data dims given as %s (geometry dims %s)" % (label, e["dims"], meta["s_dims"])
                coq.add_dims_ok(case, meta, which, e, d["dims"])
                if "error" in res:
                    ctx.count("dim_variant_%s_refused" % e["kind"])
                    ctx.case((cid, which, "dimvar", e["kind"]), nontrivial=True)
                    continue
                ctx.count("dim_variant_%s_accepted" % e["kind"])
                want_dims = d["dims"][:len(meta["lead"])] + ["y", "x"] + d["dims"][len(d["dims"]) - len(meta["trail"]):]
                tmp = []
                if sorted(res["dims"]) != sorted(want_dims) or len(res["values"]) != len(w["result"]["values"]):
                    tmp.append(("x", "%s: result dims %s %s cannot hold the resampled field (%s)" % (vlabel, res["dims"], res["shape"], want_dims)))
                else:
                    import numpy as np
                    arr = np.array(res["values"], dtype=object).reshape(res["shape"]).transpose([res["dims"].index(x) for x in want_dims])
                    canon = dict(res)
                    canon["dims"], canon["shape"], canon["values"] = want_dims, [int(x) for x in arr.shape], list(arr.ravel())
                    judge_result("x", case, meta, canon, tr, tmp, vlabel)
                if tmp:
                    fails.append((vkey, tmp[0][1] + " -- accepted instead of refused, and the values are not the numpy result of this field"))
                ctx.case((cid, which, "dimvar", e["kind"]), nontrivial=True,
                         sample={"dim_variant": "case %d" % cid, "kind": e["kind"], "resampler": which, "data_dims": e["dims"],
                                 "geometry_dims": meta["s_dims"], "outcome": "values"})
    if ref and "values" in ref:
        coq.add_numpy(ctx, case, meta, ref)
        coq.add_numpy_valid(case, base)
    ctx.count("any_value" if got_value else "all_fill")
    seen = set()
    for key, what in fails:
        if key in seen:
            continue
        seen.add(key)
        ctx.add_failure(key, "case %d [%s, %s, %s]: %s" % (cid, meta["pair"], meta["layout"], meta["mask"], what),
                        {"case": case, "meta": meta, "chunk_sizes": sorted(per_cs)})


def implied_mask(case, meta):
    """documented rule of compute_data_mask: float -> all-NaN over the non-geo dims; int -> == iinfo.max (no _FillValue attr)."""
    d = case["data"]
    L, Tr = geo_layout(meta)
    S = meta["S"]
    bad = (lambda v: v == INT_RANGE[d["dtype"]][1]) if d["dtype"] in INT_RANGE else (lambda v: v != v)
    return [int(all(bad(d["values"][(l * S + s) * Tr + c]) for l in range(L) for c in range(Tr))) for s in range(S)]


# ------------------------------------------------------------------------------------------ correspondence
class CoqCases:
    def __init__(self):
        self.qnd, self.asm, self.gat, self.npy, self.dims, self.cache, self.dimsok, self.impdims = [], [], [], [], [], [], [], []
        self.valid = {"chk_vin_legacy": [], "chk_vout_legacy": [], "chk_vin_future": [], "chk_vin_numpy": [], "chk_vout_numpy": []}

    def add(self, ctx, case, meta, cs, which, w, o, msk):
        th, tw = meta["t_shape"]
        d = case["data"]
        dt = d["dtype"]
        L, Tr = geo_layout(meta)
        leg = o["legacy"]
        if "error" in leg or "oracle_q" not in leg:
            return
        n = leg["n"]
        voi = leg["voi"]
        q = leg["oracle_q"]
        tag = "case %d cs %d %s" % (case["id"], cs, which)
        if which == "legacy":
            # query_no_distance on the whole target as one block, statement-level model
            self.qnd.append(("(%d, %d, %d, %s, %s, %s)" % (n, th, tw, bl(voi), zl(q), zl(leg["qnd_single"])), tag))
        if which == "future" and msk is not None and case["mask"] is None:
            return      # implied mask: the oracle answers above were taken without it
        variants = [(w["ia_chunks"], w["ia"], w["result"])]
        for e in w.get("ragged") or []:
            if "error" not in e:
                variants.append((e["chunks"], e["ia"], e["result"]))
        fill = enc(dt, cast(dt, expected_fill(case)))
        data = [enc(dt, cast(dt, v)) for v in d["values"]]
        for chunks, ia, res in variants:
            self.asm.append(("(%d, %s, %s, %s, %s, %s)" % (n, zl(chunks[0]), zl(chunks[1]), bl(voi), zl(q), zl(ia)), tag + " chunks %s" % (chunks[:2],)))
            if len(res["values"]) == L * th * tw * Tr:
                self.gat.append(("(%d, %d, %d, %s, %s, %s, %s, %d, %s, %s, %s)" % (
                    L, meta["S"], Tr, zl(chunks[0]), zl(chunks[1]), bl(w["vii"]), zl(ia), fill, zl(data), zl([enc(dt, v) for v in res["values"]]),
                    "true"), tag + " gather chunks %s" % (chunks[:2],)))
        if cs == 4096:
            self.add_dims_ok(case, meta, which, {"dims": d["dims"], "res": w["result"]}, d["dims"])
            # the regenerated validity expressions on the actual binary64 lon/lat against the implementation's masks
            src_pts = mark("[" + ";".join("(%s, %s)" % (fhex(a), fhex(b)) for a, b in zip(o["slon"], o["slat"])) + "]")
            tgt_pts = mark("[" + ";".join("(%s, %s)" % (fhex(a), fhex(b)) for a, b in zip(o["tlon"], o["tlat"])) + "]")
            if which == "legacy":
                self.valid["chk_vin_legacy"].append(("(%s, %s)" % (src_pts, bl(w["vii"])), tag + " valid_input_index"))
                self.valid["chk_vout_legacy"].append(("(%s, %s)" % (tgt_pts, bl(w["voi"])), tag + " valid_output_index"))
            else:
                self.valid["chk_vin_future"].append(("(%s, %s)" % (src_pts, bl(w["vii"])), tag + " valid_input_index"))
            geo = meta["s_dims"]
            names = sorted(set(d["dims"]) | {"y", "x"})
            code = {nm: i for i, nm in enumerate(names)}
            self.dims.append(("(%s, %s, %s, %s, %s)" % (zl([code[x] for x in d["dims"]]), zl(d["shape"]), zl([code[x] for x in geo]),
                                                       "(%d, %d, %d, %d)" % (code["y"], code["x"], th, tw),
                                                       "(%s, %s)" % (zl([code[x] for x in w["result"]["dims"]]), zl(w["result"]["shape"]))), tag + " dims"))

    def add_dims_ok(self, case, meta, which, e, base_dims):
        """the geo-dims acceptance test of the resampler: (data dims, geometry dims, accepted?)"""
        names = sorted(set(e["dims"]) | set(meta["s_dims"]))
        code = {nm: i for i, nm in enumerate(names)}
        self.dimsok.append(("(%s, %s, %s)" % (zl([code[x] for x in e["dims"]]), zl([code[x] for x in meta["s_dims"]]),
                                              "false" if "error" in e["res"] else "true"),
                            "case %d %s dims %s" % (case["id"], which, e["dims"])))
        # the same observation against the functions translated from /repo (Gen/GenC05imp.v)
        names = sorted(set(e["dims"]) | set(meta["s_dims"]) | {"y", "x"})
        code = {nm: i for i, nm in enumerate(names)}
        shape = e.get("shape") or case["data"]["shape"]
        if "error" in e["res"] and which == "future" and e["res"]["error"] != "ValueError":
            return
        self.impdims.append(("(%s, %s, %s, %s, %s, %s, (%d, %d), %s)" % (
            "true" if which == "legacy" else "false", zl([code[x] for x in e["dims"]]), zl(shape), zl([code[x] for x in meta["s_dims"]]),
            zl(meta["s_shape"]), "true" if case["src"]["kind"] == "swath" else "false", code["y"], code["x"],
            "false" if "error" in e["res"] else "true"), "case %d %s dims %s (translated check)" % (case["id"], which, e["dims"])))

    def add_numpy_valid(self, case, o):
        ref = o["ref"]
        if "vii" not in ref or case["src"].get("dtype") == "float32" or case["tgt"].get("dtype") == "float32":
            return      # numpy compares float32 target coordinates when the source is float32: not the binary64 reading
        src_pts = mark("[" + ";".join("(%s, %s)" % (fhex(a), fhex(b)) for a, b in zip(o["slon"], o["slat"])) + "]")
        tgt_pts = mark("[" + ";".join("(%s, %s)" % (fhex(a), fhex(b)) for a, b in zip(o["tlon"], o["tlat"])) + "]")
        self.valid["chk_vin_numpy"].append(("(%s, %s)" % (src_pts, bl(ref["vii"])), "case %d numpy valid_input_index" % case["id"]))
        if ref.get("n", 0) > 0:     # with no valid source numpy returns _create_empty_info's placeholder (all ones), not the range test
            self.valid["chk_vout_numpy"].append(("(%s, %s)" % (tgt_pts, bl(ref["voi"])), "case %d numpy valid_output_index" % case["id"]))

    def add_numpy(self, ctx, case, meta, ref):
        if ref.get("is_masked"):
            return
        d = case["data"]
        dt = d["dtype"]
        th, tw = meta["t_shape"]
        L, Tr = geo_layout(meta)
        K = L * Tr
        S = meta["S"]
        fill = enc(dt, cast(dt, expected_fill(case)))
        rows = []
        for s in range(S):
            rows.append("[" + ";".join("%d" % enc(dt, cast(dt, d["values"][(l * S + s) * Tr + c])) for l in range(L) for c in range(Tr)) + "]")
        self.npy.append(("(%d, %d, %s, %s, %s, %d, %s, %s)" % (th * tw, K, bl(ref["vii"]), bl(ref["voi"]), zl(ref["ia"]), fill, mark("[" + ";".join(rows) + "]"),
                                                                 zl([enc(dt, v) for v in ref["values"]])), "case %d numpy" % case["id"]))

    def evaluate(self, ctx):
        groups = [("qnd", "chk_qnd", self.qnd, "query_no_distance"), ("asm", "chk_assemble", self.asm, "blockwise_assembly"),
                  ("gat", "chk_gather", self.gat, "my_index_gather"), ("npy", "chk_numpy", self.npy, "numpy_pipeline"),
                  ("dims", "chk_dims", self.dims, "dims_bookkeeping"), ("cache", "chk_cache", self.cache, "cache_history"),
                  ("dimsok", "chk_dims_ok", self.dimsok, "geo_dims_acceptance"),
                  ("impdims", "chk_imp_dims_ok", self.impdims, "translated_dims_check")]
        for k, (chk, items) in enumerate(sorted(self.valid.items())):
            groups.append(("val%d" % k, chk, items, "generated_validity_test"))
        texts = []
        for short, chk, items, what in groups:
            per = 30 if short in ("gat", "npy") else 100
            for k in range(0, len(items), per):
                part = items[k:k + per]
                name = "c05_%s_%03d" % (short, k // per)
                names, defs = {}, []

                def intern(m):
                    t = m.group(1)
                    if t not in names:
                        names[t] = "l%d" % len(names)
                        defs.append("Definition %s := %s." % (names[t], t))
                    return names[t]
                body = ";\n".join(re.sub("\u00ab([^\u00bb]*)\u00bb", intern, x) for x, _ in part)
                texts.append((name, (HDR_GEN if short.startswith("val") else HDR_IMP if short == "impdims" else HDR) + "\n".join(defs) + "\nDefinition cases := [\n%s].\nEval vm_compute in (bad %s cases).\n" % (body, chk), part, what))
        res = ctx.coq_eval_many([(n, t) for n, t, _, _ in texts])
        for name, _, part, what in texts:
            out, ok = res[name]
            ctx.count("coq_cases_" + what, len(part))
            if not ok:
                ctx.broken.append(("correspondence:" + what, "model evaluation failed (%s): %s" % (name, out[-300:])))
                continue
            bad = ints(out)
            if bad:
                ctx.broken.append(("correspondence:" + what, "model and implementation differ on %d of %d cases, e.g. %s" % (
                    len(bad), len(part), part[bad[0]][1])))
