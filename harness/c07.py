"""C07 — bucket resampling conserves counts and sums and reports true per-cell statistics."""
import math
import sys
import time
import struct
from concurrent.futures import ThreadPoolExecutor
from fractions import Fraction

from .common import fhex, evals

PROP_FILE = "Properties/C07.v"
GEN = ["GenC07", "GenC07imp"]
RUN_FILES = ["Model/C07_run.v", "Model/C07_imp_run.v"]

NAN = float("nan")
INF = float("inf")
STUB_PROJ = {"proj": "merc", "lon_0": 0, "ellps": "WGS84"}
DTYPE_RANGE = {"float64": (-2 ** 52, 2 ** 52), "float32": (-2 ** 23, 2 ** 23), "int64": (-2 ** 52, 2 ** 52), "uint64": (0, 2 ** 52),
               "uint8": (0, 255), "uint16": (0, 65535), "uint32": (0, 2 ** 32 - 1), "int8": (-128, 127), "int16": (-32768, 32767),
               "int32": (-2 ** 31, 2 ** 31 - 1)}
ODD_RES = [3, 5, 7, 11, 13, 49, 98, 103, 107, 161, 1000, 4000]
REAL_AREAS = [
    ({"proj": "laea", "lat_0": 60, "lon_0": 10, "ellps": "WGS84"}, (-1.0e6, -1.2e6, 1.4e6, 0.9e6), (-25, 45, 35, 75)),
    ({"proj": "merc", "lon_0": 0, "ellps": "WGS84"}, (-2.0e6, 1.0e6, 3.0e6, 6.0e6), (-30, 0, 40, 55)),
    ({"proj": "stere", "lat_0": 90, "lon_0": 0, "lat_ts": 60, "ellps": "WGS84"}, (-3.0e6, -3.0e6, 3.0e6, 3.0e6), (-180, 50, 180, 90)),
    ({"proj": "longlat", "datum": "WGS84"}, (-16.0, 32.0, 48.0, 64.0), (-30, 20, 60, 75)),
    ({"proj": "eqc", "lon_0": 0, "ellps": "WGS84"}, (-4.0e6, -2.0e6, 4.0e6, 2.0e6), (-50, -30, 50, 30)),
]


def hexf(x):
    return float(x).hex()


def unhex(s):
    return float.fromhex(s)


def nextaf(x, up):
    return math.nextafter(x, INF if up else -INF)


def rand_chunks(r, n):
    """A random partition of n into chunk sizes (dask explicit chunks)."""
    if n == 0:
        return [0]
    mode = r.random()
    if mode < 0.2 and n <= 10:
        return [1] * n
    if mode < 0.35:
        return [n]
    if mode < 0.5:
        k = r.randint(max(1, n // 8), max(1, n))
        return [k] * (n // k) + ([n % k] if n % k else [])
    out, left = [], n
    while left:
        k = r.randint(1, max(1, min(left, 1 + n // 2))) if len(out) < 7 else left
        out.append(k)
        left -= k
    return out


def gen_case(r, big=False, nchunkings=3):
    """One case: area, coordinates, two data arrays, configuration, several chunk layouts."""
    mode = "stub" if r.random() < 0.8 else "proj"
    case = {"mode": mode}
    strict = []
    classes = []
    wmax = 8 if big else 6
    if mode == "stub":
        w, h = r.randint(1, wmax), r.randint(1, wmax)
        kind = r.random()
        dyadic = kind < 0.8          # "exact" grid: every border and every generated point is exactly representable
        intres = kind < 0.3
        if intres:
            # pixel size = odd integer * 2^e: not a power of two (its reciprocal is inexact in binary64), yet all
            # borders xmin + k*res and the differences x - xmin are exact, so the true cell is decided exactly
            dx, dy = (float(r.choice(ODD_RES)) * 2.0 ** r.randint(-2, 1) for _ in range(2))
            x0, y0 = r.randint(-12, 12) * dx, r.randint(-12, 12) * dy
            x1, y1 = x0 + w * dx, y0 + h * dy
        elif dyadic:
            dx, dy = 2.0 ** r.randint(-2, 3), 2.0 ** r.randint(-2, 3)
            x0, y0 = r.randint(-12, 12) * 2.0 ** r.randint(-1, 2), r.randint(-12, 12) * 2.0 ** r.randint(-1, 2)
            x1, y1 = x0 + w * dx, y0 + h * dy
        else:
            x0, y0 = r.uniform(-50, 50), r.uniform(-50, 50)
            x1, y1 = x0 + r.uniform(0.5, 30), y0 + r.uniform(0.5, 30)
        flipx, flipy = r.random() < 0.12, r.random() < 0.12
        xmin, xmax = (x1, x0) if flipx else (x0, x1)
        ymin, ymax = (y1, y0) if flipy else (y0, y1)
        case["area"] = {"proj": STUB_PROJ, "extent": [hexf(v) for v in (xmin, ymin, xmax, ymax)], "w": w, "h": h}
        case["aclass"] = ("intres" if intres else "dyadic" if dyadic else "general") + ("_flipx" if flipx else "") + ("_flipy" if flipy else "")
        px = (xmax - xmin) / w
        py = (ymax - ymin) / h
        n = r.choice([0, 1, 2, 3]) if r.random() < 0.08 else r.randint(4, 60 if big else 36)
        xs, ys = [], []

        def axis(lo, step, cnt):
            """coordinate along one axis (lo + t*step, t in cell units) and its class"""
            u = r.random()
            if u < 0.45:
                t = r.randint(0, cnt - 1) + r.choice([0.25, 0.5, 0.75, 0.125, 0.875])
                return lo + t * step, "inside", dyadic
            if u < 0.7:
                return lo + r.randint(0, cnt) * step, "edge", dyadic
            if u < 0.8:
                e = lo + r.randint(0, cnt) * step
                return nextaf(e, r.random() < 0.5), "ulp", False
            if u < 0.93:
                t = r.choice([-0.5, -0.25, -1, -3.5, cnt + 0.25, cnt + 0.5, cnt + 2, -2.0 ** 20, 2.0 ** 20])
                return lo + t * step, "outside", dyadic
            return r.choice([NAN, INF, -INF, 1e30, -1e30, 1e300, -0.0, 2.0 ** 63, -2.0 ** 63, 9.3e18]), "special", True

        for _ in range(n):
            x, cx, sx = axis(xmin, px, w)
            y, cy, sy = axis(ymax, -py, h)
            xs.append(x)
            ys.append(y)
            strict.append(bool(sx and sy))
            classes.append(cx if cx != "inside" else cy)
    else:
        proj, ext, box = r.choice(REAL_AREAS)
        w, h = r.randint(1, wmax), r.randint(1, wmax)
        case["area"] = {"proj": proj, "extent": [hexf(v) for v in ext], "w": w, "h": h}
        case["aclass"] = "proj_" + proj["proj"]
        n = r.randint(4, 60 if big else 36)
        xs = [r.uniform(box[0], box[2]) if r.random() < 0.9 else r.choice([NAN, 1e30, INF]) for _ in range(n)]
        ys = [r.uniform(box[1], box[3]) if r.random() < 0.93 else r.choice([NAN, 91.0, 1e30]) for _ in range(n)]
        strict = [False] * n
        classes = ["proj"] * n
    case["xs"], case["ys"] = [hexf(v) for v in xs], [hexf(v) for v in ys]
    case["strict"], case["classes"] = strict, classes
    # shape: 1-D or 2-D
    shape = [n]
    if n >= 2 and r.random() < 0.35:
        divs = [d for d in range(1, n + 1) if n % d == 0]
        a = r.choice(divs)
        shape = [a, n // a]
    case["shape"] = shape
    # configuration
    fill = r.choice([NAN, NAN, NAN, -1.0, 0.0, 255.0, 3.0, -999.0])
    case["fill"] = hexf(fill)
    case["skipna"] = r.random() < 0.6
    case["ebv"] = hexf(r.choice([0.0, 0.0, NAN, -1.0, 4095.0, 5.0]))
    case["ffill"] = hexf(r.choice([NAN, NAN, -1.0, 0.0]))
    span = r.choice([2, 4, 9, 9, 2 ** 30])
    # dtype of the data arrays handed to the resampler (values are integers that the dtype holds exactly)
    dtype = r.choice(["float64"] * 9 + ["int64", "uint8", "uint16", "uint32", "uint64", "int8", "int16", "int32", "float32"])
    lo, hi = DTYPE_RANGE[dtype]
    if dtype != "float64":
        big = min(hi, r.choice([3, 9, 255, 1000, 70000]))
        small = max(lo, -big)

        def draw():
            """zeros, repeated small values and values near the top of the range: sums of a few exceed narrow integer types"""
            u = r.random()
            return 0 if u < 0.25 else r.randint(small, big) if u < 0.6 else r.choice([big, big - 1, small, 1, 2])
        span = big
    else:
        def draw():
            return r.randint(-span, span)
    fdata = [float(draw()) for _ in range(n)]
    data = [float(draw()) for _ in range(n)]
    pm = r.choice([0.0, 0.15, 0.4])
    for i in range(n):
        if r.random() < pm:
            data[i] = fill
        elif fill != fill and r.random() < pm / 2:      # NaN data only as the (default) NaN fill marker
            data[i] = NAN
    u = r.random()
    if u < 0.6:                      # categorical data: few distinct values, so that all of them can be categories
        kk = r.randint(1, 4)
        pool = r.sample(range(max(lo, -span), span + 1), min(kk, span + 1 - max(lo, -span)))
        if dtype != "float64" and 0 not in pool:
            pool[0] = 0
        fdata = [float(r.choice(pool)) for _ in range(n)]
    vals = sorted(set(int(v) for v in fdata))
    if u < 0.2 or not vals:
        cats = None
    elif u < 0.6:
        cats = vals
    else:
        cats = sorted(set(r.sample(vals, r.randint(1, min(4, len(vals)))) + [r.randint(max(lo, -span), span) for _ in range(r.randint(0, 2))]))
    case["cats"] = cats
    # the sum/average data keep the dtype only if every value (NaN, fill markers) is representable in it
    case["dtype"] = dtype
    case["data_dtype"] = dtype if dtype in ("float64", "float32") or all(v == v and lo <= v <= hi for v in data) else "float64"
    # a second, different data array for the joint evaluation: the negated data, or (unsigned / narrow types) the data rotated by one
    fdata2 = [-v for v in fdata] if all(lo <= -v <= hi for v in fdata) else fdata[1:] + fdata[:1]
    case["data"], case["fdata"], case["fdata2"] = [hexf(v) for v in data], [hexf(v) for v in fdata], [hexf(v) for v in fdata2]
    chunkings = []
    for _ in range(nchunkings):
        chunkings.append({k: [rand_chunks(r, s) for s in shape] for k in ("coord", "data", "fdata")})
    case["chunkings"] = chunkings
    case["variant"] = r.choice(["dask"] * 9 + ["xr"])
    if r.random() < 0.35:
        ops = ["count", "sum", "min", "max", "average", "fractions"]
        hist = [[r.choice(ops), r.randrange(nchunkings)] for _ in range(r.randint(2, 6))]
        if r.random() < 0.4:        # the memo of get_count is first touched AFTER another statistic has been computed
            hist = [[r.choice(["average", "sum", "min"]), r.randrange(nchunkings)]] + hist + [[r.choice(["count", "fractions"]), r.randrange(nchunkings)]]
        case["history"] = hist
    return case


def gen_lattice_case(r, w, h, sub, flipx, flipy, nchunkings, res=None):
    """Exhaustive small scope: every point of the 1/sub-pixel lattice from one pixel outside to one pixel
    outside on the other side, both axes: all border / corner / outer-edge combinations of a w x h grid."""
    dx, dy = 2.0 ** r.randint(-1, 2), 2.0 ** r.randint(-1, 2)
    x0, y0 = float(r.randint(-6, 6)), float(r.randint(-6, 6))
    if res is not None:
        dx, dy = float(res[0]), float(res[1])
        x0, y0 = r.randint(-6, 6) * dx, r.randint(-6, 6) * dy
    x1, y1 = x0 + w * dx, y0 + h * dy
    xmin, xmax = (x1, x0) if flipx else (x0, x1)
    ymin, ymax = (y1, y0) if flipy else (y0, y1)
    px, py = (xmax - xmin) / w, (ymax - ymin) / h
    xs, ys, classes = [], [], []
    for i in range(-sub, (w + 1) * sub + 1):
        for j in range(-sub, (h + 1) * sub + 1):
            xs.append(xmin + (i / sub) * px)
            ys.append(ymax - (j / sub) * py)
            out = i < 0 or i > w * sub or j < 0 or j > h * sub
            classes.append("outside" if out else ("edge" if i % sub == 0 or j % sub == 0 else "inside"))
    order = list(range(len(xs)))
    r.shuffle(order)
    xs, ys, classes = [xs[k] for k in order], [ys[k] for k in order], [classes[k] for k in order]
    n = len(xs)
    case = {"mode": "stub", "aclass": ("lattice" if res is None else "lattice_intres") + ("_flipx" if flipx else "") + ("_flipy" if flipy else ""),
            "area": {"proj": STUB_PROJ, "extent": [hexf(v) for v in (xmin, ymin, xmax, ymax)], "w": w, "h": h},
            "xs": [hexf(v) for v in xs], "ys": [hexf(v) for v in ys], "strict": [True] * n, "classes": classes, "shape": [n],
            "fill": hexf(NAN), "skipna": r.random() < 0.5, "ebv": hexf(0.0), "ffill": hexf(NAN)}
    data = [float(r.randint(-9, 9)) if r.random() < 0.85 else NAN for _ in range(n)]
    fdata = [float(r.randint(-3, 3)) for _ in range(n)]
    case["cats"] = sorted(set(int(v) for v in fdata))
    case["data"], case["fdata"] = [hexf(v) for v in data], [hexf(v) for v in fdata]
    case["chunkings"] = [{k: [rand_chunks(r, n)] for k in ("coord", "data", "fdata")} for _ in range(nchunkings)]
    return case


# ---------------------------------------------------------------------------- independent property oracle
def frac(x):
    return Fraction(x)


def axis_cells(v, lo, step, cnt, eps):
    """Columns/rows (or None = outside) whose half-open extent contains v; with eps > 0 also the
    neighbouring answer when v is within eps (relative) of a cell border (binary64 rounding gap)."""
    if v != v or v in (INF, -INF):
        return {None}
    fv = frac(v)
    out = set()
    found = None
    for c in range(cnt):
        a, b = lo + c * step, lo + (c + 1) * step
        if (step > 0 and a <= fv < b) or (step < 0 and b < fv <= a):
            found = c
    out.add(found)
    if eps:
        t = (fv - lo) / step
        near = round(t)
        if abs(t - near) <= eps * max(1, abs(t)):
            for c in (near - 1, near):
                out.add(c if 0 <= c < cnt else None)
    return out


def feq(a, b):
    return (a != a and b != b) or a == b


def judge(case, outs):
    """Property oracle on the implementation's observations of one case. Returns [(key, what)]."""
    fails = []
    ar = case["area"]
    xmin, ymin, xmax, ymax = [frac(unhex(v)) for v in ar["extent"]]
    w, h = ar["w"], ar["h"]
    size = w * h
    dx, dy = (xmax - xmin) / w, (ymax - ymin) / h
    good = [o for o in outs if "error" not in o]
    for o in outs:
        if "error" in o:
            fails.append(("C07.error", "BucketResampler raised %s" % o["error"]))
    if not good:
        return fails
    o = good[0]
    n = len(case["xs"])
    px, py = [unhex(v) for v in o["px"]], [unhex(v) for v in o["py"]]
    data = [unhex(v) for v in case["data"]]
    fdata = [unhex(v) for v in case["fdata"]]
    fill, ebv, ffill = unhex(case["fill"]), unhex(case["ebv"]), unhex(case["ffill"])
    skipna = case["skipna"]
    if o["shape"] != [h, w]:
        fails.append(("C07.shape", "result shape %s for a %dx%d area" % (o["shape"], h, w)))
        return fails
    # ---- membership
    cell = []
    for i in range(n):
        eps = 0 if case["strict"][i] else Fraction(1, 2 ** 36)
        cols = axis_cells(px[i], xmin, dx, w, eps)
        rows = axis_cells(py[i], ymax, -dy, h, eps)
        ok_cells = set()
        for c in cols:
            for rr in rows:
                ok_cells.add(None if (c is None or rr is None) else (rr, c))
        xi, yi, ii = o["x_idxs"][i], o["y_idxs"][i], o["idxs"][i]
        got = None if (xi == -1 and yi == -1) else (yi, xi)
        consistent = (ii == yi * w + xi) and (got is None or (0 <= xi < w and 0 <= yi < h))
        if got not in ok_cells or not consistent:
            want = sorted(ok_cells, key=str)
            fails.append(("C07.index." + case["classes"][i],
                          "point %d with projected position (%r, %r): x_idx=%d y_idx=%d idx=%d, the cell containing it is %s "
                          "(area extent %s, %dx%d)" % (i, px[i], py[i], xi, yi, ii, want, [float(v) for v in (xmin, ymin, xmax, ymax)], w, h)))
            got = next(iter(ok_cells)) if len(ok_cells) == 1 else got
        if len(ok_cells) == 1:
            got = next(iter(ok_cells))
        cell.append(got)
    if fails:
        return fails[:1]        # a wrong cell assignment explains every statistic that differs: attribute it to the index
    members = {}
    for i, cl in enumerate(cell):
        if cl is not None:
            members.setdefault(cl[0] * w + cl[1], []).append(i)
    inside = [i for i, cl in enumerate(cell) if cl is not None]

    def invalid(v):
        return v != v if fill != fill else v == fill

    # ---- count
    cnt = o["count"]
    for k in range(size):
        if cnt[k] != len(members.get(k, [])):
            fails.append(("C07.count", "cell %d: get_count=%d but %d points lie in it" % (k, cnt[k], len(members.get(k, [])))))
            break
    if sum(cnt) != len(inside):
        fails.append(("C07.count.conservation", "get_count sums to %d, %d points are inside the area" % (sum(cnt), len(inside))))
    # ---- sum
    sm = [unhex(v) for v in o["sum"]]
    scope_all = True
    for k in range(size):
        ms = [data[i] for i in members.get(k, [])]
        if fill == fill and any(v != v for v in ms):
            scope_all = False
            continue                      # NaN data with a non-NaN fill marker: outside the property
        valid = [v for v in ms if not invalid(v)]
        base = float(sum(int(v) for v in valid))
        if not skipna and len(valid) != len(ms):
            base = fill
        if ebv != 0 and base == 0:
            base = ebv
        if not feq(sm[k], base):
            fails.append(("C07.sum", "cell %d: get_sum(fill=%r, skipna=%r, empty=%r)=%r, valid data of its points %r give %r"
                          % (k, fill, skipna, ebv, sm[k], ms, base)))
            break
    if skipna and ebv == 0 and scope_all:
        tot = sum(int(data[i]) for i in inside if not invalid(data[i]))
        if any(v != v for v in sm) or sum(int(v) for v in sm) != tot or any(v != int(v) for v in sm):
            fails.append(("C07.sum.conservation", "get_sum totals %r, valid data inside the area total %r" % (sm, tot)))
    # ---- average
    av = [unhex(v) for v in o["avg"]]
    for k in range(size):
        ms = [data[i] for i in members.get(k, [])]
        valid = [v for v in ms if v == v and not (fill == fill and v == fill)]
        if (not skipna and len(valid) != len(ms)) or not valid:
            want = fill
        else:
            want = sum(int(v) for v in valid) / len(valid)      # int / int: correctly rounded
        if not feq(av[k], want):
            fails.append(("C07.average", "cell %d: get_average(fill=%r, skipna=%r)=%r, data of its points %r give %r"
                          % (k, fill, skipna, av[k], ms, want)))
            break
    # ---- min / max / abs max (finite data)
    mn, mx, am = ([unhex(v) for v in o[q]] for q in ("min", "max", "absmax"))
    for k in range(size):
        ms = [fdata[i] for i in members.get(k, [])]
        wmin = min(ms) if ms else NAN
        wmax = max(ms) if ms else NAN
        wabs = NAN
        if ms:
            m = max(abs(v) for v in ms)
            wabs = m if m in ms else -m
        for nm, got, want in (("min", mn[k], wmin), ("max", mx[k], wmax), ("absmax", am[k], wabs)):
            if not feq(got, want):
                fails.append(("C07." + nm, "cell %d: get_%s=%r, its points carry %r (expected %r)" % (k, "abs_max" if nm == "absmax" else nm, got, ms, want)))
    # ---- fractions
    cats = o["cats"]
    if case["cats"] is None:
        if sorted(cats) != sorted(set(fdata)):
            fails.append(("C07.fractions.categories", "derived categories %r, data values %r" % (cats, sorted(set(fdata)))))
    fr = [[unhex(v) for v in l] for l in o["frac"]]
    for k in range(size):
        ms = [fdata[i] for i in members.get(k, [])]
        tot = 0.0
        for j, cat in enumerate(cats):
            want = (sum(1 for v in ms if v == cat) / len(ms)) if ms else ffill
            if not feq(fr[j][k], want):
                fails.append(("C07.fractions", "cell %d category %r: fraction %r, its points carry %r (expected %r)" % (k, cat, fr[j][k], ms, want)))
                break
            tot += fr[j][k]
        else:
            if ms and all(v in cats for v in ms) and abs(tot - 1) > len(cats) * 2.0 ** -52:
                fails.append(("C07.fractions.sum1", "cell %d: fractions over all categories sum to %r" % (k, tot)))
    # ---- chunk independence
    for j, oo in enumerate(good[1:], 1):
        for q in ("x_idxs", "y_idxs", "idxs", "count", "sum", "avg", "min", "max", "absmax", "frac", "cats"):
            if oo[q] != o[q]:
                fails.append(("C07.chunking." + q, "%s differs between chunk layouts %s and %s" % (q, case["chunkings"][0], case["chunkings"][j])))
                break
    # ---- several lazy results for DIFFERENT data on one resampler evaluated in one dask computation (second array = -fdata)
    if "joint" in o:
        fdata2 = [unhex(v) for v in case.get("fdata2", [])] or [-v for v in fdata]
        j2 = {q: [unhex(v) for v in l] for q, l in o["joint"].items()}
        a2 = {q: [unhex(v) for v in l] for q, l in o["alone"].items()}
        for k in range(size):
            ms = [fdata2[i] for i in members.get(k, [])]
            wabs = NAN
            if ms:
                m = max(abs(v) for v in ms)
                wabs = m if m in ms else -m
            for nm, want in (("min2", min(ms) if ms else NAN), ("max2", max(ms) if ms else NAN), ("absmax2", wabs)):
                if not feq(j2[nm][k], want):
                    alone = a2.get(nm, [None] * size)[k]
                    fails.append(("C07.joint_compute." + nm[:-1], "cell %d: get_%s of a second data array evaluated in one dask.compute together "
                                  "with the statistics of the first gives %r, its points carry %r (expected %r; evaluated alone: %r)"
                                  % (k, nm[:-1], j2[nm][k], ms, want, alone)))
                    break
            else:
                continue
            break
    # ---- a history of calls on one object returns what separate fresh objects return
    for step, hh in enumerate(o.get("history", [])):
        ref = {"count": o["count"], "sum": o["sum"], "min": o["min"], "max": o["max"], "average": o["avg"],
               "fractions": o["frac"][0] if o["frac"] else None}[hh["op"]]
        if hh["out"] != ref:
            fails.append(("C07.history." + hh["op"], "call %d (%s) of the history %s on one object returns %s, a fresh object returns %s"
                          % (step, hh["op"], case["history"], hh["out"], ref)))
            break
    seen, out = set(), []
    for k, wh in fails:
        if k not in seen:
            seen.add(k)
            out.append((k, wh))
    return out


# ---------------------------------------------------------------------------- Coq case text
HDR = ("From Coq Require Import ZArith List Bool.\n"
       "From PR Require Import Base.Num Base.F64 Base.ListX Model.Grid Model.Bucket Model.C07_run Gen.GenC07.\n"
       "From Coq Require Import PrimFloat.\n"          # last: bare nan / infinity literals are PrimFloat's
       "Import ListNotations.\nOpen Scope Z_scope.\n")


def zl(l):
    return "[" + "; ".join("(%d)" % v for v in l) + "]"


def to_dat(x):
    if x != x:
        return "None"
    if x in (INF, -INF) or x != int(x):
        raise ValueError("not an integer-valued float: %r" % x)
    return "(Some (%d))" % int(x)


def dl(l):
    return "[" + "; ".join(to_dat(v) for v in l) + "]"


def fl(l):
    return "[" + "; ".join(fhex(v) for v in l) + "]"


def coq_idx_case(case, o):
    ar = case["area"]
    e = [unhex(v) for v in ar["extent"]]
    pts = "; ".join("(%s, %s, ((%d), (%d), (%d)))" % (fhex(unhex(a)), fhex(unhex(b)), xi, yi, ii)
                    for a, b, xi, yi, ii in zip(o["px"], o["py"], o["x_idxs"], o["y_idxs"], o["idxs"]))
    return "(mk_area %s %s %s %s (%d) (%d), [%s])" % (fhex(e[0]), fhex(e[1]), fhex(e[2]), fhex(e[3]), ar["w"], ar["h"], pts)


def coq_stat_case(case, o):
    ar = case["area"]
    u = lambda l: [unhex(v) for v in l]
    return ("(mk_scase (%d) %s %s %s %s %s [%s] %s %s %s %s %s %s %s %s %s [%s])" % (
        ar["w"] * ar["h"], zl(o["idxs"]), dl(u(case["data"])), to_dat(unhex(case["fill"])),
        "true" if case["skipna"] else "false", to_dat(unhex(case["ebv"])),
        "; ".join("%d%%nat" % c for c in o["data_chunks"]),
        zl(o["count"]), dl(u(o["sum"])), fl(u(o["avg"])),
        dl(u(case["fdata"])), dl(u(o["min"])), dl(u(o["max"])), dl(u(o["absmax"])),
        zl([int(c) for c in o["cats"]]), to_dat(unhex(case["ffill"])),
        "; ".join(fl(u(l)) for l in o["frac"])))


def coq_hist_case(case, o):
    """(size, chunks0, calls, expected results) for chk_history"""
    u = lambda l: [unhex(v) for v in l]
    ar = case["area"]
    pos, chunks0 = 0, []
    for c in o["idx_chunks"]:
        chunks0.append(zl(o["idxs"][pos:pos + c]))
        pos += c
    calls, exps = [], []
    nl = lambda l: "[" + "; ".join("%d%%nat" % c for c in l) + "]"
    for hh in o["history"]:
        if hh["op"] == "count":
            calls.append("CallCount")
            exps.append("HZ %s" % zl(hh["out"]))
        elif hh["op"] == "average":
            calls.append("CallAvg %s %s %s %s" % (nl(hh["lens"]), dl(u(case["data"])), to_dat(unhex(case["fill"])),
                                                "true" if case["skipna"] else "false"))
            exps.append("HF %s" % fl(u(hh["out"])))
        elif hh["op"] == "fractions":
            calls.append("CallFrac %s %s (%d) %s" % (nl(hh["lens"]), dl(u(case["fdata"])), int(hh["cat"]), to_dat(unhex(case["ffill"]))))
            exps.append("HF %s" % fl(u(hh["out"])))
        elif hh["op"] == "sum":
            calls.append("CallSum %s %s %s %s %s" % (nl(hh["lens"]), dl(u(case["data"])), to_dat(unhex(case["fill"])),
                                                  "true" if case["skipna"] else "false", to_dat(unhex(case["ebv"]))))
            exps.append("HD %s" % dl(u(hh["out"])))
        else:
            calls.append("%s %s %s" % ("CallMin" if hh["op"] == "min" else "CallMax", nl(hh["lens"]), dl(u(case["fdata"]))))
            exps.append("HD %s" % dl(u(hh["out"])))
    return "((%d), [%s], [%s], [%s])" % (ar["w"] * ar["h"], "; ".join(chunks0), "; ".join(calls), "; ".join(exps))


def coq_imp_hist_case(case, o):
    """the same history for the methods GENERATED from /repo (Model/C07_imp_run.v: chk_imp_history); data as lists of chunks"""
    u = lambda l: [unhex(v) for v in l]
    ar = case["area"]
    pos, chunks0 = 0, []
    for c in o["idx_chunks"]:
        chunks0.append(zl(o["idxs"][pos:pos + c]))
        pos += c

    def chunked(vals, lens):
        out, p_ = [], 0
        for c in lens:
            out.append(dl(vals[p_:p_ + c]))
            p_ += c
        return "[" + "; ".join(out) + "]"
    calls, exps = [], []
    for hh in o["history"]:
        if hh["op"] == "count":
            calls.append("ICount")
            exps.append("HIZ %s" % zl(hh["out"]))
        elif hh["op"] == "sum":
            calls.append("ISum %s %s %s %s" % (chunked(u(case["data"]), hh["lens"]), to_dat(unhex(case["fill"])),
                                              "true" if case["skipna"] else "false", to_dat(unhex(case["ebv"]))))
            exps.append("HID %s" % dl(u(hh["out"])))
        elif hh["op"] == "average":
            calls.append("IAvg %s %s %s" % (chunked(u(case["data"]), hh["lens"]), to_dat(unhex(case["fill"])), "true" if case["skipna"] else "false"))
            exps.append("HIF %s" % fl(u(hh["out"])))
        elif hh["op"] == "fractions":
            calls.append("IFrac %s [(%d)] %s" % (chunked(u(case["fdata"]), hh["lens"]), int(hh["cat"]), to_dat(unhex(case["ffill"]))))
            exps.append("HIFr [((%d), %s)]" % (int(hh["cat"]), fl(u(hh["out"]))))
        else:
            calls.append("%s %s" % ("IMin" if hh["op"] == "min" else "IMax", chunked(u(case["fdata"]), hh["lens"])))
            exps.append("HID %s" % dl(u(hh["out"])))
    return "((%d), [%s], [%s], [%s])" % (ar["w"] * ar["h"], "; ".join(chunks0), "; ".join(calls), "; ".join(exps))


STAT_NAMES = ["count", "sum", "average", "min", "max", "absmax", "fractions", "chunked_histogram"]


def parse_nested(s):
    """'[[]; [1; 2]; ...]' -> [[], [1, 2], ...]"""
    import re
    inner = re.findall(r"\[([^\[\]]*)\]", s)
    return [[int(x) for x in re.findall(r"-?\d+", re.sub(r"%[a-zA-Z]+", "", part))] for part in inner]


def gen_kernels(r, nk):
    specials = [NAN, INF, -INF, 0.0, -0.0, 1.0, -1.0, 0.5, -2.5, 3.0, -3.0, 255.0, 1e308, -1e308, 5e-324]
    out = []
    for _ in range(nk):
        u = r.random()
        if u < 0.4:
            out.append((r.choice(specials), r.choice(specials)))
        elif u < 0.8:
            a = float(r.randint(-9, 9))
            out.append((a, r.choice([a, -a, float(r.randint(-9, 9)), NAN])))
        else:
            out.append((r.uniform(-10, 10), r.uniform(-10, 10)))
    return out


def run_impl(ctx, cases, kernels=None, shards=8):
    """Run the driver over the cases in parallel subprocesses; returns (outs per case, kernel obs)."""
    shards = max(1, min(shards, max(1, len(cases))))
    parts = [cases[i::shards] for i in range(shards)]
    payloads = [{"cases": [{k: c[k] for k in ("area", "mode", "xs", "ys", "shape", "data", "fdata", "fill", "skipna",
                                                "ebv", "ffill", "cats", "chunkings", "variant", "history", "dtype", "data_dtype", "fdata2") if k in c} for c in p]} for p in parts]
    if kernels is not None:
        payloads[0]["kernels"] = [[hexf(a), hexf(b)] for a, b in kernels]
    with ThreadPoolExecutor(max_workers=shards) as ex:
        res = list(ex.map(lambda p: ctx.impl("c07", p, timeout=2400), payloads))
    outs = [None] * len(cases)
    for s, rr in enumerate(res):
        for j, o in enumerate(rr["cases"]):
            outs[s + j * shards] = o
    return outs, res[0].get("kernels")


def run(ctx):
    ctx.rule = ("exhaustive half-pixel (quick) / quarter-pixel (thorough) lattices over small dyadic grids in all four extent "
                "orientations (every border, corner and outer-edge position), and over grids whose pixel size is a non-dyadic integer "
                "(49, 98, 103, 107, 161, ...: inexact reciprocal, exactly representable borders); PRNG cases: 80% with PROJ replaced by the identity table (projected coordinates given directly) on dyadic "
                "(exact in binary64) or general grids incl. flipped extents, 20% through real PROJ (laea, merc, stere, longlat, eqc); "
                "points inside / exactly on cell borders and outer edges / one ulp beside them / outside / NaN, inf, 1e30, 2^63, -0.0; "
                "integer-valued data with fill markers and NaN (sum/average only), fill_value, skipna, empty_bucket_value, category "
                "sets; data handed over as dask arrays or (10%) xarray.DataArray, of dtype float64 (half the cases) or int64 / uint8 / uint16 / uint32 / "
                "uint64 / int8 / int16 / int32 / float32 with zeros, repeated values and values near the top of the type's range; in a third of the cases a random "
                "history of 2-8 eager get_count/get_sum/get_min/get_max/get_average/get_fractions calls on ONE object (re-chunked idxs, "
                "memoised counts; 40% of them touch get_count/get_fractions only after another statistic) compared with fresh-object "
                "results; min/max/abs-max of a second data array (-data, same chunking) evaluated in the same dask.compute as the first; two (quick) or three (thorough) random dask chunk layouts (1-D and 2-D, chunk size 1, ragged) of coordinates and data per case. "
                "Non-trivial = at least one cell with two or more points and at least one point outside the area; "
                "distinct = distinct (area, coordinates, data, configuration)")
    r = ctx.rng
    ncases = ctx.n(200, 1500)
    cases = [gen_lattice_case(r, w, h, ctx.n(2, 4), fx, fy, ctx.n(2, 3))
             for (w, h) in ctx.n([(2, 2)], [(2, 2), (3, 2), (1, 3)]) for fx in (False, True) for fy in (False, True)]
    pairs = [(49, 107), (98, 161), (103, 7)] + ctx.n([], [(161, 49), (13, 98), (107, 103), (1000, 4000)])
    cases += [gen_lattice_case(r, r.randint(2, 6), r.randint(2, 6), 2, fx, fy, ctx.n(2, 3), res=pr)
              for pr in pairs for (fx, fy) in ((False, False), (True, True))]
    cases += [gen_case(r, big=ctx.thorough, nchunkings=ctx.n(2, 3)) for _ in range(ncases)]
    kernels = gen_kernels(r, ctx.n(200, 3000))
    t0 = time.time()
    outs, kobs = run_impl(ctx, cases, kernels, shards=ctx.n(8, 12))
    t_impl = time.time() - t0

    idx_lines, stat_lines, stat_ids, hist_lines, ihist_lines = [], [], [], [], []
    for ci, (case, oo) in enumerate(zip(cases, outs)):
        fails = judge(case, oo)
        good = [o for o in oo if "error" not in o]
        o = good[0] if good else None
        multi = o is not None and max(o["count"] + [0]) >= 2 and sum(o["count"]) < len(case["xs"])
        ctx.case((case["area"]["extent"], case["area"]["w"], case["area"]["h"], case["xs"], case["ys"], case["data"], case["fdata"],
                  case["fill"], case["skipna"], case["ebv"], case["cats"]), nontrivial=multi,
                 sample={"bucket_" + case["aclass"].split("_")[0] + ("_proj" if case["mode"] == "proj" else ""): {
                     "area_class": case["aclass"], "variant": case.get("variant"), "history": case.get("history"),
                     "points": list(zip([unhex(v) for v in case["xs"][:6]], [unhex(v) for v in case["ys"][:6]], case["classes"][:6])),
                     "data": [unhex(v) for v in case["data"][:6]], "idxs": o["idxs"][:6] if o else None,
                     "area": case["area"], "n_points": len(case["xs"]), "fill": unhex(case["fill"]), "skipna": case["skipna"],
                                    "count": o["count"] if o else None, "sum": [unhex(v) for v in o["sum"]] if o else None,
                                    "chunkings": case["chunkings"][:2]}})
        ctx.count("area:" + case["aclass"])
        ctx.count("shape:%dD" % len(case["shape"]))
        for cl in case["classes"]:
            ctx.count("point:" + cl)
        ctx.count("fill:" + ("nan" if case["fill"] == "nan" else "number"))
        ctx.count("skipna:%s" % case["skipna"])
        ctx.count("categories:" + ("derived" if case["cats"] is None else "given"))
        ctx.count("data_variant:" + case.get("variant", "dask"))
        ctx.count("data_dtype:" + case.get("dtype", "float64") + ("" if case.get("data_dtype", "float64") == case.get("dtype", "float64") else "(sum data float64)"))
        ctx.count("empty_bucket_value:" + ("0" if unhex(case["ebv"]) == 0 else "nan" if case["ebv"] == "nan" else "number"))
        for op, _ in case.get("history", []):
            ctx.count("history_call:" + op)
        ctx.count("object_history:" + ("yes" if case.get("history") else "no"))
        if o is not None:
            ctx.count("cells_empty", sum(1 for c in o["count"] if c == 0))
            ctx.count("cells_nonempty", sum(1 for c in o["count"] if c))
        for key, what in fails:
            ctx.add_failure(key, what, {"oracle": "bucket", "case": case, "impl": oo})
        if o is None:
            continue
        try:
            idx_lines.append(coq_idx_case(case, o))
            stat_lines.append(coq_stat_case(case, o))
            stat_ids.append(ci)
            if o.get("history"):
                hist_lines.append(coq_hist_case(case, o))
                ihist_lines.append(coq_imp_hist_case(case, o))
        except ValueError as e:
            if not fails:
                ctx.broken.append(("correspondence:statistics", "case %d: implementation output is not integer valued: %s" % (ci, e)))

    # ---- correspondence: model inside Coq
    texts = []
    per = 60
    for s in range(0, len(idx_lines), per):
        texts.append(("c07_idx_%03d" % (s // per), HDR + "Definition cases : list idx_case := [%s].\nEval vm_compute in (bad chk_idx cases).\n"
                      % ";\n".join(idx_lines[s:s + per]), "idx", s))
        texts.append(("c07_stat_%03d" % (s // per), HDR + "Definition cases : list scase := [%s].\nEval vm_compute in (bad_stats cases).\n"
                      % ";\n".join(stat_lines[s:s + per]), "stat", s))
    for s in range(0, len(hist_lines), 150):
        texts.append(("c07_hist_%03d" % (s // 150), HDR + "Definition cases : list hcase := [%s].\nEval vm_compute in (bad chk_history cases).\n"
                      % ";\n".join(hist_lines[s:s + 150]), "history", s))
    ihdr = HDR.replace("Model.C07_run Gen.GenC07.", "Model.C07_run Gen.GenC07 Base.Imp Model.ImpBucket Gen.GenC07imp Model.C07_imp_run.")
    for s in range(0, len(ihist_lines), 150):
        texts.append(("c07_imphist_%03d" % (s // 150), ihdr + "Definition cases : list ihcase := [%s].\nEval vm_compute in (bad chk_imp_history cases).\n"
                      % ";\n".join(ihist_lines[s:s + 150]), "imp_history", s))
    klines = []
    for (a, b), inv, am in zip(kernels, kobs["invalid"], kobs["absmax"]):
        try:
            od = "(Some (%s, %s))" % (to_dat(a), to_dat(b)) if abs(a) < 2 ** 52 and abs(b) < 2 ** 52 else "None"
        except ValueError:
            od = "None"
        klines.append("(%s, %s, %s, %s, %s)" % (fhex(a), fhex(b), "true" if inv else "false", fhex(unhex(am)), od))
        ctx.case(("kernel", hexf(a), hexf(b)), nontrivial=(a != a) != (b != b) or (a == a and b == b and -a > b))
        ctx.count("kernel")
        want = b if not (-a > b) else a
        if not ((am != am and want != want) or hexf(unhex(am)) == hexf(want)):
            ctx.add_failure("C07.absmax.kernel", "_get_abs_max_from_min_max(%r, %r) = %r" % (a, b, unhex(am)), {"oracle": "kernel", "args": [hexf(a), hexf(b)]})
    for s in range(0, len(klines), 500):
        texts.append(("c07_kernel_%03d" % (s // 500), HDR +
                      "Definition cases : list kcase := [%s].\nEval vm_compute in (bad chk_kernel cases).\n" % ";\n".join(klines[s:s + 500]), "kernel", s))
    t0 = time.time()
    res = ctx.coq_eval_many([(n, t) for n, t, _, _ in texts])
    sys.stderr.write("  timing: implementation %.1fs (%d cases, each under 2-3 chunk layouts), model evaluation %.1fs (%d files), total so far %.1fs\n"
                     % (t_impl, len(cases), time.time() - t0, len(texts), time.time() - ctx.t0))
    for name, _, kind, off in texts:
        out, ok = res[name]
        if not ok:
            ctx.broken.append(("correspondence:" + kind, "model evaluation failed (%s): %s" % (name, out[-400:])))
            continue
        try:
            val = evals(out)[-1]
        except IndexError:
            ctx.broken.append(("correspondence:" + kind, "no result from %s: %s" % (name, out[-300:])))
            continue
        if kind == "stat":
            nested = parse_nested(val)
            for sname, bad in zip(STAT_NAMES, nested):
                if bad:
                    ci = stat_ids[off + bad[0]]
                    ctx.broken.append(("correspondence:" + sname, "model and implementation differ on %d cases of shard %s, e.g. case %d: %s"
                                       % (len(bad), name, ci, stat_lines[off + bad[0]][:300])))
        else:
            import re
            bad = [int(x) for x in re.findall(r"-?\d+", re.sub(r"%[a-zA-Z]+", "", val))]
            if bad:
                line = (idx_lines if kind == "idx" else hist_lines if kind == "history" else ihist_lines if kind == "imp_history" else klines)[off + bad[0]]
                ctx.broken.append(("correspondence:" + ("indices" if kind == "idx" else "history" if kind == "history"
                                                        else "generated_methods_history" if kind == "imp_history" else "kernels"),
                                   "model and implementation differ on %d cases of shard %s, e.g. %s" % (len(bad), name, line[:300])))
    ctx.traces = len(stat_lines)
    ctx.notes += [
        "PROJ is an oracle: projected coordinates are taken from the implementation side (pyproj), or given directly through an "
        "identity _get_proj_coordinates for the exact border cases; _get_indices itself (float64 arithmetic, floor, int64 cast, mask, "
        "ravel) is modelled bit-exactly and compared on every point",
        "np.histogram/np.bincount, np.argsort, np.digitize, np.unique(return_index) and dask's per-chunk reduction are hand-modelled "
        "(fold over points, value sort, first position per bin, sum over the chunk list) and validated by the correspondence; only "
        "_get_invalid_mask and _get_abs_max_from_min_max are regenerated from source by the translator (the rest of the module is dask "
        "plumbing the loop-free translator rejects)",
        "data are integer-valued floats (exact sums): the order in which numpy/dask add non-integer floats is outside the theorems (IEEE gap)",
        "min/max/abs-max theorems, oracle and correspondence are on finite data as the property states; with NaN data get_min skips "
        "NaN and get_max/get_abs_max propagate it regardless of skipna, and fill_value is ignored by all three (observation, out of scope)",
    ]


def replay(ctx, data):
    """Re-run one recorded failing input on the current implementation; True iff it still fails."""
    rec = data.get("case", {})
    if rec.get("oracle") == "kernel":
        a, b = [unhex(v) for v in rec["args"]]
        _, kobs = run_impl(ctx, [], [(a, b)], shards=1)
        am = unhex(kobs["absmax"][0])
        want = b if not (-a > b) else a
        return not ((am != am and want != want) or hexf(am) == hexf(want))
    case = rec.get("case")
    if case is None:
        return False
    outs, _ = run_impl(ctx, [case], None, shards=1)
    fails = judge(case, outs[0])
    for k, wh in fails:
        print("  %s: %s" % (k, wh))
    return bool(fails)
