"""C18 - every module assigns a geographic point to the same grid cell, or to none."""
import math
from fractions import Fraction as Fr

from .common import fhex as _fhex, ints

PROP_FILE = "Properties/C18.v"
GEN = ["GenC18", "GenC18imp"]
RUN_FILES = ["Model/C18_run.v", "Model/C18_imp_run.v"]

EPS = Fr(0.02)            # masked_ints' epsilon, the exact binary64 value
TOL = Fr(1, 2 ** 26)      # pixels; slack granted to binary64 rounding next to a border on non-dyadic inputs
BIG = 1e30
MODULES = ("area_index", "grid", "quick_linesample", "gridfilter", "bucket", "ll2cr")

CRS = {
    "longlat": "+proj=longlat +datum=WGS84 +no_defs",
    "eqc": "+proj=eqc +lat_ts=0 +lon_0=0 +datum=WGS84 +units=m +no_defs",
    "merc": "+proj=merc +lon_0=0 +datum=WGS84 +units=m +no_defs",
    "laea": "+proj=laea +lat_0=50 +lon_0=10 +datum=WGS84 +units=m +no_defs",
    "stere": "+proj=stere +lat_0=90 +lat_ts=60 +lon_0=0 +datum=WGS84 +units=m +no_defs",
}


def fhex(v):
    t = _fhex(v)
    return "PrimFloat.nan" if t == "nan" else t


def hx(v):
    return float(v).hex()


def uh(s):
    return float.fromhex(s)


def finite(v):
    return not (math.isnan(v) or math.isinf(v))


def is_pow2(q):
    q = Fr(q)
    if q <= 0:
        return False
    n, d = q.numerator, q.denominator
    return (n == 1 or d == 1) and (n & (n - 1)) == 0 and (d & (d - 1)) == 0


def nice(v):
    """binary64 value that is a small multiple of 2^-20: every intermediate of the index recipes is then exact"""
    return finite(v) and abs(v) < 2 ** 31 and (Fr(v) * 2 ** 20).denominator == 1


class Area:
    def __init__(self, crs, ext, w, h, tag):
        self.crs, self.ext, self.w, self.h, self.tag = crs, tuple(float(e) for e in ext), int(w), int(h), tag
        xmin, ymin, xmax, ymax = (Fr(e) for e in self.ext)
        self.dx, self.dy = (xmax - xmin) / self.w, (ymax - ymin) / self.h
        self.dyadic = all(nice(e) for e in self.ext) and is_pow2(abs(self.dx)) and is_pow2(abs(self.dy))
        self.north_up = ymax > ymin

    def spec(self):
        return {"proj": CRS[self.crs], "extent": [hx(e) for e in self.ext], "w": self.w, "h": self.h}

    def xy_of(self, u, v):
        """projection coordinates of fractional grid position (u, v), rounded once to binary64"""
        return float(Fr(self.ext[0]) + Fr(u) * self.dx), float(Fr(self.ext[3]) - Fr(v) * self.dy)

    def uv_of(self, x, y):
        if not (finite(x) and finite(y)):
            return None
        return (Fr(x) - Fr(self.ext[0])) / self.dx, (Fr(self.ext[3]) - Fr(y)) / self.dy

    def coq(self):
        return "(mk_area %s %s %s %s %d %d)" % (fhex(self.ext[0]), fhex(self.ext[1]), fhex(self.ext[2]), fhex(self.ext[3]),
                                                self.w, self.h)


def gen_areas(ctx):
    r = ctx.rng
    A = []
    # dyadic grids: extents multiples of 2^k, power-of-two pixel sizes (binary64 exact; longlat is the identity in PROJ)
    A += [Area("longlat", (0.0, 0.0, 8.0, 4.0), 8, 4, "dyadic"),
          Area("longlat", (-16.0, 32.0, 16.0, 64.0), 16, 8, "dyadic"),
          Area("longlat", (8.0, 40.0, 12.0, 42.0), 16, 8, "dyadic"),
          Area("longlat", (0.0, 4.0, 8.0, 0.0), 8, 4, "dyadic-flipped-y"),
          Area("longlat", (8.0, 0.0, 0.0, 4.0), 8, 4, "dyadic-flipped-x"),
          Area("longlat", (-3.0, -2.0, -2.0, -1.0), 1, 1, "dyadic-1x1"),
          Area("merc", (-2.0 ** 20, -2.0 ** 19, 2.0 ** 20, 2.0 ** 19), 16, 8, "dyadic"),
          Area("laea", (-2.0 ** 21, -2.0 ** 21, 2.0 ** 21, 2.0 ** 21), 32, 32, "dyadic"),
          Area("stere", (-2.0 ** 22, -2.0 ** 22, 2.0 ** 22, 2.0 ** 22), 8, 16, "dyadic"),
          Area("eqc", (2.0 ** 20, 2.0 ** 21, 2.0 ** 21, 2.0 ** 22), 4, 8, "dyadic"),
          Area("eqc", (-2.0 ** 20, 2.0 ** 20, 2.0 ** 20, -2.0 ** 20), 8, 8, "dyadic-flipped-y")]
    sizes = [1, 2, 3, 5, 8, 13, 24, 40]
    for _ in range(ctx.n(8, 240)):
        crs = r.choice(list(CRS))
        w, h = r.choice(sizes), r.choice(sizes)
        if crs == "longlat":
            px, py = r.uniform(0.01, 1.5), r.uniform(0.01, 1.5)
            cx, cy = r.uniform(-120, 120), r.uniform(-50, 50)
            py = min(py, 30.0 / h)
        elif crs in ("eqc", "merc"):
            px, py = r.uniform(500, 6e4), r.uniform(500, 6e4)
            cx, cy = r.uniform(-1.2e7, 1.2e7), r.uniform(-5e6, 5e6)
        else:
            px, py = r.uniform(500, 4e4), r.uniform(500, 4e4)
            cx, cy = r.uniform(-1.5e6, 1.5e6), r.uniform(-1.5e6, 1.5e6)
        ext = [cx - w * px / 2, cy - h * py / 2, cx + w * px / 2, cy + h * py / 2]
        tag = "random"
        k = r.random()
        if k < 0.2:
            ext[1], ext[3] = ext[3], ext[1]
            tag = "random-flipped-y"
        elif k < 0.3:
            ext[0], ext[2] = ext[2], ext[0]
            tag = "random-flipped-x"
        A.append(Area(crs, ext, w, h, tag))
    return A


def gen_points(ctx, a):
    """fractional grid positions (u, v) aimed at the property's quantifier, as projection coordinates"""
    r = ctx.rng
    w, h = a.w, a.h
    iu = lambda: r.uniform(0.05, w - 0.05)
    iv = lambda: r.uniform(0.05, h - 0.05)
    uv = []
    band = [Fr(-1, 2), Fr(-999, 1000), Fr(-1, 4), Fr(-1, 128), Fr(-1, 32), Fr(-1, 64), Fr(-39, 2000), Fr(-41, 2000), Fr(-1, 10 ** 9)]
    for b in band:                                            # one pixel outside each of the four edges
        uv += [(b, iv()), (w - b, iv()), (iu(), b), (iu(), h - b)]
    uv += [(Fr(-1, 2), Fr(-1, 2)), (w + Fr(1, 2), h + Fr(1, 2)), (Fr(-1, 2), h + Fr(1, 2)), (w + Fr(1, 2), Fr(-1, 2)),
           (Fr(-1, 2), Fr(1, 2)), (Fr(1, 2), Fr(-1, 2))]
    border_start = len(uv)
    for k in sorted(set([0, 1, w // 2, w - 1, w])):           # on the border lines
        uv += [(k, iv()), (k, Fr(1, 2))]
    for k in sorted(set([0, 1, h // 2, h - 1, h])):
        uv += [(iu(), k), (Fr(1, 2), k)]
    uv += [(0, 0), (w, h), (0, h), (w, 0), (min(1, w), min(1, h))]
    for b in (-1, Fr(-3, 2), Fr(-5, 2), Fr(-10001, 10000), -2):   # negative fractional indices further out
        uv += [(b, iv()), (iu(), b), (w - b, iv()), (iu(), h - b)]
    for _ in range(ctx.n(10, 24)):                            # interior
        uv.append((iu(), iv()))
    for k in range(min(w, 4)):
        uv.append((k + Fr(1, 2), r.randrange(h) + Fr(1, 2)))  # pixel centres
    uv += [(-1000, iv()), (iu(), h + 1000), (10 ** 6, 10 ** 6)]     # far outside
    xy = []
    for u, v in uv:
        xy.append(a.xy_of(Fr(u), Fr(v)))
    # one ulp on either side of a few border points
    extra = []
    for (x, y) in xy[border_start:border_start + 8]:
        extra += [(math.nextafter(x, math.inf), y), (math.nextafter(x, -math.inf), y),
                  (x, math.nextafter(y, math.inf)), (x, math.nextafter(y, -math.inf))]
    return xy + extra


MALFORMED = [(float("nan"), 10.0), (10.0, float("nan")), (float("nan"), float("nan")), (float("inf"), 0.0),
             (0.0, float("-inf")), (1e30, 0.0), (0.0, 95.0), (400.0, 10.0), (-1e300, 1e300)]


def quick_cases(ctx):
    """(source, [targets]) for utils.generate_quick_linesample_arrays: small sources with targets k * 65536 (+- a few)
    pixels away in every direction (where a uint16 cast of the index wraps), and sources whose width / height is
    exactly 65535 / 65536 (last uint16 size, first int32 size) with targets across their far edge."""
    r = ctx.rng
    out = []

    def tgt(a, u0, v0, tw, th, s):
        xmin, ymin, xmax, ymax = (Fr(e) for e in a.ext)
        ext = (float(xmin + (u0 + s) * a.dx), float(ymax - (v0 + s + th) * a.dy), float(xmin + (u0 + s + tw) * a.dx), float(ymax - (v0 + s) * a.dy))
        return Area(a.crs, ext, tw, th, "ql-target")
    small = [Area("eqc", (-500.0, -500.0, 500.0, 500.0), 10, 10, "ql-small-100m"),
             Area("merc", (1000.0, 2000.0, 1100.0, 2100.0), 10, 10, "ql-small-10m"),
             Area("laea", (-64.0, -64.0, 64.0, 64.0), 8, 16, "ql-small-dyadic"),
             Area("stere", (20000.0, -1000020.0, 20100.0, -1000000.0), 10, 4, "ql-small-10m"),
             Area("eqc", (0.0, 300.0, 300.0, 0.0), 12, 10, "ql-small-flipped-y")]
    for a in small[:ctx.n(5, 5)]:
        ts = []
        ks = [-1, 1, -2, 2] if a.tag != "ql-small-100m" else [-1, 1]
        for k in ks:
            for j in ([-3, 4] if not ctx.thorough else [-3, 0, 4, a.w - 2]):
                s = r.choice([Fr(0), Fr(1, 4)])
                ts.append(tgt(a, k * 65536 + j, 2, 6, 3, s))                    # left / right
                if a.crs != "eqc" or abs(k) == 1 or float(abs(a.dy)) < 50:
                    ts.append(tgt(a, 2, k * 65536 + j, 3, 6, s))                # above / below
            ts.append(tgt(a, k * 65536 - 2, -k * 65536 - 2, 5, 5, Fr(0)))       # diagonal
        ts.append(tgt(a, -3, -3, a.w + 6, a.h + 6, Fr(1, 4)))                   # plain overhang
        ts.append(tgt(a, 65536 + a.w - 2, 1, 5, 2, Fr(0)))                      # >= 65536 + size
        out.append((a, ts))
    wide = [Area("eqc", (0.0, 0.0, 655350.0, 10.0), 65535, 1, "ql-wide-65535"),
            Area("eqc", (0.0, 0.0, 655360.0, 20.0), 65536, 2, "ql-wide-65536"),
            Area("eqc", (0.0, 0.0, 30.0, 655350.0), 3, 65535, "ql-tall-65535"),
            Area("merc", (-100.0, -327680.0, 100.0, 327680.0), 2, 65536, "ql-tall-65536")]
    for a in wide:
        ts = [tgt(a, a.w - 4, -2, 8, a.h + 4, Fr(0)) if a.w > 60000 else tgt(a, -2, a.h - 4, a.w + 4, 8, Fr(0)),
              tgt(a, -4, -2, 8, min(a.h, 4) + 3, Fr(1, 4)),
              tgt(a, -65536 - 3, -1, 6, min(a.h, 3) + 1, Fr(0)) if a.w > 60000 else tgt(a, -1, -65536 - 3, min(a.w, 3) + 1, 6, Fr(0)),
              tgt(a, 2 * 65536 - 3, 0, 6, min(a.h, 2), Fr(0)) if a.w > 60000 else tgt(a, 0, 2 * 65536 - 3, min(a.w, 2), 6, Fr(0))]
        out.append((a, ts))
    return out


def target_for(ctx, a, k):
    """a target area hanging over the source by more than one pixel, pixel centres shifted by s pixels"""
    s = [Fr(1, 4), Fr(0), Fr(1, 2), Fr(3, 8)][k % 4]
    xmin, ymin, xmax, ymax = (Fr(e) for e in a.ext)
    w, h = min(a.w, 10), min(a.h, 10)
    ext = (float(xmin - (1 + s) * a.dx), float(ymax - (h + 2 - s) * a.dy), float(xmin + (w + 2 - s) * a.dx), float(ymax + (1 + s) * a.dy))
    return Area(a.crs, ext, w + 3, h + 3, "target")


# ---------------------------------------------------------------------------------------------------- property oracle
def verdict(a, cell, x, y, band=Fr(0), tol=TOL):
    """Does attributing (x, y) to `cell` (None or (r, c)) satisfy the property text for area a?  None = yes, else a kind."""
    uv = a.uv_of(x, y)
    if uv is None:
        return None if cell is None else "nonfinite_attributed"
    u, v = uv
    w, h = a.w, a.h
    if cell is not None:
        r, c = cell
        if not (0 <= r < h and 0 <= c < w):
            return "invalid_index"
        lo_u, hi_u = c - tol - (band if c == 0 else 0), c + 1 + tol + (band if c == w - 1 else 0)
        lo_v, hi_v = r - tol - (band if r == 0 else 0), r + 1 + tol + (band if r == h - 1 else 0)
        if lo_u <= u <= hi_u and lo_v <= v <= hi_v:
            return None
        if (c == 0 and -1 < u < 0) or (r == 0 and -1 < v < 0):
            return "trunc_negative"
        if u < -tol - band or u > w + tol + band or v < -tol - band or v > h + tol + band:
            return "outside_attributed"
        return "wrong_cell"
    cu, rv = math.floor(u), math.floor(v)
    if 0 <= cu < w and 0 <= rv < h and min(u - cu, cu + 1 - u, v - rv, rv + 1 - v) > tol:
        return "interior_unassigned"
    return None


def category(a, x, y):
    uv = a.uv_of(x, y)
    if uv is None:
        return "nonfinite"
    u, v = uv
    w, h = a.w, a.h
    on_b = (u.denominator == 1) or (v.denominator == 1)
    if on_b and -1 <= u <= w + 1 and -1 <= v <= h + 1:
        return "on_border_exact"
    near = min(abs(u - round(u)), abs(v - round(v))) < Fr(1, 10 ** 6)
    if 0 < u < w and 0 < v < h:
        return "near_border" if near else "interior"
    if -1 < u < w + 1 and -1 < v < h + 1:
        if -EPS * 2 < u < w + EPS * 2 and -EPS * 2 < v < h + EPS * 2:
            return "eps_band"
        return "one_pixel_band_negative" if (u < 0 or v < 0) else "one_pixel_band_positive"
    if -3 < u < w + 3 and -3 < v < h + 3:
        return "negative_fractional_beyond" if (u < 0 or v < 0) else "outside_near"
    return "far_outside"


def code_cell(code, w):
    return None if code == 0 else divmod(code - 1, w)


def tol_for(a, x, y):
    return Fr(0) if (a.dyadic and nice(x) and nice(y)) else TOL


def observe(a, obs):
    """Per module: list of (x, y, cell-or-None or 'bad:<why>') in point order, from the driver's raw output."""
    out = {}
    m = obs["area"]
    out["area_index"] = [(uh(x), uh(y), None if (cm or rm) else (r, c))
                         for x, y, cm, c, rm, r in zip(m["x"], m["y"], m["cm"], m["c"], m["rm"], m["r"])]
    m = obs["grid"]
    out["grid"] = [(uh(x), uh(y), code_cell(code, a.w) if code == codem and code >= 0 else "bad:filled and masked image differ")
                   for x, y, code, codem in zip(m["x"], m["y"], m["img"], m["imgm"])]
    m = obs["gridfilter"] if "gridfilter" in obs else obs["gf"]
    out["gridfilter"] = [(uh(x), uh(y), code_cell(code, a.w) if code >= 0 else "bad:filter hit on a point reported invalid")
                         for x, y, code in zip(m["x"], m["y"], m["code"])]
    m = obs["bucket"]
    out["bucket"] = [(uh(x), uh(y), None if (xi == -1 and yi == -1) else ((yi, xi) if xi >= 0 and yi >= 0 else "bad:half-masked index pair"))
                     for x, y, xi, yi in zip(m["x"], m["y"], m["xi"], m["yi"])]
    return out


def ll_verdict(a, x, y, col, row):
    """ll2cr clause (any orientation): finite x < 1e30 -> (col, row) is the area's own fractional index (u - 1/2, v - 1/2);
    x >= 1e30 -> fill (NaN); a NaN coordinate must not come out as a finite index."""
    if x >= BIG:
        return None if (math.isnan(col) and math.isnan(row)) else "fill_expected"
    if math.isnan(x) or not finite(y):
        bad = (math.isnan(x) and finite(col)) or (not finite(y) and finite(row))
        return "nonfinite_attributed" if bad else None
    if not finite(x):
        return None if not finite(col) else "nonfinite_attributed"
    u, v = a.uv_of(x, y)
    if not (finite(col) and finite(row)):
        return "finite_point_lost"
    tol = tol_for(a, x, y)
    scale = 1 + max(abs(u), abs(v)) / 2 ** 20      # relative rounding of far-away indices
    if abs(Fr(col) - (u - Fr(1, 2))) > tol * scale or abs(Fr(row) - (v - Fr(1, 2))) > tol * scale:
        return "not_area_map"
    return None


# ---------------------------------------------------------------------------------------------------- run
HDR = ("From Coq Require Import ZArith List Bool PrimFloat.\n"
       "From PR Require Import Base.Num Base.F64 Base.ListX Model.Grid Model.CellIndex Model.C18_run Model.C18_imp_run.\n"
       "Import ListNotations.\nOpen Scope Z_scope.\n")


def b(v):
    return "true" if v else "false"


SAMPLE_PLAN = [  # (stream, category, predicate on the area) -> at most one sample each
    ("point", "one_pixel_band_negative", lambda a: a.crs == "merc"),
    ("point", "eps_band", lambda a: a.crs == "laea"),
    ("point", "on_border_exact", lambda a: a.crs == "longlat" and a.w == 16),
    ("point", "nonfinite", lambda a: a.crs == "stere"),
    ("point", "interior", lambda a: "flipped-y" in a.tag),
    ("point", "negative_fractional_beyond", lambda a: a.tag.startswith("random")),
    ("icq", "one_pixel_band_negative", lambda a: a.crs == "eqc"),
    ("icq", "on_border_exact", lambda a: a.crs == "longlat"),
    ("quick", "wrap_distance", lambda a: a.tag == "ql-small-100m"),
    ("quick", "wrap_distance", lambda a: a.tag.startswith("ql-wide") or a.tag.startswith("ql-tall")),
    ("quick", "one_pixel_band_positive", lambda a: a.tag == "ql-wide-65535"),
]


def pick_sample(ctx, stream, cat, a, payload):
    """payload if this case is the first to match a still-open entry of SAMPLE_PLAN, else None"""
    done = ctx.__dict__.setdefault("_c18_samples", set())
    for k, (st, c, pred) in enumerate(SAMPLE_PLAN):
        if k not in done and st == stream and c == cat and pred(a):
            done.add(k)
            return {"%s_%s_%d" % (stream, cat, k): payload}
    return None


def check_area_obs(ctx, a, ai, spec, obs, cases, agree):
    """Property oracle + Coq case text for one area's observation. cases: {kind: [coq tuple text]}"""
    an = "a%d" % ai
    npts = len(obs["lons"])
    for key in ("area", "grid", "gf", "bucket", "ll2cr", "area_proj", "area_scalar"):
        if isinstance(obs.get(key), dict) and "error" in obs[key]:
            ctx.add_failure("C18.%s.exception" % key, "%s raised %s on area %s" % (key, obs[key]["error"], spec),
                            {"area": spec, "module": key, "error": obs[key]["error"]})
            return
    per = observe(a, obs)
    core = {k: spec[k] for k in ("proj", "extent", "w", "h")}
    replay_pt = lambda i: {"area": core, "lonlat": [obs["lons"][i], obs["lats"][i]]}
    cells_by_point = [dict() for _ in range(npts)]
    for mod in ("area_index", "grid", "gridfilter", "bucket"):
        band = EPS if mod == "area_index" else Fr(0)
        for i, (x, y, cell) in enumerate(per[mod]):
            if isinstance(cell, str):
                kind = "inconsistent"
                what = cell[4:]
            else:
                kind = verdict(a, cell, x, y, band=band, tol=tol_for(a, x, y))
                what = kind
                if kind == "nonfinite_attributed" and mod == "area_index":
                    kind = "nan_unmasked"
                if kind == "trunc_negative" and mod == "area_index":
                    kind = "outside_attributed"
            if kind:
                ctx.add_failure("C18.%s.%s" % (mod, kind),
                                "%s attributes projected point (%r, %r) [lon/lat %r, %r] on %s area extent %s shape (%d, %d) to %s: %s; "
                                "fractional position %s" % (mod, x, y, uh(obs["lons"][i]), uh(obs["lats"][i]), a.crs, a.ext, a.h, a.w,
                                                            cell, what, None if a.uv_of(x, y) is None else tuple(float(t) for t in a.uv_of(x, y))),
                                dict(replay_pt(i), module=mod, observed=str(cell), kind=kind))
                cells_by_point[i][mod] = "FAIL"
            else:
                cells_by_point[i][mod] = (x, y, cell)
    # --- Coq cases (points on which the oracle failed are reported as failures and left out of the correspondence)
    m = obs["area"]
    for i in range(npts):
        if cells_by_point[i]["area_index"] != "FAIL":
            cases["area"].append("(%s, %s, %s, (%s, %d), (%s, %d))" % (an, fhex(uh(m["x"][i])), fhex(uh(m["y"][i])), b(m["cm"][i]), m["c"][i], b(m["rm"][i]), m["r"][i]))
    m = obs["area_proj"]
    for i in range(len(m["x"])):
        x, y = uh(m["x"][i]), uh(m["y"][i])
        cell = None if (m["cm"][i] or m["rm"][i]) else (m["r"][i], m["c"][i])
        kind = verdict(a, cell, x, y, band=EPS, tol=tol_for(a, x, y))
        if kind == "nonfinite_attributed":
            kind = "nan_unmasked"
        if kind == "trunc_negative":
            kind = "outside_attributed"
        if kind:
            ctx.add_failure("C18.area_index.%s" % kind, "get_array_indices_from_projection_coordinates(%r, %r) on extent %s shape (%d, %d) -> %s: %s"
                            % (x, y, a.ext, a.h, a.w, cell, kind), {"area": core, "xy": [m["x"][i], m["y"][i]], "module": "area_proj", "kind": kind})
            continue
        ctx.case(("area_proj", ai, m["x"][i], m["y"][i]), nontrivial=category(a, x, y) != "interior")
        cases["area"].append("(%s, %s, %s, (%s, %d), (%s, %d))" % (an, fhex(x), fhex(y), b(m["cm"][i]), m["c"][i], b(m["rm"][i]), m["r"][i]))
    for name, res in sorted(obs.get("area_alias", {}).items()):
        ctx.count("alias/" + name)
        if res != "same":
            kind = "alias_exception" if res.startswith("error") else "alias_differs"
            ctx.add_failure("C18.area_index.%s" % kind, "AreaDefinition.%s does not return what the index lookup it stands for returns on extent %s "
                            "shape (%d, %d): %s" % (name, a.ext, a.h, a.w, res), {"area": dict(core, xy=spec.get("xy", [])[:8]), "module": "area_alias", "alias": name})
    for i, xh, yh, code in obs["area_scalar"]:
        x, y = uh(xh), uh(yh)
        cell = code_cell(code, a.w) if code >= 0 else "bad"
        kind = "scalar_bad_index" if cell == "bad" else verdict(a, cell, x, y, band=EPS, tol=tol_for(a, x, y))
        if kind == "nonfinite_attributed" or (kind == "scalar_bad_index" and a.uv_of(x, y) is None):
            kind = "nan_unmasked"
        if kind == "trunc_negative":
            kind = "outside_attributed"
        if kind:
            ctx.add_failure("C18.area_index.%s" % kind, "scalar get_array_indices_from_lonlat(%r, %r) -> code %d (0 = ValueError) for projected (%r, %r): %s"
                            % (uh(obs["lons"][i]), uh(obs["lats"][i]), code, x, y, kind), dict(replay_pt(i), module="area_scalar", kind=kind))
            continue
        cases["area_scalar"].append("(%s, %s, %s, %d)" % (an, fhex(x), fhex(y), code))
    m = obs["grid"]
    for i in range(npts):
        if cells_by_point[i]["grid"] != "FAIL":
            cases["grid"].append("(%s, %s, %s, %d, %d, %d)" % (an, fhex(uh(m["x"][i])), fhex(uh(m["y"][i])), m["rows"][i], m["cols"][i], m["img"][i]))
    m = obs["gf"]
    for i in range(npts):
        if cells_by_point[i]["gridfilter"] != "FAIL":
            cases["gf"].append("(%s, %s, %s, %d)" % (an, fhex(uh(m["x"][i])), fhex(uh(m["y"][i])), m["code"][i]))
    m = obs["bucket"]
    for i in range(npts):
        if cells_by_point[i]["bucket"] != "FAIL":
            cases["bucket"].append("(%s, %s, %s, %d, %d)" % (an, fhex(uh(m["x"][i])), fhex(uh(m["y"][i])), m["xi"][i], m["yi"][i]))
    # --- two bucket resamplers on the same dask lon/lats (this area, a partner area of another CRS) in ONE dask.compute
    if "bucket_joint" in obs:
        j = obs["bucket_joint"]
        jr = {"area": dict(core, partner=spec["partner"], lonlat_all=list(zip(obs["lons"], obs["lats"]))), "module": "bucket_joint"}
        if "error" in j:
            ctx.add_failure("C18.bucket.joint_compute.exception", "two BucketResamplers computed in one dask.compute raised %s" % j["error"], jr)
        else:
            pa, pn = spec["_pa"], "a%d" % spec["_partner"]
            mb = obs["bucket"]
            streams = [("this area", a, an, mb["x"], mb["y"], j["xa"], j["ya"], mb["xi"], mb["yi"]),
                       ("partner area", pa, pn, j["px"], j["py"], j["xb"], j["yb"], j["xb0"], j["yb0"])]
            for label, ar, arn, xs_, ys_, xi_, yi_, xi0, yi0 in streams:
                nbad = 0
                for i in range(npts):
                    x, y = uh(xs_[i]), uh(ys_[i])
                    cell = None if (xi_[i] == -1 and yi_[i] == -1) else ((yi_[i], xi_[i]) if xi_[i] >= 0 and yi_[i] >= 0 else "bad")
                    kind = "inconsistent" if cell == "bad" else verdict(ar, cell, x, y, tol=tol_for(ar, x, y))
                    if kind is None and (xi_[i], yi_[i]) != (xi0[i], yi0[i]):
                        kind = "differs_from_standalone"
                    ctx.count("bucket_joint/" + ("self" if ar is a else "partner"))
                    ctx.case(("bj", ai, arn, xs_[i], ys_[i]), nontrivial=category(ar, x, y) != "interior")
                    if kind:
                        nbad += 1
                        if nbad == 1:
                            ctx.add_failure("C18.bucket.joint_compute.%s" % kind,
                                            "two BucketResamplers built from the same dask lon/lats (targets %s %s and %s %s), x_idxs/y_idxs of both evaluated in ONE "
                                            "dask.compute: the %s attributes lon/lat (%r, %r), its projected point (%r, %r), to %s; evaluated on its own it gives "
                                            "(x, y) index (%d, %d): %s" % (a.crs, a.ext, pa.crs, pa.ext, label, uh(obs["lons"][i]), uh(obs["lats"][i]), x, y, cell,
                                                                         xi0[i], yi0[i], kind), dict(jr, point=i, which=label, kind=kind))
                        continue
                    cases["bucket"].append("(%s, %s, %s, %d, %d)" % (arn, fhex(x), fhex(y), xi_[i], yi_[i]))
    # --- the modules one after another on the SAME caller arrays; other memory layouts; the multi-process path
    def judge(res, prefix, rp, label):
        """one module result on the first n2 points against the exact oracle (projected coordinates of the fresh, main-stream run)"""
        mod = res["module"]
        n2 = spec["history"]["shape"][0] * spec["history"]["shape"][1]
        if "error" in res:
            ctx.add_failure("%s.exception" % prefix, "%s: %s raised %s" % (label, mod, res["error"]), rp)
            return
        src = {"area": "area", "grid": "grid", "gf": "gf", "bucket": "bucket", "ll2cr": "ll2cr"}[mod]
        xs_, ys_ = obs[src]["x"], obs[src]["y"]
        if "x" in res:      # multi-process path: its own PROJ construction (on the C-contiguous copy of the same points)
            xs_, ys_ = res["x"], res["y"]
        first = True
        for i in range(n2):
            x, y = uh(xs_[i]), uh(ys_[i])
            if mod == "ll2cr":
                col, row = uh(res["cols"][i]), uh(res["rows"][i])
                kind = ll_verdict(a, x, y, col, row)
                cell = (col, row)
                line, ck = "(%s, %s, %s, %s, %s)" % (an, fhex(x), fhex(y), fhex(col), fhex(row)), "ll"
            else:
                if mod == "area":
                    cell = None if (res["cm"][i] or res["rm"][i]) else (res["r"][i], res["c"][i])
                    line, ck = "(%s, %s, %s, (%s, %d), (%s, %d))" % (an, fhex(x), fhex(y), b(res["cm"][i]), res["c"][i], b(res["rm"][i]), res["r"][i]), "area"
                elif mod == "grid":
                    cell = code_cell(res["img"][i], a.w) if res["img"][i] >= 0 else "bad"
                    line, ck = "(%s, %s, %s, %d, %d, %d)" % (an, fhex(x), fhex(y), res["rows"][i], res["cols"][i], res["img"][i]), "grid"
                elif mod == "gf":
                    cell = code_cell(res["code"][i], a.w) if res["code"][i] >= 0 else "bad"
                    line, ck = "(%s, %s, %s, %d)" % (an, fhex(x), fhex(y), res["code"][i]), "gf"
                else:
                    xi, yi = res["xi"][i], res["yi"][i]
                    cell = None if (xi == -1 and yi == -1) else ((yi, xi) if xi >= 0 and yi >= 0 else "bad")
                    line, ck = "(%s, %s, %s, %d, %d)" % (an, fhex(x), fhex(y), xi, yi), "bucket"
                kind = "inconsistent" if cell == "bad" else verdict(a, cell, x, y, band=EPS if mod == "area" else Fr(0), tol=tol_for(a, x, y))
                if kind == "nonfinite_attributed" and mod == "area":
                    kind = "nan_unmasked"
            ctx.case((prefix, ai, label, i), nontrivial=True)
            if kind:
                if first:
                    first = False
                    ctx.add_failure("%s.%s" % (prefix, kind), "%s: %s gives lon/lat (%r, %r), projected (%r, %r) on %s extent %s shape (%d, %d), the result %s: %s"
                                    % (label, mod, uh(obs["lons"][i]), uh(obs["lats"][i]), x, y, a.crs, a.ext, a.h, a.w, cell, kind), dict(rp, point=i, kind=kind))
                continue
            cases[ck].append(line)

    pts_all = [list(p) for p in zip(obs["lons"], obs["lats"])]
    if "history" in obs:
        hrp = {"area": dict(core, lonlat_all=pts_all, history=spec["history"]), "module": "history"}
        if "error" in obs["history"]:
            ctx.add_failure("C18.history.exception", "history run raised %s" % obs["history"]["error"], hrp)
        else:
            done = []
            for k, st in enumerate(obs["history"]["steps"]):
                mod = st["module"]
                ctx.count("history/%s_after_%d_calls" % (mod, min(k, 3)))
                label = "call %d (%s) after %s on the same lon/lat arrays / SwathDefinition" % (k + 1, mod, done or "nothing")
                if st.get("mutated"):
                    fc = st["first_changed"]
                    ctx.add_failure("C18.%s.mutates_caller_arrays" % {"gf": "gridfilter", "area": "area_index"}.get(mod, mod),
                                    "%s: the caller's %s array(s) were overwritten; element %d was lon/lat (%r, %r) and is now (%r, %r) [%s extent %s shape (%d, %d)]"
                                    % (label, "/".join(st["mutated"]), fc[0], uh(fc[1]), uh(fc[3]), uh(fc[2]), uh(fc[4]), a.crs, a.ext, a.h, a.w),
                                    dict(hrp, step=k, kind="mutates_caller_arrays"))
                judge(st, "C18.history.%s" % {"gf": "gridfilter", "area": "area_index"}.get(mod, mod), dict(hrp, step=k), label)
                done.append(mod)
    if "layouts" in obs:
        lrp = {"area": dict(core, lonlat_all=pts_all, history=spec["history"], layouts=spec["layouts"]), "module": "layouts"}
        if "error" in obs["layouts"]:
            ctx.add_failure("C18.layout.exception", "layout run raised %s" % obs["layouts"]["error"], lrp)
        else:
            for k, st in enumerate(obs["layouts"]["runs"]):
                mod, kind, npr = st["module"], st["layout"], st["nprocs"]
                ctx.count("layout/%s/nprocs%d" % (kind, npr))
                judge(st, "C18.layout.%s.%s%s" % ({"gf": "gridfilter", "area": "area_index"}.get(mod, mod), kind, ".nprocs%d" % npr if npr > 1 else ""),
                      dict(lrp, run=k), "%s-layout 2-D lon/lat arrays %s, nprocs=%d" % (kind, tuple(spec["layouts"]["shape"]), npr))
    # --- ll2cr
    m = obs["ll2cr"]
    ll_ok = True
    inside = 0
    counted = 0
    for i in range(npts):
        x, y, col, row = uh(m["x"][i]), uh(m["y"][i]), uh(m["cols"][i]), uh(m["rows"][i])
        if finite(col) and finite(row) and -1 <= col <= a.w + 1 and -1 <= row <= a.h + 1:
            counted += 1
        kind = ll_verdict(a, x, y, col, row)
        if kind:
            ll_ok = False
            ctx.add_failure("C18.ll2cr.%s" % kind, "ll2cr maps projected (%r, %r) on %s extent %s shape (%d, %d) to col/row (%r, %r): %s"
                            % (x, y, a.crs, a.ext, a.h, a.w, col, row, kind), dict(replay_pt(i), module="ll2cr", kind=kind))
            continue
        uv = a.uv_of(x, y)
        if uv is not None and x < BIG and TOL < uv[0] < a.w - TOL and TOL < uv[1] < a.h - TOL:
            inside += 1
        cases["ll"].append("(%s, %s, %s, %s, %s)" % (an, fhex(x), fhex(y), fhex(col), fhex(row)))
    if ll_ok:
        if m["n"] < inside:
            ctx.add_failure("C18.ll2cr.count", "ll2cr counts %d points in grid but %d lie strictly inside the extent" % (m["n"], inside),
                            {"area": dict(core, xy=spec.get("xy", []), lonlat=spec.get("lonlat", [])), "module": "ll2cr_count", "n": m["n"], "inside": inside})
        else:
            pts = "[" + "; ".join("(%s, %s)" % (fhex(uh(x)), fhex(uh(y))) for x, y in zip(m["x"], m["y"])) + "]"
            cases["ll_count"].append("(%s, %s, %d)" % (an, pts, m["n"]))
    # --- agreement between modules on points off the borders and outside the eps band
    for i in range(npts):
        got = cells_by_point[i]
        if any(v == "FAIL" for v in got.values()):
            continue
        xs = [got[mm][0] for mm in got]
        ys = [got[mm][1] for mm in got]
        x0, y0 = got["area_index"][0], got["area_index"][1]
        cat = category(a, x0, y0)
        ctx.count("%s/%s" % (a.tag.split("-")[0], cat))
        ctx.count("crs:" + a.crs)
        nontrivial = cat != "interior"
        ctx.case(("pt", ai, obs["lons"][i], obs["lats"][i]), nontrivial=nontrivial,
                 sample=pick_sample(ctx, "point", cat, a, {
                     "crs": a.crs, "area": a.tag, "extent": a.ext, "shape": [a.h, a.w], "lonlat": [uh(obs["lons"][i]), uh(obs["lats"][i])],
                     "projected_by_area": [x0, y0], "fractional_position": None if a.uv_of(x0, y0) is None else [float(t) for t in a.uv_of(x0, y0)],
                     "cells": {mm: str(got[mm][2]) for mm in got},
                     "ll2cr_col_row": [uh(obs["ll2cr"]["cols"][i]), uh(obs["ll2cr"]["rows"][i])]}))
        uv = a.uv_of(x0, y0)
        if uv is None:
            continue
        u, v = uv
        slack = Fr(1, 10 ** 5)
        spread = max(max(xs) - min(xs), 0) / float(abs(a.dx)) + max(max(ys) - min(ys), 0) / float(abs(a.dy)) if all(finite(t) for t in xs + ys) else None
        if spread is None or spread > 1e-6:
            continue   # the PROJ constructions disagree here (oracle outside C18)
        if min(abs(u - round(u)), abs(v - round(v))) <= slack:
            continue   # on / next to a border line
        if (-EPS - slack <= u <= slack or a.w - slack <= u <= a.w + EPS + slack or -EPS - slack <= v <= slack or a.h - slack <= v <= a.h + EPS + slack):
            continue   # eps band of the area's index lookup
        cells = {mm: got[mm][2] for mm in got}
        if len(set(cells.values())) != 1:
            ctx.add_failure("C18.agree", "modules disagree on projected point (%r, %r), %s extent %s shape (%d, %d): %s"
                            % (x0, y0, a.crs, a.ext, a.h, a.w, cells), dict(replay_pt(i), module="agree", cells={k: str(v) for k, v in cells.items()}))
            continue
        agree[0] += 1
        if cells["grid"] is not None:
            col, row = uh(obs["ll2cr"]["cols"][i]), uh(obs["ll2cr"]["rows"][i])
            if not (finite(col) and finite(row) and (round(row), round(col)) == cells["grid"]):
                ctx.add_failure("C18.agree.ll2cr", "ll2cr col/row (%r, %r) does not round to the cell %s of the other modules for (%r, %r)"
                                % (col, row, cells["grid"], x0, y0), dict(replay_pt(i), module="agree_ll2cr"))
    # --- ImageContainerQuick.resample / get_resampled_image on an overhanging target
    if "icq" in obs:
        m = obs["icq"]
        if "error" in m:
            ctx.add_failure("C18.grid.icq_exception", "ImageContainerQuick.resample raised %s" % m["error"],
                            {"area": dict(core, target=spec["target"], segments=spec.get("segments")), "module": "icq"})
        else:
            for j, (xh, yh, code, codem) in enumerate(zip(m["x"], m["y"], m["img"], m["imgm"])):
                x, y = uh(xh), uh(yh)
                cell = code_cell(code, a.w) if (code == codem and code >= 0) else "bad"
                kind = "inconsistent" if cell == "bad" else verdict(a, cell, x, y, tol=tol_for(a, x, y))
                cat = category(a, x, y)
                ctx.count("icq/" + cat)
                ctx.case(("icq", ai, xh, yh), nontrivial=cat != "interior",
                         sample=pick_sample(ctx, "icq", cat, a, {
                             "entry": "ImageContainerQuick.resample", "crs": a.crs, "extent": a.ext, "shape": [a.h, a.w],
                             "target_extent": [uh(e) for e in spec["target"]["extent"]], "target_shape": [spec["target"]["h"], spec["target"]["w"]],
                             "segments": spec.get("segments"), "pixel": j, "projected": [x, y], "sampled_source_cell": str(cell)}))
                if kind:
                    ctx.add_failure("C18.grid.%s" % kind, "ImageContainerQuick.resample: target pixel %d at projected (%r, %r) samples source cell %s of extent %s "
                                    "shape (%d, %d): %s" % (j, x, y, cell, a.ext, a.h, a.w, kind),
                                    {"area": dict(core, target=spec["target"], segments=spec.get("segments")), "module": "icq", "pixel": j, "kind": kind})
                    continue
                cases["grid_img"].append("(%s, %s, %s, %d)" % (an, fhex(x), fhex(y), code))
            if all(c_ == cm_ and c_ >= 0 for c_, cm_ in zip(m["img"], m["imgm"])) and len(m["img"]) == m["shape"][0] * m["shape"][1]:
                seg = spec.get("segments")
                ctx.count("imp_resampled/segments=%s" % seg)
                cases["imp_resampled"].append("(%s, %d, %d, %s, [%s], [%s])" % (
                    an, m["shape"][0], m["shape"][1], "None" if seg is None else "(Some %d)" % seg,
                    "; ".join("(%s, %s)" % (fhex(uh(xh_)), fhex(uh(yh_))) for xh_, yh_ in zip(m["x"], m["y"])),
                    "; ".join("(%d)" % v_ for v_ in m["img"])))


def check_quick_obs(ctx, a, ai, spec, obs, cases):
    an = "a%d" % ai
    core = {k: spec[k] for k in ("proj", "extent", "w", "h")}
    for t, tspec, m in zip(spec["_ql"], spec["ql_targets"], obs["quick"]):
        rp = {"area": dict(core, ql_targets=[tspec]), "module": "quick_linesample"}
        if "error" in m:
            ctx.add_failure("C18.quick_linesample.exception", "generate_quick_linesample_arrays / get_array_from_linesample raised %s for source extent %s "
                            "shape (%d, %d), target extent %s shape (%d, %d)" % (m["error"], a.ext, a.h, a.w, t.ext, t.h, t.w), rp)
            continue
        for j, (xh, yh, row, col, code, codem) in enumerate(zip(m["x"], m["y"], m["rows"], m["cols"], m["img"], m["imgm"])):
            x, y = uh(xh), uh(yh)
            cell = code_cell(code, a.w) if (code == codem and code >= 0) else "bad"
            kind = "inconsistent" if cell == "bad" else verdict(a, cell, x, y, tol=tol_for(a, x, y))
            uv = a.uv_of(x, y)
            far = uv is not None and (uv[0] <= -65536 or uv[0] >= 65536 or uv[1] <= -65536 or uv[1] >= 65536)
            if kind in ("outside_attributed", "wrong_cell") and far:
                kind = "wrapped_far_outside"
            cat = ("wrap_distance" if far else category(a, x, y))
            ctx.count("quick/%s/%s" % (m["cdtype"], cat))
            ctx.case(("ql", ai, xh, yh), nontrivial=cat != "interior",
                     sample=pick_sample(ctx, "quick", cat, a, {"entry": "generate_quick_linesample_arrays + get_array_from_linesample",
                                              "crs": a.crs, "source": a.tag, "source_extent": a.ext, "source_shape": [a.h, a.w], "target_extent": t.ext,
                                              "target_shape": [t.h, t.w], "pixel": j, "projected": [x, y],
                                              "fractional": None if uv is None else [float(uv[0]), float(uv[1])],
                                              "row_col": [row, col], "dtype": m["cdtype"], "cell": str(cell)}))
            if kind:
                ctx.add_failure("C18.quick_linesample.%s" % kind,
                                "generate_quick_linesample_arrays + get_array_from_linesample: target pixel %d at projected (%r, %r), fractional source "
                                "position %s, gets (row, col) = (%d, %d) [%s/%s] and samples source cell %s of extent %s shape (%d, %d); target extent %s "
                                "shape (%d, %d): %s" % (j, x, y, None if uv is None else (float(uv[0]), float(uv[1])), row, col, m["rdtype"], m["cdtype"],
                                                        cell, a.ext, a.h, a.w, t.ext, t.h, t.w, kind), dict(rp, pixel=j, kind=kind))
                continue
            cases["quick"].append("(%s, %s, %s, %d, %d, %d)" % (an, fhex(x), fhex(y), row, col, code))


CHK = {"imp_resampled": ("chk_imp_resampled", "generated get_resampled_image (Gen/GenC18imp) vs ImageContainerQuick.resample"),
       "quick": ("chk_quick", "generate_quick_linesample_arrays + get_array_from_linesample"),
       "area": ("chk_area", "get_array_indices_from_lonlat/_from_projection_coordinates"),
       "area_scalar": ("chk_area_scalar", "scalar get_array_indices_from_lonlat"),
       "grid": ("chk_grid", "get_linesample + get_image_from_lonlats"), "grid_img": ("chk_grid_img", "ImageContainerQuick.resample"),
       "gf": ("chk_gf", "GridFilter.get_valid_index"), "bucket": ("chk_bucket", "BucketResampler.x_idxs/y_idxs"),
       "ll": ("chk_ll", "ll2cr cols/rows"), "ll_count": ("chk_ll_count", "ll2cr swath_points_in_grid")}


def build_request(ctx, areas):
    specs = []
    for k, a in enumerate(areas):
        s = a.spec()
        xy = gen_points(ctx, a)
        s["xy"] = [[hx(x), hx(y)] for x, y in xy]
        s["lonlat"] = [[hx(lo), hx(la)] for lo, la in MALFORMED]
        n = len(xy) + len(MALFORMED)
        s["scalar"] = sorted(set(ctx.rng.sample(range(len(xy)), min(12, len(xy))) + list(range(len(xy), n))))
        s["chunks"] = ctx.rng.choice([4096, 7, 50])
        mods = ["ll2cr", "bucket", "gf", "grid", "area"]
        calls = ctx.rng.sample(mods, 5)
        calls.insert(ctx.rng.randrange(0, 3), "ll2cr")                 # ll2cr early, so that most modules also run after it
        calls.append(ctx.rng.choice(mods))
        s["history"] = {"shape": [3, n // 3], "calls": calls}
        if k % 3 == 1:
            runs = [[kind, m, 1] for kind in ("F", "T", "strided", "negstride") for m in mods]
            runs += [[kind, m, 2] for kind in ("C", "F", "T") for m in (["grid", "gf"] if a.w * a.h <= 256 else ["grid"])]
            s["layouts"] = {"shape": [3, n // 3], "runs": runs}
        partner = next((b for b in areas[k + 1:] + areas[:k] if b.crs != a.crs), None)
        if partner is not None:
            s["partner"] = partner.spec()
            s["_partner"] = areas.index(partner)
        if k % 2 == 0 or a.tag.startswith("dyadic"):
            t = target_for(ctx, a, k)
            s["target"] = t.spec()
            s["segments"] = [None, 1, 2, 3][k % 4]
        specs.append(s)
    return specs


def run(ctx):
    ctx.rule = ("areas: 11 dyadic grids (extents multiples of 2^k, power-of-two pixels; longlat/merc/laea/stere/eqc; flipped x / y; 1x1) plus "
                "PRNG areas over 5 CRSs with sizes 1..40; per area ~130 lon/lat points obtained by inverse PROJ from fractional grid positions: "
                "the one-pixel band outside each edge (incl. the 0.02-pixel eps band), border lines and +-1 ulp, negative fractional indices, "
                "interior, far outside, and NaN/inf/1e30/out-of-range lon/lat; all five modules run through their public entry points on the "
                "same lon/lat (plus projection-coordinate and scalar entry points of the area, masked/filled images, ImageContainerQuick on an "
                "overhanging half-pixel-shifted target); utils.generate_quick_linesample_arrays + ImageContainer.get_array_from_linesample on small "
                "sources with targets k*65536 (+- a few) pixels away in each direction and on sources of width/height 65535 / 65536; every area also gets a call history: the five modules in a PRNG order (ll2cr early and repeated) on the SAME C-contiguous float64 lon/lat "
                "arrays / SwathDefinition, the caller's arrays compared byte for byte around every call and every result judged by the oracle; every third "
                "area gets the same points as Fortran / transposed / strided / negative-stride 2-D arrays for all modules and C / F / T layouts with "
                "nprocs=2 for get_linesample, get_image_from_lonlats and GridFilter; two BucketResamplers built from the same dask lon/lats with targets of different CRSs have their index arrays evaluated in ONE "
                "dask.compute and are compared with the oracle and with stand-alone evaluation; the deprecated aliases get_xy_from_lonlat / lonlat2colrow / get_xy_from_proj_coords must return exactly "
                "what the lookup they stand for returns.  Samples are picked by a fixed plan (one per stream/class/CRS).  A case is non-trivial when the point is not strictly interior far from a border "
                "(edge band, border line, outside, non-finite); distinct = distinct (area, lon, lat)")
    areas = gen_areas(ctx)
    specs = build_request(ctx, areas)
    n_main = len(areas)
    for a, ts in quick_cases(ctx):
        s = a.spec()
        s.update({"xy": [], "lonlat": [], "scalar": [], "ql_targets": [t.spec() for t in ts], "_ql": ts})
        areas.append(a)
        specs.append(s)
    for s in specs[:n_main]:
        if "_partner" in s:
            s["_pa"] = areas[s["_partner"]]
    res = ctx.impl("c18", {"areas": [{k: v for k, v in s.items() if not k.startswith("_")} for s in specs]})["areas"]
    cases = {k: [] for k in CHK}
    agree = [0]
    for ai, (a, spec, obs) in enumerate(zip(areas, specs, res)):
        if ai < n_main:
            check_area_obs(ctx, a, ai, spec, obs, cases, agree)
        else:
            check_quick_obs(ctx, a, ai, spec, obs, cases)
    ctx.count("agreement_checked", agree[0])
    defs = "".join("Definition a%d : fa := %s.\n" % (i, a.coq()) for i, a in enumerate(areas))
    texts = []
    for kind, lines in cases.items():
        per = 30 if kind == "ll_count" else (8 if kind == "imp_resampled" else 400)
        for s in range(0, len(lines), per):
            chunk = lines[s:s + per]
            name = "c18_%s_%03d" % (kind, s // per)
            texts.append((name, HDR + defs + "Definition cases := [%s].\nEval vm_compute in (bad %s cases).\n" % (";\n".join(chunk), CHK[kind][0]),
                          chunk, kind))
    out = ctx.coq_eval_many([(n, t) for n, t, _, _ in texts])
    ctx.traces = sum(len(c) for _, _, c, _ in texts)
    for name, _, lines, kind in texts:
        o, ok = out[name]
        what = CHK[kind][1]
        if not ok:
            ctx.broken.append(("correspondence:" + what, "model evaluation failed: " + o[-300:]))
            continue
        bad = ints(o)
        if bad:
            ctx.broken.append(("correspondence:" + what, "model and implementation differ on %d of %d cases, e.g. %s"
                               % (len(bad), len(lines), lines[bad[0]][:300])))


def replay(ctx, data):
    """Re-run one recorded failing point on the current implementation; True iff the property oracle still rejects it."""
    case = data.get("case", {})
    spec = dict(case.get("area", {}))
    if not spec:
        return True
    a = Area(next((k for k, v in CRS.items() if v == spec["proj"]), "longlat"), [uh(e) for e in spec["extent"]], spec["w"], spec["h"], "replay")
    if case.get("module") in ("history", "layouts"):
        pts = spec.pop("lonlat_all")
        spec.update({"xy": [], "lonlat": [list(p) for p in pts], "scalar": []})
        obs = ctx.impl("c18", {"areas": [{k: v for k, v in spec.items() if not k.startswith("_")}]})["areas"][0]
        n0 = len(ctx.failures)
        check_area_obs(ctx, a, 0, spec, obs, {k: [] for k in CHK}, [0])
        if data.get("key"):
            return any(f.key == data["key"] for f in ctx.failures[n0:])
        want = "C18.layout" if case["module"] == "layouts" else ("C18.history", "mutates_caller_arrays")
        return any((f.key.startswith(want) if isinstance(want, str) else (f.key.startswith(want[0]) or want[1] in f.key)) for f in ctx.failures[n0:])
    if case.get("module") == "bucket_joint":
        ps = spec["partner"]
        pa = Area(next((k for k, v in CRS.items() if v == ps["proj"]), "longlat"), [uh(e) for e in ps["extent"]], ps["w"], ps["h"], "replay-partner")
        pts = spec.pop("lonlat_all")
        spec.update({"xy": [], "lonlat": [list(p) for p in pts], "scalar": [], "_pa": pa, "_partner": 1})
        obs = ctx.impl("c18", {"areas": [{k: v for k, v in spec.items() if not k.startswith("_")}]})["areas"][0]
        n0 = len(ctx.failures)
        check_area_obs(ctx, a, 0, spec, obs, {k: [] for k in CHK}, [0])
        return any(f.key.startswith("C18.bucket.joint_compute") for f in ctx.failures[n0:])
    if case.get("module") == "quick_linesample":
        spec.update({"xy": [], "lonlat": [], "scalar": []})
        spec["_ql"] = [Area(a.crs, [uh(e) for e in t["extent"]], t["w"], t["h"], "replay") for t in spec["ql_targets"]]
        obs = ctx.impl("c18", {"areas": [{k: v for k, v in spec.items() if not k.startswith("_")}]})["areas"][0]
        n0 = len(ctx.failures)
        check_quick_obs(ctx, a, 0, spec, obs, {k: [] for k in CHK})
        return len(ctx.failures) > n0
    if case.get("module") != "ll2cr_count":
        spec["xy"] = [case["xy"]] if "xy" in case else []
        spec["lonlat"] = [case["lonlat"]] if "lonlat" in case else []
    spec["scalar"] = [0] if (spec.get("lonlat") and not spec.get("xy")) else []
    if case.get("module") != "icq":
        spec.pop("target", None)
    obs = ctx.impl("c18", {"areas": [spec]})["areas"][0]
    cases = {k: [] for k in CHK}
    n0 = len(ctx.failures)
    check_area_obs(ctx, a, 0, spec, obs, cases, [0])
    return len(ctx.failures) > n0
