"""C12 -- geometry equality, hashing and cache keys are consistent and representation-free.

Cases: a pool of geometries (areas / swaths / stacks) described by their SPELLED constructor arguments; pairs of
pool entries (identical parameters spelled differently, or one parameter perturbed), cache-key triples, and
histories of public calls (hash, ==, append, slice, copy).  The driver reports relations only.
 * property oracle (this file, independent of the model): the property text on every pair / history step;
 * correspondence: the same relations computed by the Coq model (binary64, H := identity) inside coqc."""
import json
import struct

from .common import fhex, ints

PROP_FILE = "Properties/C12.v"
GEN = ["GenC12", "GenC12imp"]
RUN_FILES = ["Model/C12_run.v", "Model/C12_run_area.v", "Model/C12_imp_run.v"]

PROJ_FAMILIES = [
    "+proj=laea +lat_0=50 +lon_0=10 +ellps=WGS84",
    "+proj=stere +lat_0=90 +lat_ts=60 +lon_0=0 +a=6371228 +b=6371228 +units=m",
    "+proj=merc +lon_0=0 +ellps=WGS84",
    "+proj=lcc +lat_1=25 +lat_2=25 +lat_0=25 +lon_0=-95 +ellps=WGS84",
    "+proj=geos +h=35785831 +lon_0=0 +ellps=WGS84",
    "+proj=eqc +lat_ts=0 +lon_0=0 +datum=WGS84",
    "+proj=longlat +datum=WGS84",
    "+proj=tmerc +lat_0=0 +lon_0=15 +k=0.9996 +x_0=500000 +y_0=0 +ellps=GRS80",
    "+proj=ortho +lat_0=30 +lon_0=-20 +ellps=WGS84",
    "+proj=laea +lat_0=90 +lon_0=0 +R=6371000",
]
EPSG_FAMILIES = [4326, 3857, 32633, 3035, 3413, 4269, 3031]
KWARGS = [{}, {"radius_of_influence": 10000}, {"radius_of_influence": 10000.0}, {"radius_of_influence": 10001},
          {"neighbours": 1}, {"neighbours": 2}, {"epsilon": 0}, {"epsilon": 0.1}, {"fill_value": None}, {"fill_value": 0},
          {"mask": True}, {"mask": False}, {"mask": 1}, {"radius_of_influence": 10000, "neighbours": 1},
          {"neighbours": 1, "radius_of_influence": 10000}, {"radius_of_influence": 10000, "neighbours": 2},
          {"reduce_data": True}, {"reduce_data": False}, {"segments": None}, {"segments": 2},
          {"weight_funcs": "gauss"}, {"sigmas": [1, 2]}, {"sigmas": [1, 3]}, {"sigmas": [1, 3.0]},
          {"epsilon": 0, "fill_value": None, "mask": True}, {"mask": True, "epsilon": 0, "fill_value": None},
          {"fill_value": None, "mask": True, "epsilon": 0}]
# pairs of dicts that differ only in a falsy but meaningful value (0 / False / 0.0 / '' against absent, None or another value)
FALSY = [({"fill_value": 0}, {}), ({"fill_value": 0}, {"fill_value": None}), ({"epsilon": 0}, {}), ({"epsilon": 0.0}, {"epsilon": 1e-9}),
         ({"neighbours": 0}, {"neighbours": None}), ({"reduce_data": False}, {}), ({"reduce_data": False}, {"reduce_data": None}),
         ({"mask_area": False}, {}), ({"radius_of_influence": 0.0}, {}), ({"radius_of_influence": 0.0}, {"radius_of_influence": 1e-9}),
         ({"weight_funcs": ""}, {}), ({"weight_funcs": ""}, {"weight_funcs": None}), ({"segments": 0}, {"segments": None}),
         ({"fill_value": 0, "neighbours": 1}, {"neighbours": 1}), ({"mask": False}, {"mask": None})]
KW_FALSY = []
for _a, _b in FALSY:
    for _d in (_a, _b):
        if _d not in KWARGS or [type(v) for v in KWARGS[KWARGS.index(_d)].values()] != [type(v) for v in _d.values()]:
            KWARGS.append(_d)
    KW_FALSY.append((max(i for i, d in enumerate(KWARGS) if d == _a and [type(v) for v in d.values()] == [type(v) for v in _a.values()]),
                     max(i for i, d in enumerate(KWARGS) if d == _b and [type(v) for v in d.values()] == [type(v) for v in _b.values()])))
# pairs of equal dicts written in another key order
KW_ORDER = [(13, 14), (14, 13), (24, 25), (25, 26), (26, 24)]
assert all(KWARGS[a] == KWARGS[b] and list(KWARGS[a]) != list(KWARGS[b]) for a, b in KW_ORDER)

# WKT text of the same CRS as pyproj's other writers produce it (the default writer is the "wkt" spelling)
WKT_FORMATS = ["pretty", "WKT2_2015", "WKT2_2015_SIMPLIFIED", "WKT2_2019_SIMPLIFIED", "WKT1_GDAL"]
ATOL_A, RTOL_A = 1e-8, 1e-5
ATOL_S, RTOL_S = 1e-6, 5e-9


def f32ok(v):
    try:
        return struct.unpack("f", struct.pack("f", v))[0] == v
    except OverflowError:
        return False


def r32(v):
    return struct.unpack("f", struct.pack("f", v))[0]


def next32(v, k):
    """The float32 number k steps (k = -1, 0, 1) after the float32 number v."""
    i = struct.unpack("i", struct.pack("f", v))[0]
    if k == 0 or v == 0:
        return v
    i += k if v > 0 else -k
    return struct.unpack("f", struct.pack("i", i))[0]


def hx(v):
    return float(v).hex()


# ---------------------------------------------------------------------------------------------- generation
class Gen:
    def __init__(self, ctx):
        self.ctx, self.r = ctx, ctx.rng
        self.geos, self.meta = [], []
        self.pairs, self.pmeta = [], []
        self.keys, self.kmeta = [], []
        self.lru = []
        self.area_hist, self.swath_hist, self.stack_hist = [], [], []
        self.gah = []
        self.nonjson, self.njmeta = [], []

    def add(self, g, **meta):
        self.geos.append(g)
        self.meta.append(meta)
        return len(self.geos) - 1

    def pair(self, i, j, **meta):
        self.pairs.append([i, j])
        self.pmeta.append(meta)

    # ----- CRS spellings
    def crs_spellings(self, fam):
        if isinstance(fam, int):
            n = fam
            return [{"k": "str", "v": "EPSG:%d" % n}, {"k": "str", "v": "epsg:%d" % n}, {"k": "int", "v": n},
                    {"k": "from_epsg", "v": n}, {"k": "from_epsg_wkt", "v": n}, {"k": "obj", "v": "EPSG:%d" % n},
                    {"k": "wkt", "v": "EPSG:%d" % n}] + [{"k": "wkt_fmt", "v": "EPSG:%d" % n, "fmt": f} for f in WKT_FORMATS]
        parts = fam.split()
        rev = " ".join([parts[0]] + parts[:0:-1])
        d = {}
        for p in parts:
            k, v = p[1:].split("=")
            try:
                d[k] = int(v)
            except ValueError:
                try:
                    d[k] = float(v)
                except ValueError:
                    d[k] = v
        dstr = {k: str(v) for k, v in d.items()}
        return [{"k": "str", "v": fam}, {"k": "str", "v": rev}, {"k": "str", "v": "  ".join(parts) + " "},
                {"k": "dict", "v": d}, {"k": "dict", "v": dstr},
                {"k": "obj", "v": fam}, {"k": "wkt", "v": fam}, {"k": "obj_of_obj", "v": fam}] + \
               [{"k": "wkt_fmt", "v": fam, "fmt": f} for f in WKT_FORMATS]

    def crs_other(self, fam):
        if isinstance(fam, int):
            return {"k": "str", "v": "EPSG:%d" % self.r.choice([c for c in EPSG_FAMILIES if c != fam])}
        parts = fam.split()
        for i, p in enumerate(parts):
            if p.startswith("+lon_0="):
                parts[i] = "+lon_0=%g" % (float(p[7:]) + self.r.choice([1, -2.5, 0.001]))
                return {"k": "str", "v": " ".join(parts)}
        return {"k": "str", "v": fam + " +lon_0=3"}

    # ----- extents
    def base_extent(self, fam, w, h):
        r = self.r
        style = r.choice(["int", "int", "dyadic", "decimal", "random", "zero", "big"])
        geo = fam in (4326, 4269) or (isinstance(fam, str) and "longlat" in fam)
        if geo:
            res = r.choice([0.25, 0.5, 1.0, 0.1, 2.0]) if style != "random" else r.uniform(0.01, 1)
            x0 = r.randint(-170, 100) * 1.0 if style != "random" else r.uniform(-170, 100)
            y0 = r.randint(-80, 40) * 1.0 if style != "random" else r.uniform(-80, 40)
            if style == "zero":
                x0 = 0.0
            ext = [x0, y0, x0 + w * res, y0 + h * res]
        elif style == "int":
            res = r.choice([250, 500, 1000, 2000, 3000, 4000])
            x0, y0 = r.randint(-3000, 3000) * res, r.randint(-3000, 3000) * res
            ext = [float(x0), float(y0), float(x0 + w * res), float(y0 + h * res)]
        elif style == "dyadic":
            res = r.choice([0.5, 0.25, 1024.0, 1.5])
            x0, y0 = r.randint(-4000, 4000) * res, r.randint(-4000, 4000) * res
            ext = [x0, y0, x0 + w * res, y0 + h * res]
        elif style == "decimal":
            res = r.choice([1002.3, 0.1, 333.3, 2500.7])
            x0, y0 = round(r.uniform(-5e6, 5e6), 1), round(r.uniform(-5e6, 5e6), 1)
            ext = [x0, y0, x0 + w * res, y0 + h * res]
        elif style == "zero":
            res = r.choice([1000.0, 0.5, 37.7])
            ext = [0.0, -h * res, w * res, 0.0] if r.random() < 0.5 else [-w * res, 0.0, 0.0, h * res]
        elif style == "big":
            x0, y0 = r.uniform(-2e7, 2e7), r.uniform(-2e7, 2e7)
            ext = [x0, y0, x0 + r.uniform(1e3, 1e7), y0 + r.uniform(1e3, 1e7)]
        else:
            x0, y0 = r.uniform(-5e6, 5e6), r.uniform(-5e6, 5e6)
            ext = [x0, y0, x0 + r.uniform(10, 5e6), y0 + r.uniform(10, 5e6)]
        if r.random() < 0.12:
            ext = [ext[0], ext[3], ext[2], ext[1]]     # flipped
        self.ctx.count("area_extent_" + ("geo" if geo else style))
        return [float(v) for v in ext]

    def spell_extent(self, vals, force=None):
        r = self.r
        allint = all(v.is_integer() and abs(v) < 2 ** 53 for v in vals)
        all32 = all(f32ok(v) for v in vals)
        opts = ["float", "np64", "mixed_np64"]
        if allint:
            opts += ["int", "npint", "mixed_int", "int"]
        if all32:
            opts += ["f32", "mixed_f32"]
        if any(v == 0 for v in vals):
            opts += ["negzero", "negzero"]
        style = force or r.choice(opts)
        nums = []
        for v in vals:
            if style == "float" or style == "negzero":
                k = "float"
            elif style in ("np64", "int", "npint", "f32"):
                k = style
            elif style == "mixed_np64":
                k = r.choice(["float", "np64"])
            elif style == "mixed_int":
                k = r.choice(["float", "int"])
            else:
                k = r.choice(["float", "f32"])
            if k in ("int", "npint"):
                nums.append({"k": k, "v": int(v)})
            else:
                x = v
                if style == "negzero" and v == 0:
                    x = -0.0 if r.random() < 0.7 else 0.0
                nums.append({"k": k, "v": hx(x)})
        homog = len({n["k"] for n in nums}) == 1
        conts = ["tuple", "list"]
        if homog and nums[0]["k"] in ("float", "int"):
            conts.append("array")
        if homog and nums[0]["k"] == "f32":
            conts.append("array32")
        return {"cont": r.choice(conts), "nums": nums}, style

    def spell_size(self, n):
        return {"k": self.r.choice(["int", "int", "np64i", "np32i", "float", "npf64"]), "v": n}

    def areas(self):
        r, ctx = self.r, self.ctx
        fams = PROJ_FAMILIES + EPSG_FAMILIES
        nb = ctx.n(90, 900)
        for b in range(nb):
            fam = fams[b % len(fams)] if b < 2 * len(fams) else r.choice(fams)
            w, h = r.randint(1, 60), r.randint(1, 60)
            vals = self.base_extent(fam, w, h)
            sp = self.crs_spellings(fam)
            canon_ext = {"cont": "tuple", "nums": [{"k": "float", "v": hx(v)} for v in vals]}
            base = self.add({"t": "area", "crs": sp[0], "w": {"k": "int", "v": w}, "h": {"k": "int", "v": h}, "ext": canon_ext},
                            fam=fam, vals=vals, w=w, h=h, f32=False)
            variants = [base]
            for _ in range(ctx.n(5, 6)):
                what = r.choice(["crs", "crs", "ext", "ext", "size", "all"])
                c = r.choice(sp) if what in ("crs", "all") else sp[0]
                ext, style = self.spell_extent(vals) if what in ("ext", "all") else (canon_ext, "float")
                sw = self.spell_size(w) if what in ("size", "all") else {"k": "int", "v": w}
                sh = self.spell_size(h) if what in ("size", "all") else {"k": "int", "v": h}
                i = self.add({"t": "area", "crs": c, "w": sw, "h": sh, "ext": ext}, fam=fam, vals=vals, w=w, h=h,
                             f32=all(n["k"] == "f32" for n in ext["nums"]))
                variants.append(i)
                ctx.count("area_spelling_crs_" + c["k"] + ("_" + c["fmt"] if "fmt" in c else ""))
                ctx.count("area_spelling_ext_" + style + "_" + ext["cont"])
                self.pair(base, i, cls="ident", what=what)
            a, b2 = r.sample(variants[1:], 2)
            self.pair(a, b2, cls="ident", what="mixed")
            self.pair(base, base, cls="ident", what="self")
            # one parameter perturbed
            self.pair(base, self.add({"t": "area", "crs": self.crs_other(fam), "w": {"k": "int", "v": w}, "h": {"k": "int", "v": h},
                                      "ext": canon_ext}, fam=None, vals=vals, w=w, h=h, f32=False), cls="pert", what="crs")
            dw, dh = r.choice([(1, 0), (0, 1), (-1, 0), (0, -1), (1, 1)])
            w2, h2 = max(1, w + dw) if w + dw >= 1 else w + 1, max(1, h + dh) if h + dh >= 1 else h + 1
            self.pair(base, self.add({"t": "area", "crs": sp[0], "w": {"k": "int", "v": w2}, "h": {"k": "int", "v": h2}, "ext": canon_ext},
                                     fam=fam, vals=vals, w=w2, h=h2, f32=False), cls="pert", what="shape")
            for what in ("ext_far", "ext_near", "ext_boundary"):
                k = r.randrange(4)
                v2 = list(vals)
                tol = ATOL_A + RTOL_A * abs(vals[k])
                if what == "ext_far":
                    d = tol * r.choice([3, 10, 1e3]) + abs(vals[k]) * 1e-4 * r.random()
                elif what == "ext_near":
                    d = tol * r.choice([1e-3, 0.1, 0.5])
                else:
                    d = tol * (1 + r.choice([0, 1e-15, -1e-15, 1e-12, -1e-12, 1e-9, -1e-9, 1e-6, -1e-6]))
                v2[k] = vals[k] + r.choice([-1, 1]) * d
                if v2[k] == vals[k]:
                    continue
                j = self.add({"t": "area", "crs": sp[0], "w": {"k": "int", "v": w}, "h": {"k": "int", "v": h},
                              "ext": {"cont": "tuple", "nums": [{"k": "float", "v": hx(v)} for v in v2]}},
                             fam=fam, vals=v2, w=w, h=h, f32=False)
                if r.random() < 0.5:
                    self.pair(base, j, cls="pert", what=what, k=k)
                else:
                    self.pair(j, base, cls="pert", what=what, k=k)
            # float32 extents: np.isclose then works in float32 (both float32) or mixes precisions
            if all(f32ok(v) for v in vals):
                e32 = {"cont": r.choice(["tuple", "array32"]), "nums": [{"k": "f32", "v": hx(v)} for v in vals]}
                b32 = self.add({"t": "area", "crs": sp[0], "w": {"k": "int", "v": w}, "h": {"k": "int", "v": h}, "ext": e32}, fam=fam, vals=vals, w=w, h=h, f32=True)
                for _ in range(3):
                    k = r.randrange(4)
                    tol = ATOL_A + RTOL_A * abs(vals[k])
                    nv = r32(vals[k] + r.choice([-1, 1]) * tol * (1 + r.randint(-4, 4) * 2.0 ** -21))
                    if nv == vals[k]:
                        continue
                    v2 = list(vals)
                    v2[k] = nv
                    p32 = self.add({"t": "area", "crs": sp[0], "w": {"k": "int", "v": w}, "h": {"k": "int", "v": h},
                                    "ext": {"cont": "tuple", "nums": [{"k": "f32", "v": hx(v)} for v in v2]}}, fam=fam, vals=v2, w=w, h=h, f32=True)
                    for (x, y) in r.sample([(b32, p32), (p32, b32), (base, p32), (p32, base)], 2):
                        self.pair(x, y, cls="pert", what="ext_boundary_f32", k=k)
                ctx.count("area_f32_boundary")
            # histories on this area
            st = r.choice(variants)
            self.area_hist.append({"start": st, "ops": [["slice", self.spell_slice(0, h, h), self.spell_slice(0, w, w)], ["copy"], ["hash"],
                                                        ["slice", self.spell_slice(0, h, h), self.spell_slice(0, w, w)], ["eq", base]]})
            ctx.count("area_hist_fullslice", 2)
            ctx.count("area_hist_copy")
            if b % 2 == 0 or ctx.thorough:
                start = r.choice(variants)
                ops = []
                cw, chh = w, h
                for _ in range(r.randint(2, 8)):
                    o = r.choice(["hash", "hash", "eq", "slice", "slice", "copy", "fullslice"])
                    if o == "hash":
                        ops.append(["hash"])
                    elif o == "eq":
                        ops.append(["eq", r.choice(variants + [base])])
                    elif o == "copy":
                        ops.append(["copy"])
                        ctx.count("area_hist_copy")
                    elif o == "fullslice":
                        ops.append(["slice", self.spell_slice(0, chh, chh), self.spell_slice(0, cw, cw)])
                        ctx.count("area_hist_fullslice")
                    else:
                        a0 = r.randint(0, chh - 1)
                        a1 = r.randint(a0 + 1, chh)
                        b0 = r.randint(0, cw - 1)
                        b1 = r.randint(b0 + 1, cw)
                        ops.append(["slice", self.spell_slice(a0, a1, chh), self.spell_slice(b0, b1, cw)])
                        chh, cw = a1 - a0, b1 - b0
                        ctx.count("area_hist_slice")
                self.area_hist.append({"start": start, "ops": ops})
            if b < 12:
                self.lru.append([base, variants[1]])
            # cache keys
            for _ in range(ctx.n(3, 4)):
                s1, s2 = r.choice(variants), r.choice(variants)
                t1 = t2 = r.choice(variants)
                k1 = r.randrange(len(KWARGS))
                k2 = r.choice([k1, k1, r.randrange(len(KWARGS))])
                mode = r.choice(["kw", "kw", "src", "tgt", "same", "kw_order", "kw_falsy"])
                if mode == "kw":
                    k2 = r.choice([k for k in range(len(KWARGS)) if KWARGS[k] != KWARGS[k1]])
                    if r.random() < 0.5:
                        s2 = s1
                elif mode == "kw_falsy":
                    k1, k2 = r.choice(KW_FALSY)
                    if r.random() < 0.5:
                        k1, k2 = k2, k1
                    s2 = s1
                elif mode == "kw_order":
                    k1, k2 = r.choice(KW_ORDER)
                elif mode == "src":
                    s2, k2 = len(self.geos) - 1, k1      # the last perturbed area
                elif mode == "tgt":
                    t2, k2 = len(self.geos) - 1, k1
                elif mode == "same":
                    k2 = k1
                self.keys.append([s1, t1, k1, s2, t2, k2])
                self.kmeta.append({"mode": mode})

    def falsy_keys(self):
        """Every falsy-vs-absent/None/other pair of kwargs, in both orders, for one fixed (source, target)."""
        for k1, k2 in KW_FALSY:
            for a, b in ((k1, k2), (k2, k1)):
                self.keys.append([0, 0, a, 0, 0, b])
                self.kmeta.append({"mode": "kw_falsy"})
                self.ctx.count("key_kw_falsy_fixed")

    def nonjson_keys(self):
        """Keyword values JSON cannot encode, in pairs of DISTINCT values (large arrays differing only in the interior, small
        arrays, boolean masks, DataArrays, numpy scalars, CRS objects, lists of arrays) and pairs of EQUAL values rebuilt."""
        r, ctx = self.r, self.ctx
        self.nonjson, self.njmeta = [], []
        for _ in range(ctx.n(24, 120)):
            cls = r.choice(["np_big", "np_big", "xr_big", "mask_big", "np_1d", "np_small", "f32", "i64", "crs", "list_np"])
            name = r.choice(["mask", "weights", "fill_value", "sigmas"])
            if cls in ("np_big", "xr_big", "mask_big", "np_1d", "np_small"):
                shape = {"np_1d": [r.randint(1500, 3000)], "np_small": [3, 3]}.get(cls, [r.randint(34, 60), r.randint(34, 60)])
                k = {"xr_big": "xr", "mask_big": "mask"}.get(cls, "np")
                idx = [r.randint(5, n - 6) if n > 12 else r.randrange(n) for n in shape]
                va = {"k": k, "shape": shape}
                vb = {"k": k, "shape": shape, "poke": [[idx, -5.5]]}
            elif cls == "f32":
                va, vb = {"k": "f32", "v": 1.5}, {"k": "f32", "v": r.choice([2.5, 1.5000001192092896])}
            elif cls == "i64":
                va, vb = {"k": "i64", "v": 3}, {"k": "i64", "v": r.choice([4, -3])}
            elif cls == "crs":
                va, vb = {"k": "crs", "v": "EPSG:4326"}, {"k": "crs", "v": r.choice(["EPSG:4269", "+proj=laea +lat_0=50 +lon_0=10"])}
            else:
                va = {"k": "list_np", "items": [{"k": "np", "shape": [40, 40]}]}
                vb = {"k": "list_np", "items": [{"k": "np", "shape": [40, 40], "poke": [[[20, 21], 7.25]]}]}
            same = r.random() < 0.2
            self.nonjson.append([0, 0, name, va, va if same else vb])
            self.njmeta.append({"cls": cls, "same": same})
            ctx.count("key_nonjson_%s%s" % (cls, "_same" if same else ""))

    def gah_trees(self):
        """Array trees for get_array_hashable: numpy (plain / masked) and dask leaves, bare or wrapped in a DataArray with or
        without its own .name and with or without attrs['hash']."""
        r, ctx = self.r, self.ctx
        self.gah = []
        datas = [[[float(r.randint(-9, 9)) for _ in range(2)] for _ in range(2)] for _ in range(4)]
        for _ in range(ctx.n(60, 400)):
            d = r.choice(datas)
            leaf = r.choice(["np", "np", "masked", "dask"])
            if leaf == "dask":
                t = {"k": "dask", "data": [[hx(v) for v in row] for row in d], "chunks": r.choice([1, 2])}
            else:
                t = {"k": "np", "data": [[hx(v) for v in row] for row in d],
                     "mask": [[r.random() < 0.3 for _ in range(2)] for _ in range(2)] if leaf == "masked" else None}
            if leaf != "masked" and r.random() < 0.75:      # xarray turns a masked array into NaN-filled data: another array
                t = {"k": "xr", "name": r.choice([None, None, "lons", "a"]), "attr": r.choice([None, None, "h1", "lons"]), "inner": t}
            self.gah.append(t)
            ctx.count("gah_%s%s" % (leaf, "" if t["k"] != "xr" else "_in_xr%s%s" % ("_named" if t["name"] else "", "_attr" if t["attr"] else "")))

    def f32_tiny(self):
        """np.isclose in float32 differs from float64 evaluation only where |x - y| is of the order of atol: extents of
        magnitude 1e-9..1e-5 (degrees), one value moved to the float32 numbers around y +- tolerance."""
        r, ctx = self.r, self.ctx
        crs = {"k": "str", "v": PROJ_FAMILIES[6]}
        for _ in range(ctx.n(40, 400)):
            vals = [r32(r.uniform(-1, 1) * 10.0 ** r.randint(-9, -5)) for _ in range(4)]
            vals[2] = r32(vals[0] + abs(vals[2]) + 1e-9)
            vals[3] = r32(vals[1] + abs(vals[3]) + 1e-9)
            if vals[2] == vals[0] or vals[3] == vals[1]:
                continue
            w, h = r.randint(1, 9), r.randint(1, 9)
            mk = lambda vs, kind: self.add({"t": "area", "crs": crs, "w": {"k": "int", "v": w}, "h": {"k": "int", "v": h},
                                            "ext": {"cont": "tuple", "nums": [{"k": kind, "v": hx(v)} for v in vs]}},
                                           fam=PROJ_FAMILIES[6], vals=list(vs), w=w, h=h, f32=(kind == "f32"))
            b32, b64 = mk(vals, "f32"), mk(vals, "float")
            k = r.randrange(4)
            tol = ATOL_A + RTOL_A * abs(vals[k])
            nv = next32(r32(vals[k] + r.choice([-1, 1]) * tol), r.choice([-1, 0, 0, 1]))
            if nv == vals[k]:
                continue
            v2 = list(vals)
            v2[k] = nv
            p32 = mk(v2, "f32")
            for (x, y) in [(b32, p32), (p32, b32), (b64, p32), (p32, b64)]:
                self.pair(x, y, cls="pert", what="ext_boundary_f32", k=k)
            ctx.count("area_f32_tiny")

    def spell_slice(self, a, b, n):
        """A python slice (start, stop) that normalises to [a, b) on an axis of length n."""
        r = self.r
        sa = [a] + ([None] if a == 0 else []) + ([a - n] if a > 0 else [])
        sb = [b] + ([None, n + r.randint(1, 5)] if b == n else [b - n])
        return [r.choice(sa), r.choice(sb)]

    # ----- swaths
    def swath_data(self, rws, cols, style):
        r = self.r
        if style == "int":
            lon = [[float(r.randint(-179, 179)) for _ in range(cols)] for _ in range(rws)]
            lat = [[float(r.randint(-89, 89)) for _ in range(cols)] for _ in range(rws)]
        else:
            lon = [[r.uniform(-180, 180) for _ in range(cols)] for _ in range(rws)]
            lat = [[r.uniform(-90, 90) for _ in range(cols)] for _ in range(rws)]
        if style == "f4small":
            lon = [[r.uniform(-1, 1) * 10.0 ** r.randint(-8, -3) for _ in range(cols)] for _ in range(rws)]
            lat = [[r.uniform(-1, 1) * 10.0 ** r.randint(-8, -3) for _ in range(cols)] for _ in range(rws)]
        if style in ("f4", "f4small"):
            lon = [[struct.unpack("f", struct.pack("f", v))[0] for v in row] for row in lon]
            lat = [[struct.unpack("f", struct.pack("f", v))[0] for v in row] for row in lat]
        if style == "nan":
            i, j = r.randrange(rws), r.randrange(cols)
            lon[i][j] = lat[i][j] = float("nan")
        if style == "rowsame" and rws >= 2:
            lon = [list(lon[0]) for _ in range(rws)]
            lat = [list(lat[0]) for _ in range(rws)]
        return lon, lat

    def swath_spec(self, kind, lon, lat, ndim=2, dtype="f8", crs=None, chunks=2, attr=None):
        if ndim == 1:
            flat_lon = [v for row in lon for v in row]
            flat_lat = [v for row in lat for v in row]
            lon, lat = [flat_lon], [flat_lat]
        return {"t": "swath", "kind": kind, "ndim": ndim, "dtype": dtype, "crs": crs, "chunks": chunks, "attr": attr,
                "lon": [[hx(v) for v in row] for row in lon], "lat": [[hx(v) for v in row] for row in lat]}

    def swaths(self):
        r, ctx = self.r, self.ctx
        nb = ctx.n(70, 700)
        for b in range(nb):
            rws, cols = r.randint(1, 5), r.randint(1, 6)
            style = r.choice(["rand", "rand", "int", "f4", "f4small", "nan", "rowsame"])
            ndim = 1 if r.random() < 0.2 else 2
            dtype = "f4" if style in ("f4", "f4small") else "f8"
            lon, lat = self.swath_data(rws, cols, style)
            ctx.count("swath_%s_%dd" % (style, ndim))
            meta = dict(lon=lon, lat=lat, ndim=ndim, dtype=dtype, shape=(rws, cols))
            base = self.add(self.swath_spec("np", lon, lat, ndim, dtype), kind="np", **meta)
            variants = {"np": base}
            for kind in ["list", "xr", "xrnamed", "fortran", "view"]:
                if kind == "list" and dtype == "f4":
                    continue        # a python list of floats becomes float64: another dtype
                i = self.add(self.swath_spec(kind, lon, lat, ndim, dtype), kind=kind, **meta)
                variants[kind] = i
                self.pair(base, i, cls="ident", what="container_" + kind)
                ctx.count("swath_spelling_" + kind)
            self.pair(variants["xr"], variants.get("list", variants["view"]), cls="ident", what="container_mixed")
            self.pair(base, base, cls="ident", what="self")
            ch = r.choice([1, 2, 3])
            d1 = self.add(self.swath_spec("xrdask", lon, lat, ndim, dtype, chunks=ch), kind="xrdask", **meta)
            d2 = self.add(self.swath_spec("xrdask", lon, lat, ndim, dtype, chunks=ch), kind="xrdask", **meta)
            self.pair(d1, d2, cls="ident", what="container_xrdask")
            self.pair(d1, base, cls="cross", what="dask_vs_numpy")
            ctx.count("swath_spelling_xrdask")
            xa1 = xa2 = None
            if b % 3 == 0:
                at = ["L%d" % b, "T%d" % b]
                xa1 = self.add(self.swath_spec("xrattr", lon, lat, ndim, dtype, attr=at), kind="xrattr", **meta)
                xa2 = self.add(self.swath_spec("xrattr", lon, lat, ndim, dtype, attr=at), kind="xrattr", **meta)
                self.pair(xa1, xa2, cls="ident", what="container_xrattr")
                ctx.count("swath_spelling_xrattr")
            # perturbations (float64 only where the tolerance is exercised)
            i, j = r.randrange(rws), r.randrange(cols)
            for what in ("coord_far", "coord_near", "coord_boundary"):
                if style == "nan" and lon[i][j] != lon[i][j]:
                    break
                which = r.choice(["lon", "lat"])
                src = lon if which == "lon" else lat
                v = src[i][j]
                tol = ATOL_S + RTOL_S * abs(v)
                if what == "coord_far":
                    d = r.choice([1e-3, 0.5, 3e-5])
                elif what == "coord_near":
                    d = tol * r.choice([1e-3, 0.3])
                else:
                    d = tol * (1 + r.choice([0, 1e-12, -1e-12, 1e-9, -1e-9, 1e-6, -1e-6, 1e-15]))
                nv = v + r.choice([-1, 1]) * d
                if dtype == "f4":
                    nv = r32(nv)
                    if what == "coord_boundary":
                        nv = next32(r32(v + r.choice([-1, 1]) * tol), r.choice([-1, 0, 0, 1]))
                if nv == v:
                    continue
                l2 = [list(row) for row in lon]
                t2 = [list(row) for row in lat]
                (l2 if which == "lon" else t2)[i][j] = nv
                m2 = dict(meta, lon=l2, lat=t2)
                p = self.add(self.swath_spec(r.choice(["np", "xr"]), l2, t2, ndim, dtype), kind="np", **m2)
                if r.random() < 0.5:
                    self.pair(base, p, cls="pert", what=what)
                else:
                    self.pair(p, base, cls="pert", what=what)
            if ndim == 2 and rws != cols:
                flat_lon = [v for row in lon for v in row]
                flat_lat = [v for row in lat for v in row]
                l2 = [flat_lon[k * rws:(k + 1) * rws] for k in range(cols)]
                t2 = [flat_lat[k * rws:(k + 1) * rws] for k in range(cols)]
                p = self.add(self.swath_spec("np", l2, t2, 2, dtype), kind="np", **dict(meta, lon=l2, lat=t2, shape=(cols, rws)))
                self.pair(base, p, cls="pert", what="shape_reshape")
            if ndim == 2:
                p = self.add(self.swath_spec("np", lon, lat, 1, dtype), kind="np", **dict(meta, ndim=1))
                self.pair(base, p, cls="pert", what="shape_flat")
            if style == "rowsame" and rws >= 2 and ndim == 2:
                p = self.add(self.swath_spec("np", lon[:1], lat[:1], 2, dtype), kind="np", **dict(meta, lon=lon[:1], lat=lat[:1], shape=(1, cols)))
                self.pair(base, p, cls="pert", what="shape_broadcast")
                self.pair(p, base, cls="pert", what="shape_broadcast")
            if b % 4 == 0:
                p = self.add(self.swath_spec("np", lon, lat, ndim, dtype, crs="EPSG:4269"), kind="np", **meta)
                self.pair(base, p, cls="pert", what="swath_crs")
            # cache key with a swath source
            if b % 3 == 0:
                k1 = r.randrange(len(KWARGS))
                self.keys.append([base, 0, k1, variants["xr"], 0, k1])
                self.kmeta.append({"mode": "same"})
                self.keys.append([base, 0, k1, variants["xr"], 0, (k1 + 1) % len(KWARGS)])
                self.kmeta.append({"mode": "kw"})
            # histories (float64)
            if dtype == "f8":
                kinds = ["np", "xr", "xrdask"] if (b % 2 == 0 or ctx.thorough) else [r.choice(["np", "xr", "xrdask"])]
                if xa1 is not None:
                    kinds.append("xrattr")
                for start_kind in kinds:
                    start = {"np": base, "xr": variants["xr"], "xrdask": d1, "xrattr": xa1}[start_kind]
                    ops = []
                    cr, cc = rws, cols
                    for _ in range(r.randint(2, 8)):
                        o = r.choice(["hash", "hash", "eq", "append", "append", "slice", "copy", "fullslice", "concat"])
                        if ndim == 1 and o in ("slice", "fullslice"):
                            o = "hash"
                        if o == "hash":
                            ops.append(["hash"])
                        elif o == "eq":
                            ops.append(["eq", r.choice([base, variants["xr"], d2, variants["view"]])])
                        elif o == "copy":
                            ops.append(["copy"])
                        elif o in ("append", "concat"):
                            nr = r.randint(1, 3)
                            al, at = self.swath_data(nr, cc if ndim == 2 else 1, "rand")
                            if ndim == 1:
                                al, at = [[row[0] for row in al]], [[row[0] for row in at]]
                            j = self.add(self.swath_spec(r.choice(["np", "xr", "xrdask"]), al, at, ndim, "f8"), kind="np",
                                         lon=al, lat=at, ndim=ndim, dtype="f8", shape=(nr, cc))
                            ops.append([o, j])
                            cr += nr
                            ctx.count("swath_hist_" + o)
                        elif o == "fullslice":
                            ops.append(["slice", self.spell_slice(0, cr, cr), self.spell_slice(0, cc, cc)])
                            ctx.count("swath_hist_fullslice")
                        else:
                            a0 = r.randint(0, cr - 1)
                            a1 = r.randint(a0 + 1, cr)
                            b0 = r.randint(0, cc - 1)
                            b1 = r.randint(b0 + 1, cc)
                            ops.append(["slice", self.spell_slice(a0, a1, cr), self.spell_slice(b0, b1, cc)])
                            cr, cc = a1 - a0, b1 - b0
                            ctx.count("swath_hist_slice")
                    self.swath_hist.append({"start": start, "ops": ops})

    def stacks(self):
        r, ctx = self.r, self.ctx
        for b in range(ctx.n(40, 300)):
            fam = r.choice(PROJ_FAMILIES[:4])
            w = r.randint(1, 6)
            res = r.choice([1000.0, 500.0, 2500.0])
            members = []
            y = r.randint(-50, 50) * res
            x0 = r.randint(-50, 50) * res
            merge = r.random() < 0.5
            for _ in range(r.randint(2, 5)):
                h = r.randint(1, 4)
                gap = 0 if (merge and r.random() < 0.7) else r.randint(1, 3) * res
                y1 = y - gap
                members.append(self.add({"t": "area", "crs": {"k": "str", "v": fam}, "w": {"k": "int", "v": w}, "h": {"k": "int", "v": h},
                                         "ext": {"cont": "tuple", "nums": [{"k": "float", "v": hx(v)} for v in (x0, y1 - h * res, x0 + w * res, y1)]}},
                                        fam=fam, vals=[x0, y1 - h * res, x0 + w * res, y1], w=w, h=h, f32=False))
                y = y1 - h * res
            ninit = r.randint(0, len(members) - 1)
            ops = []
            rest = members[ninit:]
            if ninit == 0:
                ops.append(["append", rest.pop(0)])      # an empty stack has no digest
            while rest:
                o = r.choice(["hash", "hash", "append", "append", "eq"])
                if o == "append":
                    ops.append(["append", rest.pop(0)])
                elif o == "eq":
                    if ninit or any(p[0] == "append" for p in ops):
                        ops.append(["eq"])
                else:
                    ops.append(["hash"])
            ops.append(["hash"])
            ctx.count("stack_hist_merge" if merge else "stack_hist_gap")
            self.stack_hist.append({"init": members[:ninit], "ops": ops, "eq_fresh": True, "members": members, "merge": merge})

    def exhaustive(self):
        """Every history up to a fixed length over a fixed alphabet of calls, on a small swath (numpy and xarray+dask)
        and on a small area."""
        import itertools
        ctx = self.ctx
        L = ctx.n(3, 4)
        lon, lat = [[10.0, 11.5], [12.25, 13.0]], [[50.0, 50.5], [51.0, 51.75]]
        al, at = [[14.0, 15.0]], [[52.0, 52.5]]
        meta = dict(lon=lon, lat=lat, ndim=2, dtype="f8", shape=(2, 2))
        other = self.add(self.swath_spec("np", al, at), kind="np", lon=al, lat=at, ndim=2, dtype="f8", shape=(1, 2))
        for kind in ("np", "xrdask"):
            start = self.add(self.swath_spec(kind, lon, lat, chunks=1), kind=kind, **meta)
            twin = self.add(self.swath_spec(kind, lon, lat, chunks=1), kind=kind, **meta)
            alphabet = [["hash"], ["eq", twin], ["append", other], ["slice", [None, None], [0, 2]], ["slice", [0, 1], [None, None]], ["copy"]]
            for n in range(1, L + 1):
                for ops in itertools.product(alphabet, repeat=n):
                    self.swath_hist.append({"start": start, "ops": [list(o) for o in ops]})
                    ctx.count("swath_hist_exhaustive_" + kind)
        ext = {"cont": "tuple", "nums": [{"k": "float", "v": hx(v)} for v in (-304699.2, 3474974.0999999996, -258593.40000000002, 3523084.4999999995)]}
        for crs in ({"k": "str", "v": PROJ_FAMILIES[0]}, {"k": "str", "v": "EPSG:3857"}):
            a = self.add({"t": "area", "crs": crs, "w": {"k": "int", "v": 46}, "h": {"k": "int", "v": 48}, "ext": ext},
                         fam=None, vals=[float.fromhex(n["v"]) for n in ext["nums"]], w=46, h=48, f32=False)
            twin = self.add({"t": "area", "crs": crs, "w": {"k": "np64i", "v": 46}, "h": {"k": "float", "v": 48}, "ext": dict(ext, cont="list")},
                            fam=None, vals=[float.fromhex(n["v"]) for n in ext["nums"]], w=46, h=48, f32=False)
            alphabet = [["hash"], ["eq", twin], ["slice", [None, None], [None, None]], ["slice", [0, 1], [-1, None]], ["copy"]]
            for n in range(1, L + 1):
                for ops in itertools.product(alphabet, repeat=n):
                    self.area_hist.append({"start": a, "ops": [list(o) for o in ops]})
                    ctx.count("area_hist_exhaustive")
        ctx.exhaustive = True
        ctx.notes.append("exhaustive: every history of length <= %d over {hash, ==, append, full slice, partial slice, copy} on a 2x2 swath "
                         "(numpy; xarray over dask) and over {hash, ==, full slice, partial slice, copy} on a 46x48 area (PROJ string; EPSG:3857)" % L)

    def payload(self):
        return {"geos": self.geos, "pairs": self.pairs, "keys": self.keys, "kwargs": KWARGS, "lru": self.lru, "gah": self.gah, "nonjson": self.nonjson,
                "area_hist": self.area_hist, "swath_hist": self.swath_hist,
                "stack_hist": [{k: v for k, v in c.items() if k in ("init", "ops", "eq_fresh")} for c in self.stack_hist]}


# ---------------------------------------------------------------------------------------------- property oracle
def crs_key(obs, i, j):
    """Attribution of a digest/equality difference between two spellings of one CRS.  The known finding is a pyproj/PROJ
    phenomenon: CRS(a).to_wkt() and CRS(b).to_wkt() (tokens taken from pyproj directly) differ and are related by pyproj's
    WKT round trip.  Same pyproj tokens but different crs_wkt strings stored by pyresample is pyresample's doing."""
    gi, gj = obs["geos"][i], obs["geos"][j]
    rt = obs["rt"]
    ti, tj = gi.get("tok"), gj.get("tok")
    if ti is None or tj is None:
        return None
    if ti == tj:
        return "C12.spelling.crs_token" if gi.get("tok_impl") != gj.get("tok_impl") else None
    if rt[ti] == tj or rt[tj] == ti or rt[ti] == rt[tj]:
        return "C12.spelling.crs_wkt_epsg_vs_object"
    return "C12.spelling.crs"


def lossy_wkt(obs, geos, i, j):
    """Two area specs of one family whose CRS spellings pyproj itself maps to unrelated WKT strings because one of them is
    WKT text in another dialect (WKT1, WKT2:2015 without datum ensembles): other parameters for pyproj, not another spelling."""
    if geos[i]["t"] != "area" or geos[j]["t"] != "area":
        return False
    return any(geos[x]["crs"].get("k") == "wkt_fmt" for x in (i, j)) and crs_key(obs, i, j) == "C12.spelling.crs"


def check_pair(i, j, pm, r, obs, geos, meta):
    """The property text on one pair. Returns list of (key, what)."""
    out = []
    if "error" in r:
        return [("C12.pair.error", "building/comparing the pair raised %s: %s" % (r["error"], r.get("msg")))]
    t = geos[i]["t"]
    rel = {"==": r["e12"], "== (swapped)": r["e21"], "hash equal": r["hash"], "digest equal": r["digest"]}
    keys = r.get("keys") or {}
    for k in ("base_src", "base_tgt", "future_src"):
        if k in keys:
            rel["cache key equal (%s)" % k] = keys[k]
    for k in ("hashargs", "daskname"):
        if k in r:
            rel[k + " equal"] = r[k]
    if r["ne12"] == r["e12"]:
        out.append(("C12.eq.ne_consistent", "a != b is %s while a == b is %s" % (r["ne12"], r["e12"])))
    if not r["refl"]:
        out.append(("C12.eq.reflexive", "x == x is False"))
    if r["e12"] != r["e21"] and pm["cls"] in ("ident",):
        out.append(("C12.eq.symmetric", "a == b is %s but b == a is %s" % (r["e12"], r["e21"])))
    lossy = pm["cls"] == "ident" and lossy_wkt(obs, geos, i, j)
    if pm["cls"] == "ident" and not lossy:
        bad = [k for k, v in rel.items() if v is not True]
        if bad:
            key = None
            if t == "area":
                key = crs_key(obs, i, j)
                if key is None:
                    key = {"ext": "C12.spelling.extent_dtype", "size": "C12.spelling.shape", "crs": "C12.spelling.crs"}.get(pm["what"], "C12.spelling.area")
            else:
                key = "C12.spelling.swath_container"
            out.append((key, "identical parameters spelled differently (%s): not %s" % (pm["what"], ", ".join(bad))))
    elif pm["cls"] == "pert" and pm["what"] in ("crs", "shape", "ext_far", "coord_far", "shape_reshape", "shape_flat", "shape_broadcast"):
        if r["e12"] or r["e21"]:
            key = {"shape_broadcast": "C12.distinct.eq_broadcast", "shape_flat": "C12.distinct.eq_broadcast"}.get(pm["what"], "C12.distinct.eq." + pm["what"])
            out.append((key, "geometries differing in %s compare equal (a==b %s, b==a %s)" % (pm["what"], r["e12"], r["e21"])))
        same = [k for k, v in rel.items() if v is True and not k.startswith("==")]
        if same:
            if pm["what"].startswith("shape_") and t == "swath":
                key = "C12.distinct.swath_shape_not_hashed"
            else:
                key = "C12.distinct.digest." + pm["what"]
            out.append((key, "geometries differing in %s share: %s" % (pm["what"], ", ".join(same))))
    elif pm["cls"] == "pert" and pm["what"] == "swath_crs":
        if r["e12"] or r["digest"]:
            out.append(("C12.distinct.swath_crs_ignored", "swaths differing only in crs: == %s, digest equal %s" % (r["e12"], r["digest"])))
    # Python's contract between == and hash on any pair
    if pm["cls"] in ("ident", "cross") and r["e12"] and not r["hash"] and not any(o[0] for o in out):
        if t == "swath" and pm["cls"] == "cross":
            pass     # a numpy and a dask swath: == computes the dask arrays, hashes are of names vs bytes (container type differs)
    return out


def fail(ctx, key, what, kind, sub):
    ctx.add_failure(key, what, {"oracle": kind, "payload": sub})


# ---------------------------------------------------------------------------------------------- sub-payloads for replay
def sub_payload(g, kind, idx):
    """Self-contained payload with only item idx of the given kind (indices of geos remapped)."""
    need = []

    def use(i):
        if i not in need:
            need.append(i)
            if g.geos[i]["t"] == "stack":
                for m in g.geos[i]["members"]:
                    use(m)

    use(0)
    if kind == "pair":
        for i in g.pairs[idx]:
            use(i)
    elif kind == "key":
        s1, t1, k1, s2, t2, k2 = g.keys[idx]
        for i in (s1, t1, s2, t2):
            use(i)
    elif kind == "area_hist":
        c = g.area_hist[idx]
        use(c["start"])
        for op in c["ops"]:
            if op[0] == "eq":
                use(op[1])
    elif kind == "swath_hist":
        c = g.swath_hist[idx]
        use(c["start"])
        for op in c["ops"]:
            if op[0] in ("eq", "append", "concat"):
                use(op[1])
    elif kind == "stack_hist":
        c = g.stack_hist[idx]
        for i in c["members"]:
            use(i)
    elif kind == "nonjson":
        use(g.nonjson[idx][0])
        use(g.nonjson[idx][1])
    mp = {old: new for new, old in enumerate(need)}
    geos = []
    for old in need:
        s = json.loads(json.dumps(g.geos[old]))
        if s["t"] == "stack":
            s["members"] = [mp[m] for m in s["members"]]
        geos.append(s)
    p = {"geos": geos, "kwargs": KWARGS, "meta": [g.meta[o] for o in need]}
    if kind == "pair":
        p["pairs"] = [[mp[i] for i in g.pairs[idx]]]
        p["pmeta"] = [g.pmeta[idx]]
    elif kind == "key":
        s1, t1, k1, s2, t2, k2 = g.keys[idx]
        p["keys"] = [[mp[s1], mp[t1], k1, mp[s2], mp[t2], k2]]
        p["kmeta"] = [g.kmeta[idx]]
    elif kind == "nonjson":
        c = g.nonjson[idx]
        p["nonjson"] = [[mp[c[0]], mp[c[1]]] + c[2:]]
        p["njmeta"] = [g.njmeta[idx]]
    elif kind == "area_hist":
        c = g.area_hist[idx]
        p["area_hist"] = [{"start": mp[c["start"]], "ops": [[op[0], mp[op[1]]] if op[0] == "eq" else op for op in c["ops"]]}]
    elif kind == "swath_hist":
        c = g.swath_hist[idx]
        p["swath_hist"] = [{"start": mp[c["start"]],
                            "ops": [[op[0], mp[op[1]]] if op[0] in ("eq", "append", "concat") else op for op in c["ops"]]}]
    elif kind == "stack_hist":
        c = g.stack_hist[idx]
        p["stack_hist"] = [{"init": [mp[i] for i in c["init"]], "eq_fresh": True, "merge": c["merge"], "members": [mp[i] for i in c["members"]],
                            "ops": [[op[0], mp[op[1]]] if op[0] == "append" else op for op in c["ops"]]}]
    return p


class PGen:
    """A payload re-read from a replay file, with the attributes the oracle needs."""

    def __init__(self, p):
        self.geos, self.meta = p["geos"], p.get("meta", [{}] * len(p["geos"]))
        self.pairs, self.pmeta = p.get("pairs", []), p.get("pmeta", [])
        self.keys, self.kmeta = p.get("keys", []), p.get("kmeta", [])
        self.lru = []
        self.nonjson, self.njmeta = p.get("nonjson", []), p.get("njmeta", [])
        self.area_hist, self.swath_hist, self.stack_hist = p.get("area_hist", []), p.get("swath_hist", []), p.get("stack_hist", [])

    def payload(self):
        return {"geos": self.geos, "pairs": self.pairs, "keys": self.keys, "kwargs": KWARGS, "lru": [], "nonjson": self.nonjson,
                "area_hist": self.area_hist, "swath_hist": self.swath_hist,
                "stack_hist": [{k: v for k, v in c.items() if k in ("init", "ops", "eq_fresh")} for c in self.stack_hist]}


def oracle(g, obs):
    """Property text on all observations. Returns list of (key, what, kind, idx)."""
    res = []
    for idx, ((i, j), pm, r) in enumerate(zip(g.pairs, g.pmeta, obs["pairs"])):
        for key, what in check_pair(i, j, pm, r, obs, g.geos, g.meta):
            res.append((key, "pair %s / %s: %s" % (json.dumps(g.geos[i])[:160], json.dumps(g.geos[j])[:160], what), "pair", idx))
    for gi, (spec, o) in enumerate(zip(g.geos, obs["geos"])):
        if "error" in o and not any(gi in p for p in g.pairs):
            pass
    for idx, (kc, km, r) in enumerate(zip(g.keys, g.kmeta, obs["keys"])):
        if "error" in r:
            res.append(("C12.key.error", "cache key computation raised %s %s" % (r["error"], r.get("msg")), "key", idx))
            continue
        s1, t1, k1, s2, t2, k2 = kc
        rels = {k: r[k] for k in ("base", "future", "func", "hash_dict", "cache_filename") if k in r}
        if not r["base_args"]:
            res.append(("C12.key.get_hash_args", "get_hash(src, tgt, **kw) differs from the resampler's own key for the same geometries", "key", idx))
        if (KWARGS[k1] != KWARGS[k2] or km["mode"] == "kw_falsy") and any(rels.values()):
            same = [k for k, v in rels.items() if v]
            key = "C12.key.kwargs.falsy" if km["mode"] == "kw_falsy" else "C12.key.kwargs"
            res.append((key, "kwargs %s vs %s give the same cache key through %s" % (KWARGS[k1], KWARGS[k2], ", ".join(same)), "key", idx))
        if km["mode"] in ("kw_order", "same") and (lossy_wkt(obs, g.geos, s1, s2) or lossy_wkt(obs, g.geos, t1, t2)):
            continue
        if km["mode"] == "kw_order" and not all(rels.values()):
            key = crs_key(obs, s1, s2) or crs_key(obs, t1, t2) or ("C12.key.kwargs_order" if r["geo"] else "C12.key.spelling")
            res.append((key, "the same kwargs written in another order (%s / %s) give different cache keys (%s)" % (KWARGS[k1], KWARGS[k2], rels), "key", idx))
        if km["mode"] == "same" and not all(rels.values()):
            key = crs_key(obs, s1, s2) or crs_key(obs, t1, t2) or "C12.key.spelling"
            res.append((key, "identical geometries (other spelling) and identical kwargs give different cache keys (%s)" % rels, "key", idx))
        grels = {k: v for k, v in rels.items() if k != "hash_dict"}      # hash_dict alone does not see the geometries
        if km["mode"] in ("src", "tgt") and any(grels.values()):
            res.append(("C12.key.geometry", "a different %s geometry gives the same cache key (%s)" % (km["mode"], grels), "key", idx))
    for idx, (c, km, r) in enumerate(zip(getattr(g, "nonjson", []), getattr(g, "njmeta", []), obs.get("nonjson", []))):
        if "error" in r:
            res.append(("C12.key.error", "building non-JSON keyword values raised %s %s" % (r["error"], r.get("msg")), "nonjson", idx))
            continue
        for ep in r["a"]:
            ka, kb = r["a"][ep].get("key"), r["b"][ep].get("key")
            if ka is None or kb is None:
                continue        # a loud error (TypeError: not JSON serializable) is an acceptable answer
            if not km["same"] and ka == kb:
                res.append(("C12.key.kwargs.nonjson", "keyword %s=%s vs %s (distinct values) give the same cache key through %s"
                            % (c[2], json.dumps(c[3]), json.dumps(c[4]), ep), "nonjson", idx))
                break
            if km["same"] and ka != kb:
                res.append(("C12.key.kwargs.nonjson_same", "keyword %s=%s built twice gives two cache keys through %s" % (c[2], json.dumps(c[3]), ep), "nonjson", idx))
                break
    for idx, (c, steps) in enumerate(zip(g.area_hist, obs["area_hist"])):
        rt = obs["rt"]
        for n, (op, r) in enumerate(zip(c["ops"], steps)):
            if "error" in r:
                res.append(("C12.hist.area_error", "history %s raised %s at step %d: %s" % (c["ops"], r["error"], n, r.get("msg")), "area_hist", idx))
                break
            if not r["memo_ok"]:
                res.append(("C12.memo.area_" + op[0], "after %s: hash(area) is not the hash of its current digest" % (c["ops"][:n + 1],), "area_hist", idx))
                break
            # copy() and a full slice (shape kept) of the area as it was before the call: same digest / hash, and ==
            if op[0] == "copy" or (op[0] == "slice" and r["same_shape_prev"]):
                bad = []
                if not r["deq_prev"]:
                    bad.append("digest changed")
                if not r["hash_eq_prev"]:
                    bad.append("hash changed")
                if not all(r["eq_prev"]):
                    bad.append("not == the area it was taken from %s" % (r["eq_prev"],))
                if bad:
                    tp = r["tok_prev"]
                    if tp not in obs.get("direct_toks", [tp]) and rt[tp] in obs.get("direct_toks", []):
                        key = "C12.spelling.crs_token"      # crs_wkt held a string that is not pyproj's WKT for the projection
                    elif rt[tp] != tp or r["tok"] != tp:
                        key = "C12.spelling.crs_wkt_epsg_vs_object"
                    else:
                        key = "C12.fullslice.extent_ulp" if op[0] == "slice" else "C12.copy.digest"
                    res.append((key, "%s of %s after %s: %s" % ("copy()" if op[0] == "copy" else "full slice %s" % (op[1:],), json.dumps(g.geos[c["start"]])[:300],
                                                                 c["ops"][:n], "; ".join(bad)), "area_hist", idx))
                    break
            if op[0] in ("hash", "eq") and not (r["deq_prev"] and r["hash_eq_prev"]):
                res.append(("C12.memo.area_" + op[0], "a %s call changed the digest/hash of the area" % op[0], "area_hist", idx))
                break
    for idx, (c, steps) in enumerate(zip(g.swath_hist, obs["swath_hist"])):
        for n, (op, r) in enumerate(zip(c["ops"], steps)):
            if "error" in r:
                res.append(("C12.hist.swath_error", "history %s raised %s at step %d: %s" % (c["ops"], r["error"], n, r.get("msg")), "swath_hist", idx))
                break
            what = None
            if not r["memo_ok"]:
                what = "hash(swath) is not the hash of its current digest"
            elif not r["fresh_ok"]:
                what = "hash(swath) != hash(SwathDefinition(swath.lons, swath.lats))"
            elif not all(r["fresh_eq"]):
                what = "swath is not == a fresh swath of its own coordinates %s" % (r["fresh_eq"],)
            if op[0] == "slice" and r["deq_prev"]:
                pshape = steps[n - 1]["shape"] if n else obs["geos"][c["start"]].get("shape")
                if pshape is not None and list(pshape) != list(r["shape"]):
                    key = "C12.distinct.hash_attr_survives_slice" if r["kind"] == 3 else "C12.distinct.digest.swath_slice"
                    res.append((key, "after %s: a slice of shape %s of a swath of shape %s keeps its digest" % ([o[0] for o in c["ops"][:n + 1]], r["shape"], pshape), "swath_hist", idx))
                    break
            if op[0] in ("append", "concat") and r["deq_prev"]:
                res.append(("C12.distinct.digest.swath_append", "after %s: appending rows did not change the digest" % ([o[0] for o in c["ops"][:n + 1]],), "swath_hist", idx))
                break
            if op[0] in ("hash", "eq", "copy") and not r["deq_prev"]:
                res.append(("C12.memo." + op[0], "after %s: a %s call changed the digest" % ([o[0] for o in c["ops"][:n + 1]], op[0]), "swath_hist", idx))
                break
            if what:
                last_mut = [o[0] for o in c["ops"][:n + 1] if o[0] in ("append", "slice", "copy", "concat")]
                res.append(("C12.memo." + (last_mut[-1] if last_mut else op[0]), "after %s: %s" % ([o[0] for o in c["ops"][:n + 1]], what), "swath_hist", idx))
                break
    for idx, (c, steps) in enumerate(zip(g.stack_hist, obs["stack_hist"])):
        for n, (op, r) in enumerate(zip(c["ops"], steps)):
            if "error" in r:
                res.append(("C12.hist.stack_error", "history %s raised %s at step %d: %s" % (c["ops"], r["error"], n, r.get("msg")), "stack_hist", idx))
                break
            what = None
            if not r["memo_ok"]:
                what = "hash(stack) is not the hash of its current digest"
            elif not r["fresh_ok"] or not r["fresh_dig"]:
                what = "hash/digest differ from a fresh stack of the same areas"
            elif "fresh_eq" in r and not all(r["fresh_eq"]):
                what = "stack is not == a fresh stack of the same areas %s" % (r["fresh_eq"],)
            if op[0] == "append" and r["deq_prev"]:
                res.append(("C12.distinct.digest.stack_append", "after %s: appending an area did not change the digest of the stack" % ([o[0] for o in c["ops"][:n + 1]],), "stack_hist", idx))
                break
            if what:
                res.append(("C12.memo.stacked_append", "after %s: %s" % ([o[0] for o in c["ops"][:n + 1]], what), "stack_hist", idx))
                break
    return res


# ---------------------------------------------------------------------------------------------- Coq text
def fx(x):
    x = float(x)
    if x != x:
        return "PrimFloat.nan"
    if x in (float("inf"), float("-inf")):
        return "PrimFloat.infinity" if x > 0 else "PrimFloat.neg_infinity"
    return fhex(x)


def zopt(v):
    return "None" if v is None else "(Some (%d))" % v


def osl(s):
    return "(mk_oslice %s %s)" % (zopt(s[0]), zopt(s[1]))


def b(v):
    return "true" if v else "false"


def coq_num(n):
    if n["k"] in ("int", "npint"):
        return "(NInt (%d))" % n["v"]
    return "(%s %s)" % ("NF32" if n["k"] == "f32" else "NF64", fx(float.fromhex(n["v"])))


def coq_rows(rows):
    return "[" + "; ".join("[" + "; ".join(fx(float.fromhex(x) if isinstance(x, str) else x) for x in row) + "]" for row in rows) + "]"


def coq_geo(g, i, obs):
    spec, o = g.geos[i], obs["geos"][i]
    if "error" in o:
        return None
    if spec["t"] == "area":
        nums = spec["ext"]["nums"]
        if spec["ext"]["cont"] == "array" and nums[0]["k"] == "int":
            pass        # int64 array: the numbers are still those integers
        return "GA (area_of F64 (%d) (%d) (%d) (%s)) %s" % (o["tok"], spec["w"]["v"], spec["h"]["v"], ", ".join(coq_num(n) for n in nums),
                                                            b(all(n["k"] == "f32" for n in nums)))
    if spec["t"] == "swath":
        lon, lat = spec["lon"], spec["lat"]
        if spec["ndim"] == 1:
            lon, lat = [[x] for x in lon[0]], [[x] for x in lat[0]]
        return "GS (mk_swath (%d) (%d) %s %s (%d) (%d)) %s" % (o["kind"], spec["ndim"], coq_rows(lon), coq_rows(lat), o["names"][0], o["names"][1],
                                                              b(spec.get("dtype") == "f4"))
    return None


HDR0 = ("From Coq Require Import ZArith List Bool PrimFloat.\nFrom PR Require Model.Stack.\nFrom PR Require Import Base.Num Base.F64 Base.Slice Base.ListX Model.HashEq "
        "Model.C12_run.\nImport ListNotations.\nOpen Scope Z_scope.\n")
# only the area histories execute the regenerated __getitem__: the other shards still run when the translation is broken
HDR_IMP = HDR0 + "From PR Require Import Base.Imp Model.ImpHash Gen.GenC12 Gen.GenC12imp Model.C12_imp_run.\n"
HDR_AREA = HDR0 + "From PR Require Import Gen.GenC12 Model.C12_slice Model.C12_run_area.\n"


def shard_text(g, obs, kind, items):
    """items: list of (needed geo indices, function(mp) -> case text). Returns Coq text or None."""
    need = []
    for idxs, _ in items:
        for i in idxs:
            if i not in need:
                need.append(i)
    mp = {old: new for new, old in enumerate(need)}
    pool = []
    for old in need:
        t = coq_geo(g, old, obs)
        pool.append(t if t is not None else "dflt_geo")
    if kind == "imp_gah":
        cases = [f({}) for _, f in items]
        return cases, (HDR_IMP + "Definition cases : list gah_case := [\n%s].\nEval vm_compute in (bad chk_imp_gah cases).\n" % ";\n".join(cases))
    chk = {"imp_pair": "chk_imp_pair", "pair": "chk_pair", "key": "chk_key", "area_hist": "chk_area_hist", "swath_hist": "chk_swath_hist", "stack_hist": "chk_stack_hist"}[kind]
    ty = {"imp_pair": "imp_pair_case", "pair": "pair_case", "key": "key_case", "area_hist": "area_hist_case", "swath_hist": "swath_hist_case", "stack_hist": "stack_hist_case"}[kind]
    cases = [f(mp) for _, f in items]
    return cases, ((HDR_AREA if kind == "area_hist" else HDR_IMP if kind == "imp_pair" else HDR0) + "Definition pool : list geo := [\n%s].\nDefinition cases : list %s := [\n%s].\nEval vm_compute in (bad (%s pool) cases).\n"
            % (";\n".join(pool), ty, ";\n".join(cases), chk))


def build_coq(ctx, g, obs, skip):
    """All correspondence shards. skip: set of (kind, idx) not to be fed to the model (driver errors)."""
    items = {"pair": [], "key": [], "area_hist": [], "swath_hist": [], "stack_hist": [], "imp_pair": [], "imp_gah": []}
    # ---- wave 3: the imp-translated get_array_hashable on array trees
    import hashlib
    strs = {}

    def sid(x):
        return strs.setdefault(x, len(strs) + 1)

    def cid(data):
        raw = b"".join(struct.pack("<d", float.fromhex(v)) for row in data for v in row)
        return int(hashlib.sha1(raw).hexdigest()[:12], 16)

    def tree_txt(t, names):
        if t["k"] == "np":
            return "(PNp (%d) %s)" % (cid(t["data"]), "None" if t.get("mask") is None else "(Some (7))")
        if t["k"] == "dask":
            return "(PDask [TName (%d)] (%d))" % (sid(names[0]), cid(t["data"]))
        opt = lambda v: "None" if v is None else "(Some [TName (%d)])" % sid(v)
        return "(PXr %s %s %s)" % (opt(t.get("name")), opt(t.get("attr")), tree_txt(t["inner"], names))

    def leaf_data(t):
        return leaf_data(t["inner"]) if t["k"] == "xr" else t["data"]
    for t, r in zip(getattr(g, "gah", []), obs.get("gah", [])):
        if "error" in r:
            ctx.broken.append(("correspondence:imp_gah", "get_array_hashable raised %s on %s" % (r["error"], json.dumps(t)[:200])))
            continue
        if "name" in r:
            exp = "(TName (%d))" % sid(r["name"])
        else:
            raw = b"".join(struct.pack("<d", float.fromhex(v)) for row in leaf_data(t) for v in row)
            exp = "(TInt (%d))" % cid(leaf_data(t)) if hashlib.sha1(raw).hexdigest() == r["bytes"] else "(TInt (-1))"
        items["imp_gah"].append(([], (lambda mp, t=t, r=r, exp=exp: "(%s, %s)" % (tree_txt(t, r["dask_names"]), exp))))
    okgeo = lambda i: "error" not in obs["geos"][i] and g.geos[i]["t"] != "stack"
    for idx, ((i, j), pm, r) in enumerate(zip(g.pairs, g.pmeta, obs["pairs"])):
        if "error" in r or not (okgeo(i) and okgeo(j)) or ("pair", idx) in skip:
            continue
        if g.geos[i]["t"] == "swath" and g.geos[j]["t"] == "swath":
            items["imp_pair"].append(([i, j], (lambda mp, i=i, j=j, r=r: "(%d, %d, %s)" % (mp[i], mp[j], b(r["digest"])))))
        rels = [r["hash"], r["digest"]] + [r[k] for k in ("hashargs", "daskname") if k in r]
        rels += [v for k, v in sorted((r.get("keys") or {}).items()) if k != "error"]
        c12, c21 = r.get("c12", True), r.get("c21", True)
        items["pair"].append(([i, j], (lambda mp, i=i, j=j, c12=c12, c21=c21, r=r, rels=rels:
                                       "(%d, %d, %s, %s, %s, %s, [%s])" % (mp[i], mp[j], b(c12), b(c21), b(r["e12"]), b(r["e21"]), "; ".join(b(x) for x in rels)))))
    jid = {}
    for t in obs["json"]:
        jid.setdefault(t, len(jid))
    for idx, (kc, r) in enumerate(zip(g.keys, obs["keys"])):
        s1, t1, k1, s2, t2, k2 = kc
        if "error" in r or not all(okgeo(i) for i in (s1, t1, s2, t2)):
            continue
        j1, j2 = jid[obs["json"][k1]], jid[obs["json"][k2]]
        items["key"].append(([s1, t1, s2, t2], (lambda mp, kc=kc, r=r, j1=j1, j2=j2:
                                                "(%d, %d, %d, %d, %d, %d, [%s; %s; %s; %s])" % (mp[kc[0]], mp[kc[1]], j1, mp[kc[3]], mp[kc[4]], j2, b(r["base"]), b(r["future"]), b(r["func"]), b(r["cache_filename"])))))
    rt = obs["rt"]
    rt_tab = "[" + "; ".join("(%d, %d)" % (k, v) for k, v in enumerate(rt)) + "]"
    for idx, (c, steps) in enumerate(zip(g.area_hist, obs["area_hist"])):
        if any("error" in s for s in steps) or not okgeo(c["start"]) or not all(okgeo(op[1]) for op in c["ops"] if op[0] == "eq"):
            continue
        # AreaDefinition.__init__ computes (x1 - x0) / float(width) with the caller's scalars: np.float32 numbers (also next to
        # Python floats, which numpy treats as weak) make the pixel size a float32, so partial slices of such an area carry
        # float32-rounded extents.  That path is not modelled (the property oracle above still judges these histories).
        if any(n["k"] == "f32" for n in g.geos[c["start"]]["ext"]["nums"]):
            ctx.count("area_hist_not_modelled_float32_pixel_size")
            continue
        need = [c["start"]] + [op[1] for op in c["ops"] if op[0] == "eq"]

        def f(mp, c=c, steps=steps):
            parts = []
            for op, r in zip(c["ops"], steps):
                if op[0] == "hash":
                    o = "AHash"
                elif op[0] == "eq":
                    o = "AEq (%d) %s %s %s %s" % (mp[op[1]], b(r["c12"]), b(r["c21"]), b(r["e12"]), b(r["e21"]))
                elif op[0] == "slice":
                    o = "ASlice %s %s" % (osl(op[1]), osl(op[2]))
                else:
                    o = "ACopy"
                parts.append("(%s, (%s, %s, (%d), (%d), (%d), (%s)))" % (o, b(r["memo_ok"]), b(r["deq"]), r["tok"], r["w"], r["h"],
                                                                        ", ".join(fx(float.fromhex(x)) for x in r["ext"])))
            return "((%d), %s, [%s])" % (mp[c["start"]], rt_tab, "; ".join(parts))
        items["area_hist"].append((need, f))
    for idx, (c, steps) in enumerate(zip(g.swath_hist, obs["swath_hist"])):
        refs = [c["start"]] + [op[1] for op in c["ops"] if op[0] in ("eq", "append", "concat")]
        if any("error" in s for s in steps) or not all(okgeo(i) for i in refs):
            continue

        def f(mp, c=c, steps=steps):
            parts = []
            for op, r in zip(c["ops"], steps):
                if op[0] == "hash":
                    o = "SHash"
                elif op[0] == "eq":
                    o = "SEq (%d) %s %s" % (mp[op[1]], b(r["e12"]), b(r["e21"]))
                elif op[0] in ("append", "concat"):
                    o = "SAppend (%d)" % mp[op[1]]
                elif op[0] == "slice":
                    o = "SSlice %s %s (%d, %d)" % (osl(op[1]), osl(op[2]), r["names"][0], r["names"][1])
                else:
                    o = "SCopy"
                parts.append("(%s, (%s, %s, %s, (%d), %s, %s))" % (o, b(r["memo_ok"]), b(r["fresh_ok"]), b(r["deq"]), r["kind"],
                                                                  coq_rows(r["lon"]), coq_rows(r["lat"])))
            return "((%d), [%s])" % (mp[c["start"]], "; ".join(parts))
        items["swath_hist"].append((refs, f))
    for idx, (c, steps) in enumerate(zip(g.stack_hist, obs["stack_hist"])):
        if any("error" in s for s in steps) or not all(okgeo(i) for i in c["members"]):
            continue
        def f(mp, c=c, steps=steps):
            parts = []
            for op, r in zip(c["ops"], steps):
                if op[0] == "eq":
                    continue
                o = "KHash" if op[0] == "hash" else "KAppend (%d)" % mp[op[1]]
                parts.append("(%s, (%s, %s, %s, (%d)))" % (o, b(r["memo_ok"]), b(r["fresh_ok"] and r["fresh_dig"]), b(r["deq"]), r["ndefs"]))
            return "([%s], [%s])" % ("; ".join("(%d)" % mp[i] for i in c["init"]), "; ".join(parts))
        items["stack_hist"].append((c["members"], f))
    texts = []
    for kind, its in items.items():
        size = {"pair": 250, "key": 300, "area_hist": 60, "swath_hist": 60, "stack_hist": 100, "imp_pair": 300, "imp_gah": 400}[kind]
        for s in range(0, len(its), size):
            cases, text = shard_text(g, obs, kind, its[s:s + size])
            texts.append(("c12_%s_%03d" % (kind, s // size), text, kind, cases))
    return texts


# ---------------------------------------------------------------------------------------------- run / replay
def run(ctx):
    ctx.rule = ("GENERATION (all from VERIF_SEED): a pool of geometries given by their SPELLED constructor arguments. Areas: 10 PROJ strings + 7 EPSG "
                "codes; sizes 1..60; extents integer / dyadic / decimal / random / zero-containing / large / geographic / flipped; spellings crs = "
                "string, reordered string, dict (numbers or strings), CRS object, WKT, EPSG int / from_epsg; sizes = int, numpy ints, float; extent = "
                "tuple / list / array of int, float, np.float64, np.float32, -0.0. Swaths: 1x1..5x6, 1-D/2-D, float64 / float32 (incl. magnitudes "
                "1e-8..1e-3), NaN, identical rows; containers list / array / F-order / non-contiguous view / xarray / xarray+dask / xarray with "
                "attrs['hash']. PAIRS: identical parameters in two spellings; one parameter perturbed (crs, shape, reshape/flatten/broadcast, swath "
                "crs, one value far beyond / well within / at the np.isclose boundary +-1e-15..1e-6 relative, float32 neighbours of the boundary in "
                "float32-float32 and mixed precision). KEYS: (source, target, kwargs) triples over 27 kwargs dicts incl. reordered equal dicts. "
                "HISTORIES: random sequences (2..8 calls) of hash / == / append / concatenate / slice (full, partial, negative, None, oversized bounds) / "
                "copy on areas, swaths (numpy, xarray, xarray+dask, xarray+hash attrs) and stacked areas (appends that merge with the last member and "
                "appends that do not), observed after every call without memoising; plus EVERY history up to a fixed length over a fixed call "
                "alphabet on a 2x2 swath and a 46x48 area (see notes). NON-TRIVIAL: a pair whose two specs differ, a key triple, a history with at "
                "least one mutating call (append/slice/copy); DISTINCT = distinct canonical JSON of the pair of specs / triple / history")
    g = Gen(ctx)
    g.areas()
    g.falsy_keys()
    g.nonjson_keys()
    g.gah_trees()
    g.f32_tiny()
    g.swaths()
    g.stacks()
    g.exhaustive()
    obs = ctx.impl("c12", g.payload(), timeout=3000)
    evaluate(ctx, g, obs, record=True)


def evaluate(ctx, g, obs, record=False):
    # driver-level sanity: crs token stored by pyresample = what pyproj gives for the spelling
    for i, (spec, o) in enumerate(zip(g.geos, obs["geos"])):
        if "error" in o:
            ctx.add_failure("C12.build.error", "building %s raised %s: %s" % (json.dumps(spec)[:200], o["error"], o.get("msg")),
                            {"oracle": "build", "payload": {"geos": [spec], "kwargs": KWARGS}})
        elif spec["t"] == "area" and o["tok"] != o["tok_impl"]:
            ctx.broken.append(("correspondence:crs_token", "AreaDefinition.crs_wkt is not CRS(projection).to_wkt() for %s" % json.dumps(spec["crs"])))
    found = oracle(g, obs)
    for key, what, kind, idx in found:
        if hasattr(g, "r"):
            sub = sub_payload(g, kind, idx)
        else:
            sub = None
        ctx.add_failure(key, what, {"oracle": kind, "payload": sub})
    if record:
        for (i, j), pm in zip(g.pairs, g.pmeta):
            ctx.case(("pair", json.dumps(g.geos[i], sort_keys=True), json.dumps(g.geos[j], sort_keys=True)), nontrivial=i != j,
                     sample=None if pm["cls"] == "cross" else {"pair_%s_%s" % (g.geos[i]["t"], pm["cls"]): pm["what"], "a": g.geos[i], "b": g.geos[j]})
            ctx.count("pair_%s_%s_%s" % (g.geos[i]["t"], pm["cls"], pm["what"].split("_")[0] if pm["cls"] == "ident" else pm["what"]))
            if pm["cls"] == "ident" and "error" not in obs["geos"][i] and "error" not in obs["geos"][j] and lossy_wkt(obs, g.geos, i, j):
                ctx.count("pair_area_ident_no_demand_wkt_dialect_not_read_back_by_pyproj")
        for c, km in zip(getattr(g, "nonjson", []), getattr(g, "njmeta", [])):
            ctx.case(("nonjson", json.dumps(c, sort_keys=True)), nontrivial=not km["same"], sample={"key_nonjson": km["cls"], "keyword": c[2], "a": c[3], "b": c[4]})
        for t in getattr(g, "gah", []):
            ctx.case(("gah", json.dumps(t, sort_keys=True)), nontrivial=t["k"] != "np", sample=None)
        for name in ("area_hist", "swath_hist", "stack_hist"):
            for c in getattr(g, name):
                muts = [op[0] for op in c["ops"] if op[0] not in ("hash", "eq")]
                ctx.case((name, json.dumps(c, sort_keys=True)), nontrivial=bool(muts),
                         sample={name: c["ops"], "start": g.geos[c["start"]] if "start" in c else [g.geos[i] for i in c["members"]]})
                ctx.count(name)
                ctx.traces += 1
        for kc, km in zip(g.keys, g.kmeta):
            ctx.case(("key", tuple(kc)), nontrivial=True, sample={"key": km["mode"], "src_tgt_kw": kc[:], "kwargs": [KWARGS[kc[2]], KWARGS[kc[5]]]})
            ctx.count("key_" + km["mode"])
    texts = build_coq(ctx, g, obs, set())
    res = ctx.coq_eval_many([(n, t) for n, t, _, _ in texts])
    for name, _, kind, its in texts:
        out, ok = res[name]
        if not ok:
            ctx.broken.append(("correspondence:" + kind, "model evaluation failed in %s: %s" % (name, out[-400:])))
            continue
        bad = ints(out)
        if bad:
            ex = its[bad[0]]
            ctx.broken.append(("correspondence:" + kind, "model and implementation relations differ on %d of %d cases of %s, e.g. #%d %s"
                               % (len(bad), len(its), name, bad[0], ex[:300])))
    if record and "lru" in obs:
        for (i, j), hit in zip(g.lru, obs["lru"]):
            ctx.count("lru")
            if isinstance(hit, dict):
                ctx.count("lru_slicer_error")      # create_slicer cannot crop this area onto itself (C11's business)
                continue
            if hit is not True and crs_key(obs, i, j) is None:
                ctx.add_failure("C12.lru.crop_source_area", "crop_source_area(a, t) then crop_source_area(a', t) with a' another spelling of a: no cache hit (%s)" % (hit,),
                                {"oracle": "pair", "payload": sub_payload(g, "pair", [k for k, p in enumerate(g.pairs) if p == [i, j]][0])})


def replay(ctx, data):
    case = data.get("case", {})
    p = case.get("payload")
    if not p:
        return True
    g = PGen(p)
    obs = ctx.impl("c12", g.payload())
    found = oracle(g, obs)
    return any(key == data.get("key") for key, _, _, _ in found)
