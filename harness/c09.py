"""C09 - gradient search finds the exact source position; chunking is invisible.

run(ctx): area->area pairs with different CRSs -> the real ResampleBlocksGradientSearchResampler, one subprocess per
PYTROLL_CHUNK_SIZE value -> (a) property oracle: exact fractional source row/col of every target pixel centre computed
here with pyproj and the areas' own affine grid maps; positions, nn and bilinear values of the single-chunk run, and
equality of every other chunking with it, each difference attributed to the crop of its target block (H_crop), the
index or the interpolation; (b) correspondence: the per-block calls the resampler itself made (traced), synthetic
direct calls of the Cython kernels and of the block interpolators, all evaluated bit-exactly by the Coq model."""
import math
from concurrent.futures import ThreadPoolExecutor

import numpy as np
from pyproj import Transformer
from pyproj import CRS as PCRS

from .common import fhex as _fhex, ints

PROP_FILE = "Properties/C09.v"
GEN = ["GenC09"]
RUN_FILES = ["Model/C09_run.v", "Model/C09_rungen.v"]

POS_TOL = 1e-6          # pixels: PROJ round-trip error bound granted to the positions
BIG_CHUNK = 4096
KEY_THIN = "C09.chunk_invariance.one_pixel_thick_block"
PAIR_KEYS = ("tag", "src", "dst", "coef", "data_kind")
U32 = 2.0 ** -24         # unit roundoff of binary32


def fhex(v):
    t = _fhex(v)
    if t == "nan":
        return "PrimFloat.nan"
    if t == "infinity":
        return "PrimFloat.infinity"
    if t == "neg_infinity":
        return "PrimFloat.neg_infinity"
    return t


def flist(l):
    return "[" + "; ".join(fhex(v) for v in l) + "]"


# ------------------------------------------------------------------------------------------------ input generation
def crs_of(kind, lon, lat, r):
    lon, lat = round(lon, 3), round(lat, 3)
    if kind == "laea":
        return {"proj": "laea", "lat_0": lat, "lon_0": lon, "ellps": "WGS84"}
    if kind == "stere":
        return {"proj": "stere", "lat_0": 90 if lat >= 0 else -90, "lon_0": lon, "lat_ts": 60 if lat >= 0 else -60, "ellps": "WGS84"}
    if kind == "merc":
        return {"proj": "merc", "lon_0": lon, "ellps": "WGS84"}
    if kind == "eqc":
        return {"proj": "eqc", "lon_0": lon, "lat_ts": round(lat / 2, 1), "ellps": "WGS84"}
    if kind == "lcc":
        s = 1 if lat >= 0 else -1
        return {"proj": "lcc", "lat_1": lat - 5 * s, "lat_2": lat + 5 * s, "lat_0": lat, "lon_0": lon, "ellps": "WGS84"}
    if kind == "tmerc":
        return {"proj": "tmerc", "lon_0": lon, "lat_0": 0, "k": 0.9996, "ellps": "WGS84"}
    if kind == "longlat":
        return {"proj": "longlat", "datum": "WGS84"}
    if kind == "aeqd":
        return {"proj": "aeqd", "lat_0": lat, "lon_0": lon, "ellps": "WGS84"}
    raise ValueError(kind)


KINDS = ["laea", "stere", "merc", "eqc", "lcc", "tmerc", "longlat", "aeqd"]


def mk_area(proj, lon, lat, res_m, h, w):
    """north-up area of h x w pixels centred on (lon, lat); res in metres (converted to degrees for longlat)"""
    t = Transformer.from_crs("EPSG:4326", PCRS.from_user_input(proj), always_xy=True)
    cx, cy = t.transform(lon, lat)
    res = res_m / 111000.0 if proj["proj"] == "longlat" else res_m
    res = float(np.float64(round(res, 6)))
    x0, y0 = round(cx - res * w / 2, 3 if proj["proj"] != "longlat" else 6), round(cy - res * h / 2, 3 if proj["proj"] != "longlat" else 6)
    return {"proj": proj, "shape": [h, w], "extent": [x0, y0, x0 + res * w, y0 + res * h]}


def gen_pairs(ctx):
    r = ctx.rng
    pairs = []

    def add(tag, sk, dk, lon, lat, res_s, sh_s, ratio, sh_d, off):
        sp = crs_of(sk, lon + r.uniform(-3, 3), lat + r.uniform(-3, 3), r)
        dp = crs_of(dk, lon + r.uniform(-3, 3), lat + r.uniform(-3, 3), r)
        if sp == dp:
            return
        src = mk_area(sp, lon, lat, res_s, *sh_s)
        ext_m = res_s * max(sh_s)
        dlon = off[0] * ext_m / 111000.0 / max(0.2, math.cos(math.radians(lat)))
        dlat = off[1] * ext_m / 111000.0
        dst = mk_area(dp, lon + dlon, max(-80, min(80, lat + dlat)), res_s * ratio, *sh_d)
        coef = [r.randint(-80, 80) / 8.0, r.randint(-40, 40) / 8.0, r.randint(-40, 40) / 8.0]
        if coef[1] == 0 and coef[2] == 0:
            coef[1] = 1.0
        pairs.append({"tag": tag, "src": src, "dst": dst, "coef": coef})

    # the design-round configuration: 37x29 -> 33x31 (31 = 6*5+1 rows... here: 33 rows = 2*16+1, 31 cols = 6*5+1)
    add("design", "laea", "stere", 12.0, 55.0, 9000.0, (37, 29), 0.8, (33, 31), (0.05, -0.05))
    geos = {"proj": "geos", "lon_0": 0.0, "h": 35785831.0, "ellps": "WGS84"}
    disk = {"proj": geos, "shape": [40, 40], "extent": [-5570000.0, -5570000.0, 5570000.0, 5570000.0]}
    fixed = [("geos_disk_to_laea", disk, mk_area(crs_of("laea", 10.0, 50.0, r), 10.0, 50.0, 150000.0, 31, 33)),
             ("geos_disk_to_stere", disk, mk_area(crs_of("stere", 0.0, 90.0, r), 20.0, 70.0, 200000.0, 26, 21)),
             ("geos_disk_to_longlat", disk, mk_area(crs_of("longlat", 0.0, 0.0, r), 60.0, 10.0, 300000.0, 21, 31)),
             ("geos_part_to_merc", {"proj": geos, "shape": [30, 25], "extent": [-2000000.0, 1000000.0, 500000.0, 4000000.0]},
              mk_area(crs_of("merc", 0.0, 0.0, r), -5.0, 30.0, 80000.0, 31, 17))]
    for tag, src, dst in fixed[:ctx.n(2, 4)]:
        pairs.append({"tag": tag, "src": src, "dst": dst, "coef": [1.0, 0.5, -0.25]})
    # CRSs with different axis units (degrees <-> metres): the slicer's buffer is 0; target sizes k*chunk+1 for chunk 5 and 16
    ll = crs_of("longlat", 0.0, 0.0, r)
    units = [("units_longlat_to_laea", mk_area(ll, 14.0, 52.0, 20000.0, 30, 34), mk_area(crs_of("laea", 12.0, 50.0, r), 14.5, 52.2, 15000.0, 21, 33)),
             ("units_laea_to_longlat", mk_area(crs_of("laea", -40.0, -30.0, r), -41.0, -31.0, 12000.0, 28, 25), mk_area(ll, -40.6, -30.8, 9000.0, 17, 26)),
             ("units_longlat_to_stere", mk_area(ll, 25.0, 68.0, 25000.0, 24, 40), mk_area(crs_of("stere", 20.0, 90.0, r), 24.0, 68.5, 22000.0, 31, 17)),
             ("units_merc_to_longlat", mk_area(crs_of("merc", 100.0, 0.0, r), 101.0, 12.0, 8000.0, 33, 29), mk_area(ll, 101.2, 12.1, 10000.0, 26, 17))]
    for tag, src, dst in units[:ctx.n(3, 4)]:
        pairs.append({"tag": tag, "src": src, "dst": dst, "coef": [r.randint(-40, 40) / 8.0, 1.25, -0.75]})
    # source areas that are slices of bigger areas (non-zero row/column start; one and two slicing steps, as after a satpy crop):
    # the oracle sees the sliced area's own extent and shape (computed here from the big area), the driver builds big[..][..]
    def sliced(big, steps):
        h, w = big["shape"]
        x0, y0, x1, y1 = big["extent"]
        dx, dy = (x1 - x0) / w, (y1 - y0) / h
        for (r0, r1), (c0, c1) in steps:
            x0, x1, y1, y0 = x0 + c0 * dx, x0 + c1 * dx, y1 - r0 * dy, y1 - r1 * dy
            h, w = r1 - r0, c1 - c0
        return {"proj": big["proj"], "shape": [h, w], "extent": [x0, y0, x1, y1], "from": {"big": big, "steps": steps}}
    big1 = mk_area(crs_of("laea", 8.0, 48.0, r), 8.0, 48.0, 9000.0, 60, 70)
    s1 = sliced(big1, [[[12 + r.randint(0, 5), 47], [20 + r.randint(0, 5), 57]]])
    big2 = mk_area(crs_of("merc", 30.0, 0.0, r), 31.0, 35.0, 7000.0, 64, 72)
    s2 = sliced(big2, [[[5, 57], [8, 68]], [[9 + r.randint(0, 4), 41], [6, 44 + r.randint(0, 5)]]])
    for tag, src, dk, lon, lat in (("sliced1_laea_to_stere", s1, "stere", 8.5, 48.2), ("sliced2_merc_to_laea", s2, "laea", 31.2, 35.1)):
        cx, cy = (src["extent"][0] + src["extent"][2]) / 2, (src["extent"][1] + src["extent"][3]) / 2
        lo, la = Transformer.from_crs(PCRS.from_user_input(src["proj"]), "EPSG:4326", always_xy=True).transform(cx, cy)
        pairs.append({"tag": tag, "src": src, "dst": mk_area(crs_of(dk, lon, lat, r), lo + 0.4, la - 0.3, 8000.0, 26, 21),
                      "coef": [r.randint(-40, 40) / 8.0, 1.5, -0.625]})
    # wide / tall sources: global indices in the thousands (binary32 cannot hold their fraction), data of magnitude <= 1 with O(1) cell
    # differences so that the derived float32 bound (16 u max|data|) is far below the effect of a weight error
    def far_target(sp, src, dcol, drow, dk, res, shape):
        h, w = src["shape"]
        x0, y0, x1, y1 = src["extent"]
        px, py = x0 + (dcol + 0.5) * (x1 - x0) / w, y1 - (drow + 0.5) * (y1 - y0) / h
        lo, la = Transformer.from_crs(PCRS.from_user_input(sp), "EPSG:4326", always_xy=True).transform(px, py)
        return mk_area(crs_of(dk, lo, la, r), lo, la, res, *shape)
    big = []
    sp = crs_of("laea", 10.0, 50.0, r)
    src = mk_area(sp, 10.0, 50.0, 1000.0, 10, 6000)
    big.append(("wide_laea_to_stere", src, far_target(sp, src, 5600 + r.randint(0, 200), 4.5, "stere", 700.0, (11, 16))))
    sp = crs_of("merc", -30.0, 0.0, r)
    src = mk_area(sp, -30.0, 10.0, 1000.0, 5000, 9)
    big.append(("tall_merc_to_laea", src, far_target(sp, src, 4.0, 4500 + r.randint(0, 300), "laea", 600.0, (16, 11))))
    for tag, src, dst in big:
        pairs.append({"tag": tag, "src": src, "dst": dst, "coef": [float(r.randint(1, 99)), 0.0, 0.0], "data_kind": "rand01"})
    n = ctx.n(9, 60)
    thin = [(11, 17), (16, 33), (21, 9), (17, 26), (6, 17), (33, 11), (31, 33), (26, 21)]
    for k in range(n):
        sk = r.choice(KINDS)
        dk = r.choice([x for x in KINDS if x != sk] + (["laea", "stere"] if sk not in ("laea", "stere") else []))
        lat = r.uniform(-65, 70)
        if "stere" in (sk, dk) and abs(lat) < 35:
            lat = r.choice([-1, 1]) * r.uniform(40, 72)
        lon = r.uniform(-170, 170)
        sh_s = (r.randint(6, 30), r.randint(6, 30))
        if k % 2 == 0:
            sh_d = thin[(k // 2) % len(thin)]
        else:
            sh_d = (r.randint(5, 30), r.randint(5, 30))
        add("rand%d" % k, sk, dk, lon, lat, r.choice([2000.0, 5000.0, 12000.0, 25000.0]), sh_s,
            r.choice([0.4, 0.7, 1.0, 1.3, 2.2]), sh_d, (r.uniform(-0.45, 0.45), r.uniform(-0.45, 0.45)))
    return pairs


RUNS = [
    {"method": "nn", "dtype": "float64"},
    {"method": "bilinear", "dtype": "float64"},
    {"method": "bilinear", "dtype": "float32"},
    {"method": "nn", "dtype": "float32", "bands": 2},
    {"method": "bilinear", "dtype": "float64", "bands": 2},
    {"method": "bilinear", "dtype": "float64", "src_chunks": [5, 4]},
]


def data_of(pair, kind=None):
    kind = kind or pair.get("data_kind", "affine")
    h, w = pair["src"]["shape"]
    c0, c1, c2 = pair["coef"]
    l, p = np.mgrid[0:h, 0:w]
    if kind == "affine":
        return c0 + c1 * l + c2 * p
    if kind == "rand01":        # values k/1024 in [0,1): exact in binary32, neighbouring pixels differ by O(1), magnitude <= 1
        rs = np.random.RandomState(abs(hash((h, w, c0, c1, c2))) % (2 ** 31))
        return rs.randint(0, 1024, size=(h, w)) / 1024.0
    rs = np.random.RandomState(abs(hash((h, w, c0, c1, c2))) % (2 ** 31))
    return rs.randint(-512, 512, size=(h, w)) / 4.0


# ------------------------------------------------------------------------------------------------ independent oracle
def exact_positions(pair):
    """exact fractional source (row, col) of every target pixel centre: the areas' affine grid maps and PROJ"""
    s, d = pair["src"], pair["dst"]
    H, W = d["shape"]
    dx0, dy0, dx1, dy1 = d["extent"]
    X = dx0 + (np.arange(W) + 0.5) * ((dx1 - dx0) / W)
    Y = dy1 - (np.arange(H) + 0.5) * ((dy1 - dy0) / H)
    XX, YY = np.meshgrid(X, Y)
    t = Transformer.from_crs(PCRS.from_user_input(d["proj"]), PCRS.from_user_input(s["proj"]), always_xy=True)
    sx, sy = t.transform(XX, YY)
    h, w = s["shape"]
    x0, y0, x1, y1 = s["extent"]
    P = (sx - x0) / ((x1 - x0) / w) - 0.5
    L = (y1 - sy) / ((y1 - y0) / h) - 0.5
    bad = ~(np.isfinite(L) & np.isfinite(P))
    L = np.where(bad, -1e9, L)
    P = np.where(bad, -1e9, P)
    return L, P


def classify(L, P, h, w, eps=POS_TOL):
    inside = (L >= eps) & (L <= h - 1 - eps) & (P >= eps) & (P <= w - 1 - eps)
    outside = (L < -eps) | (L > h - 1 + eps) | (P < -eps) | (P > w - 1 + eps)
    return inside, outside


def std_bilinear(D, L, P):
    h, w = D.shape
    la = np.clip(np.floor(L).astype(int), 0, max(h - 2, 0))
    pa = np.clip(np.floor(P).astype(int), 0, max(w - 2, 0))
    lb = np.minimum(la + 1, h - 1)
    pb = np.minimum(pa + 1, w - 1)
    u, v = L - la, P - pa
    return (1 - u) * (1 - v) * D[la, pa] + (1 - u) * v * D[la, pb] + u * (1 - v) * D[lb, pa] + u * v * D[lb, pb]


def geos_rho(pair, L, P):
    """for a geostationary source: distance of the source position from the disk centre, relative to the limb (1 = limb)"""
    s = pair["src"]
    if s["proj"].get("proj") != "geos":
        return None
    h, w = s["shape"]
    x0, y0, x1, y1 = s["extent"]
    X = x0 + (P + 0.5) * (x1 - x0) / w
    Y = y1 - (L + 0.5) * (y1 - y0) / h
    c = PCRS.from_user_input(s["proj"])
    hh = float(s["proj"]["h"])
    req, rp = c.ellipsoid.semi_major_metre, c.ellipsoid.semi_minor_metre
    xa = math.acos(math.sqrt(1 - req ** 2 / (hh + req) ** 2))
    ya = math.acos(math.sqrt(1 - rp ** 2 / (hh + req) ** 2))
    return np.sqrt((X / (xa * hh)) ** 2 + (Y / (ya * hh)) ** 2)


def block_of(blocks, i, j):
    for b in blocks:
        if b["rows"][0] <= i < b["rows"][1] and b["cols"][0] <= j < b["cols"][1]:
            return b
    return None


def h_crop_holds(b, L, P):
    c = b.get("crop", {})
    if "y" not in c:
        return False
    return c["y"][0] <= L <= c["y"][1] - 1 and c["x"][0] <= P <= c["x"][1] - 1


def run_values(run, pair, robs):
    v = np.array(robs["values"], dtype=np.float64).reshape(robs["shape"])
    return v


def expected_run(run, pair, L, P, D):
    """what the property demands for one run on the inside pixels (value array, tolerance)"""
    c0, c1, c2 = pair["coef"]
    scale = max(1.0, float(np.max(np.abs(D))))
    if run["method"] == "nn":
        li = np.clip(np.rint(L).astype(int), 0, D.shape[0] - 1)
        pi = np.clip(np.rint(P).astype(int), 0, D.shape[1] - 1)
        exp, tol = D[li, pi], 0.0
    else:
        exp = std_bilinear(D, np.clip(L, 0, D.shape[0] - 1), np.clip(P, 0, D.shape[1] - 1))
        # position slack: the value moves by at most (cell difference along l + along p) per pixel of position error
        if pair.get("data_kind", "affine") == "affine":
            grad = abs(c1) + abs(c2)
        else:
            grad = float(np.max(np.abs(np.diff(D, axis=0)))) + float(np.max(np.abs(np.diff(D, axis=1)))) if min(D.shape) > 1 else 2 * scale
        tol = 1e-9 * scale + grad * 2 * POS_TOL
        if run["dtype"] == "float32":
            # derived binary32 bound, M = max|data|, u = 2^-24: the two weights are rounded once (<= u/2 each, moving the value
            # by <= u * max cell difference <= 2uM), each of the four terms (1-w)(1-w')d takes 2 subtractions-or-none, 2 products
            # (<= 4u relative), the three additions add <= 3u of the partial sums (<= M), the result is rounded once more;
            # weights sum to 1, so the total is below (2 + 4 + 3 + 1) u M; 16 u M leaves a factor for second-order terms
            tol += 16 * U32 * scale
    return exp, tol


def near_tie(L, P):
    return (np.abs(L - np.floor(L) - 0.5) < POS_TOL) | (np.abs(P - np.floor(P) - 0.5) < POS_TOL)


def check_pair(ctx, pair, obs_by_chunk, cases_out=None):
    """property oracle for one area pair over all chunk sizes; returns number of failures added"""
    n0 = len(ctx.failures)
    h, w = pair["src"]["shape"]
    H, W = pair["dst"]["shape"]
    L, P = exact_positions(pair)
    inside, outside = classify(L, P, h, w)
    amb = ~(inside | outside)
    rho = geos_rho(pair, L, P)
    ctx.count("target_pixels_inside", int(inside.sum()))
    ctx.count("target_pixels_outside", int(outside.sum()))
    ctx.count("target_pixels_ambiguous_border", int(amb.sum()))
    D = data_of(pair)
    rp = {"pair": {k: pair[k] for k in PAIR_KEYS if k in pair}}
    ref = obs_by_chunk.get(BIG_CHUNK)
    if ref is None or "error" in ref:
        ctx.add_failure("C09.resampler_raises", "single-chunk resampling of %s raised %s" % (pair["tag"], ref), dict(rp, chunk=BIG_CHUNK))
        return 1
    # ---- positions of the single-chunk run
    ix = np.array(ref["idx"][0]).reshape(H, W)
    iy = np.array(ref["idx"][1]).reshape(H, W)
    val = ~np.isnan(iy)
    miss = inside & ~val
    if miss.any():
        i, j = map(int, np.argwhere(miss)[0])
        ctx.add_failure("C09.position.inside_missing",
                        "%s: target pixel (%d,%d) lies at source row/col (%.6f, %.6f) inside the %dx%d grid of centres but the gradient search "
                        "returns no position (%d such pixels)" % (pair["tag"], i, j, L[i, j], P[i, j], h, w, int(miss.sum())),
                        dict(rp, chunk=BIG_CHUNK, pixel=[i, j]))
    extra = outside & val
    if extra.any():
        i, j = map(int, np.argwhere(extra)[0])
        ctx.add_failure("C09.position.outside_valued",
                        "%s: target pixel (%d,%d) lies at source row/col (%.6f, %.6f) outside the grid of centres but gets index (%r, %r)"
                        % (pair["tag"], i, j, L[i, j], P[i, j], float(iy[i, j]), float(ix[i, j])), dict(rp, chunk=BIG_CHUNK, pixel=[i, j]))
    both = inside & val
    err = np.where(both, np.maximum(np.abs(iy - L), np.abs(ix - P)), 0.0)
    if (err > POS_TOL).any():
        i, j = map(int, np.unravel_index(np.argmax(err), err.shape))
        key = "C09.position.inexact"
        if pair["src"].get("from"):     # off by the accumulated start of the slicing steps that produced the source area?
            r0 = sum(st[0][0] for st in pair["src"]["from"]["steps"])
            c0 = sum(st[1][0] for st in pair["src"]["from"]["steps"])
            if abs(iy[i, j] - L[i, j] - r0) <= POS_TOL and abs(ix[i, j] - P[i, j] - c0) <= POS_TOL:
                key = "C09.position.sliced_source_offset"
        ctx.add_failure(key,
                        "%s: target pixel (%d,%d): gradient search index (row %r, col %r) differs from the exact position (%.9f, %.9f) by %.3g px"
                        % (pair["tag"], i, j, float(iy[i, j]), float(ix[i, j]), L[i, j], P[i, j], err[i, j]), dict(rp, chunk=BIG_CHUNK, pixel=[i, j]))
    # ---- values of the single-chunk run, then every other chunking against it
    tie = near_tie(L, P)
    for k, run in enumerate(RUNS):
        r0 = ref["runs"][k]
        if "error" in r0:
            ctx.add_failure("C09.resampler_raises", "%s run %s raised %s" % (pair["tag"], run, r0), dict(rp, chunk=BIG_CHUNK, run=run))
            continue
        bands = run.get("bands", 0)
        v0 = run_values(run, pair, r0)
        if r0["dtype"] != run["dtype"] or list(v0.shape) != ([bands] if bands else []) + [H, W]:
            ctx.add_failure("C09.result_dtype", "%s run %s on %s data gives shape %s dtype %s (required: the target shape and the dtype of the data)" % (pair["tag"], run, run["dtype"], r0["shape"], r0["dtype"]),
                            dict(rp, chunk=BIG_CHUNK, run=run))
            continue
        planes = [(v0[b], D * (b + 1) + b) for b in range(bands)] if bands else [(v0, D)]
        for b, (vb, Db) in enumerate(planes):
            exp, tol = expected_run(run, pair, L, P, Db.astype(run["dtype"]).astype(np.float64))
            if bands:
                tol *= (b + 1)
            chk = both & ~(tie if run["method"] == "nn" else np.zeros_like(tie))
            bad = chk & ~(np.abs(vb - exp) <= tol)
            nanpat = (inside & np.isnan(vb) & val) | (outside & ~np.isnan(vb))
            if bad.any() or nanpat.any():
                i, j = map(int, np.argwhere(bad | nanpat)[0])
                key = "C09.nn_value" if run["method"] == "nn" else "C09.bilinear_value"
                ctx.add_failure(key, "%s run %s band %d: target pixel (%d,%d) at source (%.6f, %.6f) has value %r, required %r (+-%.3g)"
                                % (pair["tag"], run, b, i, j, L[i, j], P[i, j], float(vb[i, j]), float(exp[i, j]), tol),
                                dict(rp, chunk=BIG_CHUNK, run=run, pixel=[i, j]))
    for chunk, ob in sorted(obs_by_chunk.items()):
        if chunk == BIG_CHUNK:
            continue
        ctx.count("chunked_runs")
        if "error" in ob:
            thin = any(H % chunk == 1 or W % chunk == 1 for _ in [0])
            ctx.add_failure(KEY_THIN if thin else "C09.chunk_invariance.resampler_raises",
                            "%s: PYTROLL_CHUNK_SIZE=%d raises %s while the single-chunk run succeeds" % (pair["tag"], chunk, ob.get("error")),
                            dict(rp, chunk=chunk))
            continue
        blocks = ob["blocks"]
        cx = np.array(ob["idx"][0]).reshape(H, W)
        cy = np.array(ob["idx"][1]).reshape(H, W)
        reported = set()
        for k, run in enumerate(RUNS):
            r0, r1 = ref["runs"][k], ob["runs"][k]
            if "error" in r0:
                continue
            if "error" in r1:
                ctx.add_failure("C09.chunk_invariance.resampler_raises", "%s run %s raises %s under PYTROLL_CHUNK_SIZE=%d only"
                                % (pair["tag"], run, r1, chunk), dict(rp, chunk=chunk, run=run))
                continue
            a, bb = run_values(run, pair, r0), run_values(run, pair, r1)
            if a.shape != bb.shape or r0["dtype"] != r1["dtype"]:
                ctx.add_failure("C09.chunk_invariance.dtype", "%s run %s: result shape/dtype %s/%s with PYTROLL_CHUNK_SIZE=%d but %s/%s in a single chunk" % (
                    pair["tag"], run, r1["shape"], r1["dtype"], chunk, r0["shape"], r0["dtype"]), dict(rp, chunk=chunk, run=run))
                continue
            scale = max(1.0, float(np.nanmax(np.abs(a))) if np.isfinite(a).any() else 1.0)
            tol = (1e-10 if run["dtype"] == "float64" else 32 * U32) * scale      # float32: each side within 16 u M of the exact value
            na, nb = np.isnan(a), np.isnan(bb)
            diff = (na != nb) | (~na & ~nb & (np.abs(a - bb) > tol))
            if diff.ndim == 3:
                diff = diff.any(axis=0)
            skip = amb | (tie if run["method"] == "nn" else np.zeros_like(tie))
            ctx.count("pixels_skipped_fp_ambiguous", int((diff & skip).sum()))
            diff &= ~skip
            for i, j in map(tuple, np.argwhere(diff)):
                i, j = int(i), int(j)
                b = block_of(blocks, i, j)
                thinb = b is not None and (b["rows"][1] - b["rows"][0] == 1 or b["cols"][1] - b["cols"][0] == 1)
                hc = b is not None and h_crop_holds(b, L[i, j], P[i, j])
                if b is None:
                    key = "C09.chunk_invariance.block_missing"
                elif "error" in b.get("crop", {}):
                    key = KEY_THIN if thinb else "C09.chunk_invariance.crop_raises"
                elif not hc:
                    key = "C09.chunk_invariance.crop_too_small"
                elif (np.isnan(cy[i, j]) != np.isnan(iy[i, j])) or (not np.isnan(cy[i, j]) and max(abs(cy[i, j] - iy[i, j]), abs(cx[i, j] - ix[i, j])) > 1e-9):
                    key = "C09.chunk_invariance.index_on_crop"
                else:
                    key = "C09.chunk_invariance.interpolation"
                if key in ("C09.chunk_invariance.crop_raises", "C09.chunk_invariance.crop_too_small", KEY_THIN) and rho is not None and rho[i, j] >= 0.999:
                    # the slicer clips each target block with the geostationary disk shrunk by 1e-4 rad (property C11)
                    key = "C09.chunk_invariance.crop_at_geos_limb"
                if run.get("src_chunks") and not RUNS_differs_without_src_chunks(ref, ob, k):
                    key = "C09.chunk_invariance.source_chunks"
                if (key, chunk) in reported:
                    continue
                reported.add((key, chunk))
                va = a[..., i, j].tolist() if a.ndim == 3 else float(a[i, j])
                vb = bb[..., i, j].tolist() if bb.ndim == 3 else float(bb[i, j])
                lost = int(diff.sum())
                ctx.add_failure(key, "%s %s/%s: target pixel (%d,%d) at source (%.4f, %.4f) is %r with PYTROLL_CHUNK_SIZE=%d but %r in a single chunk "
                                     "(%d pixels differ); target block rows %s cols %s, crop %s, H_crop %s"
                                % (pair["tag"], run["method"], run["dtype"], i, j, L[i, j], P[i, j], vb, chunk, va, lost,
                                   b and b["rows"], b and b["cols"], b and b.get("crop"), hc),
                                dict(rp, chunk=chunk, run=run, pixel=[i, j], key=key))
        # per-block H_crop census (evidence): blocks whose crop misses an inside pixel
        for b in blocks:
            sub_in = inside[b["rows"][0]:b["rows"][1], b["cols"][0]:b["cols"][1]]
            if not sub_in.any():
                ctx.count("blocks_no_inside_pixel")
                continue
            Ls = L[b["rows"][0]:b["rows"][1], b["cols"][0]:b["cols"][1]][sub_in]
            Ps = P[b["rows"][0]:b["rows"][1], b["cols"][0]:b["cols"][1]][sub_in]
            ok = all(h_crop_holds(b, l, p) for l, p in zip(Ls, Ps))
            ctx.count("blocks_H_crop_holds" if ok else "blocks_H_crop_fails")
    return len(ctx.failures) - n0


def check_legacy(ctx, pair, o):
    """gradient_resampler (the Cython nn / bil kernels on the whole, uncropped source) against the same oracle"""
    rp = {"pair": {k: pair[k] for k in PAIR_KEYS if k in pair}, "legacy": True}
    if "error" in o:
        ctx.add_failure("C09.legacy.raises", "%s: gradient_resampler raised %s" % (pair["tag"], o), rp)
        return
    h, w = pair["src"]["shape"]
    H, W = pair["dst"]["shape"]
    L, P = exact_positions(pair)
    inside, outside = classify(L, P, h, w)
    D = data_of(pair)
    tie = near_tie(L, P)
    for name, meth, Db, sl in (("nn", "nn", D, None), ("bil", "bilinear", D, None), ("bil3d", "bilinear", 2 * D + 1, 1)):
        v = np.array(o[name], dtype=np.float64)
        v = v.reshape(2, H, W)[sl] if sl is not None else v.reshape(H, W)
        exp, tol = expected_run({"method": meth, "dtype": "float64"}, pair, L, P, Db)
        if sl is not None:
            tol *= 2
        chk = inside & ~(tie if meth == "nn" else np.zeros_like(tie))
        bad = (chk & ~(np.abs(v - exp) <= tol)) | (outside & ~np.isnan(v))
        ctx.count("legacy_runs")
        if bad.any():
            i, j = map(int, np.argwhere(bad)[0])
            ctx.add_failure("C09.legacy.%s_value" % ("nn" if meth == "nn" else "bilinear"),
                            "%s gradient_resampler(method=%s): target pixel (%d,%d) at source (%.6f, %.6f) has value %r, required %s"
                            % (pair["tag"], meth, i, j, L[i, j], P[i, j], float(v[i, j]),
                               "no value" if outside[i, j] else "%r (+-%.3g)" % (float(exp[i, j]), tol)), dict(rp, pixel=[i, j]))


def composition(r, n, k, thin=False):
    """n as k positive parts; with k >= 3 a non-last part differs from the first (irregular: not what an int chunk size gives)"""
    k = max(1, min(k, n))
    for _ in range(50):
        cuts = sorted(r.sample(range(1, n), k - 1)) if k > 1 else []
        parts = [b - a for a, b in zip([0] + cuts, cuts + [n])]
        if thin and k >= 3 and n >= 4:
            parts[1:2] = [1, parts[1] - 1] if parts[1] > 1 else parts[1:2]
        if len(parts) < 3 or any(x != parts[0] for x in parts[1:-1]):
            return parts
    return parts


def gen_decomps(ctx, pair):
    r = ctx.rng
    H, W = pair["dst"]["shape"]
    h, w = pair["src"]["shape"]
    out = [{"rows": [H], "cols": [W]}]
    for q in range(ctx.n(2, 4)):
        d = {"rows": composition(r, H, r.choice([3, 4]), thin=(q % 2 == 1)), "cols": composition(r, W, r.choice([3, 4]), thin=(q % 2 == 0))}
        if q % 2 == 0:
            d["src_chunks"] = [composition(r, h, 3), composition(r, w, 3)]
        out.append(d)
    return out


def prefix_blocks(rows, cols):
    rs = [(sum(rows[:k]), sum(rows[:k + 1])) for k in range(len(rows))]
    cs = [(sum(cols[:k]), sum(cols[:k + 1])) for k in range(len(cols))]
    return [(a, b) for a in rs for b in cs]


def check_irregular(ctx, pair, decomps, ob):
    """resample_blocks with explicit, irregular target (and source) decompositions against the single-block result"""
    n0 = len(ctx.failures)
    rp = {"pair": {k: pair[k] for k in PAIR_KEYS if k in pair}}
    if "error" in ob or "error" in ob["decomps"][0]:
        ctx.add_failure("C09.resampler_raises", "%s: single-block resample_blocks raised %s" % (pair["tag"], ob.get("error") or ob["decomps"][0]), dict(rp, irregular=decomps[0]))
        return 1
    h, w = pair["src"]["shape"]
    H, W = pair["dst"]["shape"]
    L, P = exact_positions(pair)
    inside, outside = classify(L, P, h, w)
    amb = ~(inside | outside)
    tie = near_tie(L, P)
    rho = geos_rho(pair, L, P)
    ref = ob["decomps"][0]
    for dc, o in zip(decomps[1:], ob["decomps"][1:]):
        ctx.count("irregular_decompositions")
        rpd = dict(rp, irregular=dc)
        if "error" in o:
            ctx.add_failure("C09.chunk_invariance.irregular_blocks", "%s: resample_blocks with chunk_size=(%s, %s) raises %s: %s"
                            % (pair["tag"], tuple(dc["rows"]), tuple(dc["cols"]), o["error"], o.get("msg")), rpd)
            continue
        want = prefix_blocks(dc["rows"], dc["cols"])
        got = [(tuple(b["rows"]), tuple(b["cols"])) for b in o["blocks"]]
        if sorted(got) != sorted(want):
            bad = [g for g in got if g not in want][:1]
            ctx.add_failure("C09.chunk_invariance.irregular_blocks",
                            "%s: resample_blocks with chunk_size=(%s, %s) cuts the target into blocks %s..., not into the prefix-sum tiling (e.g. %s is not a block of it)"
                            % (pair["tag"], tuple(dc["rows"]), tuple(dc["cols"]), got[:4], bad), rpd)
        if len(o["idx"][0]) != H * W or len(o["nn"]) != H * W or len(o["bil"]) != H * W:
            ctx.add_failure("C09.chunk_invariance.irregular_blocks", "%s: resample_blocks with chunk_size=(%s, %s) returns %d index / %d nn / %d bilinear "
                            "elements for a %dx%d target" % (pair["tag"], tuple(dc["rows"]), tuple(dc["cols"]), len(o["idx"][0]), len(o["nn"]), len(o["bil"]), H, W), rpd)
            continue
        for name in ("idx", "nn", "bil"):
            if name == "idx":
                a = np.array(ref["idx"]).reshape(2, H, W)
                b = np.array(o["idx"]).reshape(2, H, W)
                tol = 1e-9
            else:
                a = np.array(ref[name]).reshape(H, W)
                b = np.array(o[name]).reshape(H, W)
                tol = 1e-10 * max(1.0, float(np.nanmax(np.abs(a))) if np.isfinite(a).any() else 1.0)
            na, nb = np.isnan(a), np.isnan(b)
            diff = (na != nb) | (~na & ~nb & (np.abs(a - b) > tol))
            if diff.ndim == 3:
                diff = diff.any(axis=0)
            diff &= ~(amb | (tie if name == "nn" else np.zeros_like(tie)))
            if not diff.any():
                continue
            i, j = map(int, np.argwhere(diff)[0])
            blk = next((bb for bb in o["blocks"] if (tuple(bb["rows"]), tuple(bb["cols"])) in want
                        and bb["rows"][0] <= i < bb["rows"][1] and bb["cols"][0] <= j < bb["cols"][1]), None)
            key = "C09.chunk_invariance.irregular_blocks"
            if blk is not None:
                thinb = blk["rows"][1] - blk["rows"][0] == 1 or blk["cols"][1] - blk["cols"][0] == 1
                if "error" in blk.get("crop", {}):
                    key = KEY_THIN if thinb else "C09.chunk_invariance.crop_raises"
                elif not h_crop_holds(blk, L[i, j], P[i, j]):
                    key = "C09.chunk_invariance.crop_too_small"
                if key != "C09.chunk_invariance.irregular_blocks" and rho is not None and rho[i, j] >= 0.999:
                    key = "C09.chunk_invariance.crop_at_geos_limb"
            va = a[..., i, j].tolist() if a.ndim == 3 else float(a[i, j])
            vb = b[..., i, j].tolist() if b.ndim == 3 else float(b[i, j])
            ctx.add_failure(key, "%s %s: target pixel (%d,%d) at source (%.4f, %.4f) is %r with chunk_size=(%s, %s)%s but %r as a single block (%d pixels differ); block %s"
                            % (pair["tag"], name, i, j, L[i, j], P[i, j], vb, tuple(dc["rows"]), tuple(dc["cols"]),
                               " and source chunks %s" % (dc["src_chunks"],) if dc.get("src_chunks") else "", va, int(diff.sum()),
                               blk and {k: blk[k] for k in ("rows", "cols", "crop")}), dict(rpd, key=key))
            break
    return len(ctx.failures) - n0


def gen_stacked(ctx, pair):
    """source cut into row/column chunks: once overlapping by one pixel (the hulls cover the source), once a plain partition"""
    r = ctx.rng
    h, w = pair["src"]["shape"]
    H, W = pair["dst"]["shape"]
    out = []
    for overlap in (1, 0):
        cut_r = sorted(r.sample(range(2, h - 1), 2)) if h >= 6 else [h // 2]
        cut_c = [r.randint(2, w - 2)] if w >= 5 else []
        rb = [0] + cut_r + [h]
        cb = [0] + cut_c + [w]
        crops = [[rb[k], min(h, rb[k + 1] + overlap), cb[q], min(w, cb[q + 1] + overlap)] for k in range(len(rb) - 1) for q in range(len(cb) - 1)]
        hr, hc = r.randint(1, H - 1), r.randint(1, W - 1)
        out.append({"src": pair["src"], "dst": pair["dst"], "data": [float(v) for v in data_of(pair).ravel()], "crops": crops,
                    "rows": [[0, hr], [hr, H]], "cols": [[0, hc], [hc, W]], "overlap": overlap})
    return out


def check_stacked(ctx, pair, c, o, legacy, lines):
    rp = {"pair": {k: pair[k] for k in PAIR_KEYS if k in pair}, "stacked": {k: c[k] for k in ("crops", "rows", "cols", "overlap")}}
    ctx.count("legacy_stacked_overlap" if c["overlap"] else "legacy_stacked_partition")
    if "error" in o:
        ctx.add_failure("C09.legacy.stacked", "%s: parallel_gradient_search raised %s: %s" % (pair["tag"], o["error"], o.get("msg")), rp)
        return
    h, w = pair["src"]["shape"]
    H, W = pair["dst"]["shape"]
    if o["shape"] != [1, H, W]:
        ctx.add_failure("C09.legacy.stacked", "%s: parallel_gradient_search returns shape %s for a %dx%d target cut into 2x2 blocks" % (pair["tag"], o["shape"], H, W), rp)
        return
    v = np.array(o["values"]).reshape(H, W)
    L, P = exact_positions(pair)
    eps = POS_TOL
    cov = np.zeros((H, W), bool)
    unc = np.ones((H, W), bool)
    for a0, a1, b0, b1 in c["crops"]:
        cov |= (L >= a0 + eps) & (L <= a1 - 1 - eps) & (P >= b0 + eps) & (P <= b1 - 1 - eps)
        unc &= (L < a0 - eps) | (L > a1 - 1 + eps) | (P < b0 - eps) | (P > b1 - 1 + eps)
    ctx.count("legacy_stacked_seam_pixels", int((~cov & ~unc).sum() + (unc & classify(L, P, h, w)[0]).sum()))
    ref = np.array(legacy["bil"]).reshape(H, W) if "bil" in legacy else None
    bad = (cov & np.isnan(v)) | (unc & ~np.isnan(v))
    if ref is not None:
        tol = 1e-10 * max(1.0, float(np.nanmax(np.abs(ref))) if np.isfinite(ref).any() else 1.0)
        bad |= cov & ~np.isnan(v) & ~np.isnan(ref) & (np.abs(v - ref) > tol)
    if bad.any():
        i, j = map(int, np.argwhere(bad)[0])
        ctx.add_failure("C09.legacy.stacked", "%s: parallel_gradient_search over source chunks %s: target pixel (%d,%d) at source (%.4f, %.4f) is %r; required: %s"
                        % (pair["tag"], c["crops"], i, j, L[i, j], P[i, j], float(v[i, j]),
                           ("the whole-source value %r" % (float(ref[i, j]) if ref is not None else None)) if cov[i, j] else "no value (no chunk's hull of centres contains it)"), rp)
    for (r0, r1) in c["rows"]:
        for (c0, c1) in c["cols"]:
            lines.append("((%d, %d, %d), (%s, %s, %s, %s, %s, %s), (%s, %s), %s, [%s], (%d, %d, %d, %d), %s)" % (
                h, w, W, flist(o["sx"]), flist(o["sy"]), flist(o["xl"]), flist(o["xp"]), flist(o["yl"]), flist(o["yp"]),
                flist(o["dx"]), flist(o["dy"]), flist(c["data"]), "; ".join("(%d, %d, %d, %d)" % tuple(q) for q in c["crops"]),
                r0, r1, c0, c1, flist(v[r0:r1, c0:c1].ravel())))


def check_joint(ctx, pair, decomps, ob):
    """purity of the lazy results: evaluated together in ONE dask computation, or combined in one dask expression, every
    decomposition must give what it gives on its own (resample_blocks' graph keys must tell the decompositions apart)"""
    KEY = "C09.chunk_invariance.joint_compute"
    rp = {"pair": {k: pair[k] for k in PAIR_KEYS if k in pair}, "joint": decomps}
    H, W = pair["dst"]["shape"]
    ds = ob["decomps"]
    ok = [k for k, o in enumerate(ds) if "error" not in o]
    ctx.count("joint_computations")
    for n in ("idx", "nn", "bil"):
        seen = {}
        for k in ok:
            nm = ds[k]["names"][n]
            if nm in seen and (decomps[seen[nm]]["rows"], decomps[seen[nm]]["cols"]) != (decomps[k]["rows"], decomps[k]["cols"]):
                ctx.add_failure(KEY, "%s: the %s results of resample_blocks for chunk_size=(%s, %s) and (%s, %s) carry the same dask name %s: "
                                     "their graph keys collide as soon as both take part in one computation"
                                % (pair["tag"], n, tuple(decomps[seen[nm]]["rows"]), tuple(decomps[seen[nm]]["cols"]),
                                   tuple(decomps[k]["rows"]), tuple(decomps[k]["cols"]), nm), rp)
                return
            seen.setdefault(nm, k)
    j = ob.get("joint", {})
    if "error" in j:
        ctx.add_failure(KEY, "%s: dask.compute of the %d decompositions' lazy results together raises %s: %s (each alone computes)"
                        % (pair["tag"], len(ok), j["error"], j.get("msg")), rp)
        return
    for k in ok:
        g = j[str(k)]
        for n in ("idx", "nn", "bil"):
            a = np.array(ds[k][n], dtype=np.float64).ravel()
            b = np.array(g[n], dtype=np.float64).ravel()
            if a.shape != b.shape or not np.array_equal(a.view(np.int64), b.view(np.int64)):
                nd = int((a.view(np.int64) != b.view(np.int64)).sum()) if a.shape == b.shape else -1
                ctx.add_failure(KEY, "%s: %s of chunk_size=(%s, %s) computed together with the other decompositions differs from the same lazy array "
                                     "computed alone (%s elements differ, shapes %s)" % (pair["tag"], n, tuple(decomps[k]["rows"]), tuple(decomps[k]["cols"]),
                                                                                       nd if nd >= 0 else "all", g["shapes"]), rp)
                return
    for m in ob.get("mixed", []):
        k, q = m["k"], m["j"]
        if "error" in m:
            ctx.add_failure(KEY, "%s: (bil[%s,%s] - bil[%s,%s].rechunk(...)).compute() raises %s: %s" % (
                pair["tag"], tuple(decomps[k]["rows"]), tuple(decomps[k]["cols"]), tuple(decomps[q]["rows"]), tuple(decomps[q]["cols"]), m["error"], m.get("msg")), rp)
            return
        a, b = np.array(ds[k]["bil"]), np.array(ds[q]["bil"])
        want = a - b
        got = np.array(m["diff"])
        sc = max(1.0, float(np.nanmax(np.abs(a))) if np.isfinite(a).any() else 1.0)
        bad = got.shape != want.shape or ((np.isnan(got) != np.isnan(want)) | (~np.isnan(got) & ~np.isnan(want) & (np.abs(got - want) > 1e-12 * sc))).any()
        sa, sb = float(np.nansum(np.array(ds[k]["nn"]))), float(np.nansum(np.array(ds[q]["nn"])))
        bad_sum = not abs(m["sumdiff"] - (sa - sb)) <= 1e-9 * max(1.0, abs(sa))
        if bad or bad_sum:
            ctx.add_failure(KEY, "%s: one dask expression over the decompositions (%s, %s) and (%s, %s): %s" % (
                pair["tag"], tuple(decomps[k]["rows"]), tuple(decomps[k]["cols"]), tuple(decomps[q]["rows"]), tuple(decomps[q]["cols"]),
                ("nansum(nn_a) - nansum(nn_b) = %r but the two sums computed separately differ by %r" % (m["sumdiff"], sa - sb)) if bad_sum else
                "bil_a - bil_b.rechunk(bil_a.chunks) differs from the difference of the separately computed arrays"), rp)
            return


def RUNS_differs_without_src_chunks(ref, ob, k):
    """True iff the same run WITHOUT source chunking (run 1: bilinear float64) already differs between the chunkings"""
    a, b = ref["runs"][1], ob["runs"][1]
    if "error" in a or "error" in b:
        return True
    x, y = np.array(a["values"]), np.array(b["values"])
    return bool(((np.isnan(x) != np.isnan(y)) | (~np.isnan(x) & ~np.isnan(y) & (np.abs(x - y) > 1e-9 * max(1.0, np.nanmax(np.abs(x)) if np.isfinite(x).any() else 1.0)))).any())


def chunk_sizes_for(ctx, pair):
    H, W = pair["dst"]["shape"]
    cs = [BIG_CHUNK, 16, 5]
    if ctx.thorough:
        cs += [7, 3, 10]
    elif pair["tag"].startswith(("wide_", "tall_", "sliced")):
        cs = [BIG_CHUNK, 5]
    elif pair["tag"] == "geos_disk_to_stere":
        cs = [BIG_CHUNK, 3]         # small blocks along the limb of the disk (see key crop_at_geos_limb)
    return cs


# ------------------------------------------------------------------------------------------------ synthetic direct cases
def gen_direct(ctx):
    r = ctx.rng
    cases = []
    for k in range(ctx.n(81, 450)):
        mode = k % 9
        nl, np_ = r.randint(1, 7), r.randint(1, 7)
        if mode == 7:
            nl, np_ = r.choice([(1, 1), (1, 5), (4, 1), (2, 2)])
        H, W = r.randint(1, 6), r.randint(1, 6)
        if mode == 8:
            nl, np_, H, W = r.choice([1, 2, 3, 5]), r.choice([1, 2, 4, 6]), r.randint(3, 8), r.randint(3, 8)
        a, b, c, e = [r.randint(-6, 6) / 2.0 for _ in range(4)]
        if mode in (0, 1, 2, 7) and c * b - e * a == 0:
            a, b, c, e = 0.0, 1.5, -2.0, 0.5
        if mode == 8:           # dyadic coefficients, determinant a power of two: every operation of the search is exact
            a, b, c, e = 0.0, r.choice([-4.0, -0.5, 1.0, 2.0]), r.choice([-2.0, -1.0, 0.25, 8.0]), r.choice([0.0, 0.0, 0.5, -1.5])
            if r.random() < 0.5:
                a, b, c, e = b, e, a if a else 0.0, c
                a, b, c, e = (a, b, c, e) if c * b - e * a != 0 else (0.0, 2.0, -1.0, 0.0)
        x0, y0 = r.randint(-20, 20) / 4.0, r.randint(-20, 20) / 4.0
        sx = [[x0 + a * l + b * p for p in range(np_)] for l in range(nl)]
        sy = [[y0 + c * l + e * p for p in range(np_)] for l in range(nl)]
        xl = [[a] * np_ for _ in range(nl)]
        xp = [[b] * np_ for _ in range(nl)]
        yl = [[c] * np_ for _ in range(nl)]
        yp = [[e] * np_ for _ in range(nl)]
        if mode in (3, 4):      # curvilinear source: more than two iterations, non-convergence
            for l in range(nl):
                for p in range(np_):
                    sx[l][p] += 0.125 * l * p + r.choice([0, 0.25, -0.5])
                    sy[l][p] += 0.0625 * l * l
                    xl[l][p] += 0.125 * p
                    xp[l][p] += 0.125 * l
                    yl[l][p] += 0.125 * l
        if mode == 5:           # cells without gradient (d == 0)
            for l in range(nl):
                for p in range(np_):
                    if r.random() < 0.4:
                        xl[l][p] = xp[l][p] = yl[l][p] = yp[l][p] = 0.0
        if mode == 6:           # arbitrary (inconsistent) gradients
            for l in range(nl):
                for p in range(np_):
                    xl[l][p], xp[l][p], yl[l][p], yp[l][p] = [r.choice([-2.0, -0.5, 0.0, 0.25, 1.0, 3.0]) for _ in range(4)]
        dx, dy = [], []
        for _ in range(H * W):
            L = r.uniform(-1.5, nl + 0.5)
            P = r.uniform(-1.5, np_ + 0.5)
            q = r.random()
            if q < 0.15:
                L, P = float(r.randint(-1, nl)), float(r.randint(-1, np_))
            elif q < 0.25:
                L, P = r.randint(-2, 2 * nl) / 2.0, r.randint(-2, 2 * np_) / 2.0
            if mode == 8:       # positions on the 1/8 lattice, many of them on the hull border and on ties
                L, P = r.randint(-8, 8 * nl) / 8.0, r.randint(-8, 8 * np_) / 8.0
                if q < 0.5:
                    L = r.choice([0.0, float(nl - 1), L, round(L), nl - 0.5, -0.125])
                    P = r.choice([0.0, float(np_ - 1), P, round(P), np_ - 1 + 0.125])
            tx, ty = x0 + a * L + b * P, y0 + c * L + e * P
            q = r.random() if mode != 8 else 1.0
            if q < 0.03:
                tx = r.choice([float("inf"), float("-inf")])
            elif q < 0.05:
                tx = float("nan")
            elif q < 0.07:
                ty = float("nan")
            elif q < 0.09:
                tx = r.choice([1e300, -1e300, 1e12])
            elif q < 0.10:
                ty = float("inf")
            dx.append(tx)
            dy.append(ty)
        fl = lambda m: [v for row in m for v in row]  # noqa: E731
        cases.append({"nl": nl, "np": np_, "H": H, "W": W, "sx": fl(sx), "sy": fl(sy), "xl": fl(xl), "xp": fl(xp), "yl": fl(yl),
                      "yp": fl(yp), "dx": dx, "dy": dy, "data": [r.randint(-4000, 4000) / 16.0 for _ in range(nl * np_)], "mode": mode, "exact": mode == 8})
    return cases


def gen_interp(ctx):
    r = ctx.rng
    cases = []
    for k in range(ctx.n(60, 500)):
        nl, np_ = r.randint(1, 6), r.randint(1, 6)
        if k % 9 == 0:
            nl, np_ = r.choice([(1, 1), (1, 4), (3, 1)])
        oy, ox = r.randint(0, 40), r.randint(0, 40)
        H, W = r.randint(1, 5), r.randint(1, 5)
        ix, iy = [], []
        for _ in range(H * W):
            q = r.random()
            if q < 0.15:
                ix.append(float("nan"))
                iy.append(float("nan"))
                continue
            y = r.uniform(-0.8, nl - 0.2)
            x = r.uniform(-0.8, np_ - 0.2)
            if q < 0.35:
                y, x = r.randint(0, 2 * (nl - 1)) / 2.0, r.randint(0, 2 * (np_ - 1)) / 2.0     # integers and exact ties
            elif q < 0.45:
                y, x = float(nl - 1), float(np_ - 1)
            elif q < 0.6:
                y, x = max(0.0, min(nl - 1.0, y)), max(0.0, min(np_ - 1.0, x))
            ix.append(ox + x)
            iy.append(oy + y)
        dt = "float64" if k % 4 else "float32"
        lead = [] if k % 5 else [2]
        nval = nl * np_ * (2 if lead else 1)
        cases.append({"nl": nl, "np": np_, "oy": oy, "ox": ox, "H": H, "W": W, "ix": ix, "iy": iy, "dtype": dt, "lead": lead,
                      "data": [r.randint(-2000, 2000) / 8.0 for _ in range(nval)]})
    return cases


def interp_oracle(ctx, c, o):
    """nn = value of the pixel containing the point, bilinear = standard bilinear of the enclosing centres (block-relative)"""
    if "error" in o:
        ctx.add_failure("C09.interp.raises", "block interpolator raised %s" % o, {"oracle": "interp", "case": c})
        return
    lead = tuple(c["lead"])
    D = np.array(c["data"]).reshape(lead + (c["nl"], c["np"])).astype(c["dtype"]).astype(np.float64)
    y = np.array(c["iy"]).reshape(c["H"], c["W"]) - c["oy"]
    x = np.array(c["ix"]).reshape(c["H"], c["W"]) - c["ox"]
    m = np.isnan(y)
    y0, x0 = np.where(m, 0.0, y), np.where(m, 0.0, x)
    inb = (y0 >= 0) & (y0 <= c["nl"] - 1) & (x0 >= 0) & (x0 <= c["np"] - 1)
    for name in ("nn", "bil"):
        v = np.array(o[name]).reshape(lead + (c["H"], c["W"]))
        planes = [(v[b], D[b]) for b in range(lead[0])] if lead else [(v, D)]
        for vb, Db in planes:
            if (np.isnan(vb) != m).any():
                ctx.add_failure("C09.interp.mask", "block %s interpolator NaN pattern differs from the index mask" % name, {"oracle": "interp", "case": c})
                return
            if name == "nn":
                tie = (np.abs(y0 - np.floor(y0) - 0.5) < 1e-12) | (np.abs(x0 - np.floor(x0) - 0.5) < 1e-12)
                yi = np.clip(np.rint(y0), 0, c["nl"] - 1).astype(int)
                xi = np.clip(np.rint(x0), 0, c["np"] - 1).astype(int)
                # at an exact tie either of the two pixels containing the point is accepted
                alt_y = np.clip(np.where(np.abs(y0 - np.floor(y0) - 0.5) < 1e-12, np.floor(y0) + (np.rint(y0) == np.floor(y0)), yi), 0, c["nl"] - 1).astype(int)
                alt_x = np.clip(np.where(np.abs(x0 - np.floor(x0) - 0.5) < 1e-12, np.floor(x0) + (np.rint(x0) == np.floor(x0)), xi), 0, c["np"] - 1).astype(int)
                cands = [Db[yi, xi], Db[alt_y, xi], Db[yi, alt_x], Db[alt_y, alt_x]]
                ok = m | ~inb | np.any([vb == cc for cc in cands], axis=0)
                del tie
            else:
                exp = std_bilinear(Db, np.clip(y0, 0, c["nl"] - 1), np.clip(x0, 0, c["np"] - 1))
                tol = (1e-12 if c["dtype"] == "float64" else 1e-5) * max(1.0, float(np.max(np.abs(Db))))
                ok = m | ~inb | (np.abs(vb - exp) <= tol)
            if not ok.all():
                i, j = map(int, np.argwhere(~ok)[0])
                ctx.add_failure("C09.interp." + name, "block %s interpolator: block-relative index (row %r, col %r) on a %dx%d block gives %r"
                                % (name, float(y0[i, j]), float(x0[i, j]), c["nl"], c["np"], float(vb[i, j])), {"oracle": "interp", "case": c})
                return


# ------------------------------------------------------------------------------------------------ Coq case text
HDR = ("From Coq Require Import ZArith List Bool PrimFloat.\nFrom PR Require Import Base.Num Base.F64 Base.ListX Base.Slice "
       "Model.Blockwise Model.Gradient Model.C09_run Model.C09_rungen.\nImport ListNotations.\nOpen Scope Z_scope.\n")


def arrs6(c):
    return "(%s, %s, %s, %s, %s, %s)" % tuple(flist(c[k]) for k in ("sx", "sy", "xl", "xp", "yl", "yp"))


def coq_search_case(c, off, ex, ey):
    return "((%d, %d, %d, %d), %s, (%s, %s), %s, (%s, %s))" % (
        c["nl"], c["np"], c["H"], c["W"], arrs6(c), flist(c["dx"]), flist(c["dy"]),
        "None" if off is None else "Some (%d, %d)" % off, flist(ex), flist(ey))


def coq_kernel_case(c, meth, exp):
    return "((%d, %d, %d, %d), %s, (%s, %s), (%d, %s), %s)" % (
        c["nl"], c["np"], c["H"], c["W"], arrs6(c), flist(c["dx"]), flist(c["dy"]), meth, flist(c["data"]), flist(exp))


def coq_interp_case(c, meth, exp):
    return "((%d, %d, %d, %d, %d), %s, (%s, %s), %s)" % (c["nl"], c["np"], c["oy"], c["ox"], meth, flist(c["data"]),
                                                        flist(c["ix"]), flist(c["iy"]), flist(exp))


def shard(items, weight, budget):
    out, cur, wt = [], [], 0
    for it in items:
        w = weight(it)
        if cur and wt + w > budget:
            out.append(cur)
            cur, wt = [], 0
        cur.append(it)
        wt += w
    if cur:
        out.append(cur)
    return out


def coq_files(name, typ, chk, lines, budget=60000):
    files = []
    for k, sh in enumerate(shard(lines, len, budget * 12)):
        files.append(("%s_%03d" % (name, k), HDR + "Definition cases : list %s := [%s].\nEval vm_compute in (bad %s cases).\n" % (typ, ";\n".join(sh), chk), sh))
    return files


# ------------------------------------------------------------------------------------------------ run
def resample_payload(pair, trace):
    return {"src": pair["src"], "dst": pair["dst"], "data": [float(v) for v in data_of(pair).ravel()], "runs": RUNS, "trace": trace}


def run(ctx):
    ctx.rule = ("area->area pairs: source/target CRS drawn from {laea, stere, merc, eqc, lcc, tmerc, longlat, aeqd} (always two different CRSs), "
                "random centre, resolution ratio 0.4-2.2, offset up to 45% of the source extent, target shapes of which half leave a one-pixel-thick "
                "remainder block for chunk size 5 or 16; each pair is resampled in one subprocess per PYTROLL_CHUNK_SIZE (4096 = single chunk, 16, 5; "
                "thorough adds 7, 3, 10) for nn/bilinear x float64/float32 x 2-D/3-D x chunked source data; pairs with different axis units (degrees <-> metres, "
                "zero slicer buffer) with target sizes k*chunk+1; resample_blocks called directly with explicit irregular tuple-of-tuples target decompositions "
                "(non-last chunks differ from the first, one-pixel-thick inner blocks) and irregular source chunkings, against the single block, the lazy results of "
                "all decompositions also evaluated in ONE dask.compute and in expressions mixing two decompositions; source areas that are slices of bigger areas (one / two slicing steps, non-zero start); wide/tall sources (indices in the "
                "thousands) with data of magnitude <= 1 for the float32 weights (bound 16 u max|data|); the legacy "
                "parallel_gradient_search over source chunks that overlap by one pixel / partition the source, target cut 2x2; plus synthetic direct calls of the Cython "
                "kernels (affine, curvilinear, zero-gradient, inconsistent gradients, inf/NaN/huge targets, 1xN sources) and of the block interpolators "
                "(ties, integers, edges, NaN, 1xN blocks). Non-trivial = the pair has target pixels both inside and outside the source hull of centres "
                "/ the direct case has at least one valued and one unvalued pixel; distinct = distinct inputs")
    pairs = gen_pairs(ctx)
    direct = gen_direct(ctx)
    interp = gen_interp(ctx)
    ntrace = ctx.n(2, 12)
    irr = [k for k, p in enumerate(pairs) if p["tag"] in ("design", "units_longlat_to_laea", "units_laea_to_longlat") or p["tag"].startswith("rand")][:ctx.n(5, 20)]
    decomps = {k: gen_decomps(ctx, pairs[k]) for k in irr}
    stk = [k for k, p in enumerate(pairs) if p["tag"] in ("design", "units_longlat_to_laea") or p["tag"].startswith("rand")][:ctx.n(3, 10)]
    stacked = [(k, c) for k in stk for c in gen_stacked(ctx, pairs[k])]
    by_chunk = {}
    for k, p in enumerate(pairs):
        for cs in chunk_sizes_for(ctx, p):
            by_chunk.setdefault(cs, []).append(k)

    def job(cs):
        payload = {"resample": [resample_payload(pairs[k], trace=(k < ntrace and cs != BIG_CHUNK and cs in (16, 5))) for k in by_chunk[cs]]}
        if cs == BIG_CHUNK:
            payload["direct"] = direct
            payload["interp"] = interp
            payload["blocks"] = [{"src": pairs[k]["src"], "dst": pairs[k]["dst"], "data": [float(v) for v in data_of(pairs[k]).ravel()],
                                  "decomps": decomps[k]} for k in irr]
            payload["stacked"] = [{q: c[q] for q in ("src", "dst", "data", "crops", "rows", "cols")} for _, c in stacked]
            payload["legacy"] = [{"src": p["src"], "dst": p["dst"], "data": [float(v) for v in data_of(p).ravel()]} for p in pairs]
        return cs, ctx.impl("c09", payload, extra_env={"PYTROLL_CHUNK_SIZE": str(cs)}, timeout=1500)

    with ThreadPoolExecutor(max_workers=8) as ex:
        results = dict(ex.map(job, sorted(by_chunk)))
    for cs, ob in results.items():
        if ob["chunk_size"] != cs:
            ctx.broken.append(("harness", "driver ran with CHUNK_SIZE %s instead of %s" % (ob["chunk_size"], cs)))

    # ---------------- property oracle on the resampler
    traces = []
    for k, p in enumerate(pairs):
        obs_by_chunk = {cs: results[cs]["resample"][by_chunk[cs].index(k)] for cs in chunk_sizes_for(ctx, p)}
        L, P = exact_positions(p)
        ins, outs = classify(L, P, *p["src"]["shape"])
        cat = p["tag"].split("_")[0] if "_" in p["tag"] else ("random" if p["tag"].startswith("rand") else p["tag"])
        ctx.case(("pair", repr(p["src"]), repr(p["dst"])), nontrivial=bool(ins.any() and outs.any()),
                 sample={"pair_" + cat: p["tag"], "src": p["src"], "dst": p["dst"], "inside": int(ins.sum()), "outside": int(outs.sum()),
                         "chunk_sizes": chunk_sizes_for(ctx, p)})
        for cs in chunk_sizes_for(ctx, p):
            ctx.count("chunk_size_%d" % cs)
        ctx.count("pair_%s_to_%s" % (p["src"]["proj"]["proj"], p["dst"]["proj"]["proj"]))
        check_pair(ctx, p, obs_by_chunk)
        check_legacy(ctx, p, results[BIG_CHUNK]["legacy"][k])
        if k in decomps:
            check_irregular(ctx, p, decomps[k], results[BIG_CHUNK]["blocks"][irr.index(k)])
            if "error" not in results[BIG_CHUNK]["blocks"][irr.index(k)]:
                check_joint(ctx, p, decomps[k], results[BIG_CHUNK]["blocks"][irr.index(k)])
            for dc in decomps[k][1:]:
                ctx.case(("irregular", p["tag"], repr(dc)), nontrivial=True,
                         sample={"irregular_decomposition": p["tag"], "target_rows": dc["rows"], "target_cols": dc["cols"], "source_chunks": dc.get("src_chunks")})
        for cs, ob in obs_by_chunk.items():
            if "trace" in ob:
                traces.append((p, cs, ob))

    # ---------------- the legacy stacking path
    L6 = []
    for (k, c), o in zip(stacked, results[BIG_CHUNK]["stacked"]):
        check_stacked(ctx, pairs[k], c, o, results[BIG_CHUNK]["legacy"][k], L6)
        ctx.case(("stacked", pairs[k]["tag"], repr(c["crops"])), nontrivial=True,
                 sample={"legacy_stacked": pairs[k]["tag"], "source_chunks": c["crops"], "target_rows": c["rows"], "target_cols": c["cols"],
                         "overlap": c["overlap"]})

    # ---------------- correspondence: traced per-block calls of the resampler
    texts = []
    texts += [(n, tx, sh, "parallel_gradient_search (legacy stack)") for n, tx, sh in coq_files("c09_stack", "stack_case", "chk_stack", L6)]
    L1, L2 = [], []
    for p, cs, ob in traces:
        H, W = p["dst"]["shape"]
        full_idx = [np.array(ob["idx"][0]).reshape(H, W), np.array(ob["idx"][1]).reshape(H, W)]
        for t in ob["trace"]["indices"]:
            ctx.traces += 1
            L1.append(coq_search_case(t, (t["oy"], t["ox"]), t["out"][0], t["out"][1]))
            # plumbing: the block sits at its place in the assembled indices array
            sub = [full_idx[q][t["rows"][0]:t["rows"][1], t["cols"][0]:t["cols"][1]].ravel() for q in (0, 1)]
            for q in (0, 1):
                a, b = np.array(t["out"][q]), sub[q]
                if a.shape != b.shape or not np.array_equal(a.view(np.int64), b.view(np.int64)):
                    ctx.broken.append(("correspondence:assemble", "%s chunk %d: block rows %s cols %s of the assembled indices differs from "
                                                                   "what gradient_resampler_indices returned" % (p["tag"], cs, t["rows"], t["cols"])))
        for t in ob["trace"]["interp"]:
            ctx.traces += 1
            L2.append(coq_interp_case(t, 0 if t["meth"] == "nn" else 1, t["out"]))
    texts += [(n, tx, sh, "traced gradient_resampler_indices") for n, tx, sh in coq_files("c09_tr_idx", "search_case", "chk_indices_traced", L1)]
    texts += [(n, tx, sh, "traced block interpolators") for n, tx, sh in coq_files("c09_tr_interp", "interp_case", "chk_interp_both", L2)]

    # ---------------- correspondence + oracle: synthetic direct calls
    dobs = results[BIG_CHUNK]["direct"]
    L3, L4 = [], []
    for c, o in zip(direct, dobs):
        ctx.count("direct_mode_%d" % c["mode"])
        if "error" in o:
            ctx.broken.append(("correspondence:direct", "one_step_gradient_indices raised %s" % o))
            continue
        valued = sum(1 for v in o["idx"][1] if v == v)
        ctx.case(("direct", repr(c)), nontrivial=0 < valued < c["H"] * c["W"], sample={"direct_mode": c["mode"], "valued": valued, "pixels": c["H"] * c["W"]})
        L3.append(coq_search_case(c, None, o["idx"][0], o["idx"][1]))
        L4.append(coq_kernel_case(c, 0, o["nn"]))
        L4.append(coq_kernel_case(c, 1, o["bil"]))
        direct_oracle(ctx, c, o)
        source_vs_binary(ctx, c, o)
    texts += [(n, tx, sh, "one_step_gradient_indices") for n, tx, sh in coq_files("c09_direct_idx", "search_case", "chk_indices", L3)]
    texts += [(n, tx, sh, "one_step_gradient_search nn/bil") for n, tx, sh in coq_files("c09_direct_kern", "kern_case", "chk_kernel", L4)]
    iobs = results[BIG_CHUNK]["interp"]
    L5 = []
    for c, o in zip(interp, iobs):
        ctx.count("interp_%s%s" % (c["dtype"], "_3d" if c["lead"] else ""))
        ctx.case(("interp", repr(c)), nontrivial=True, sample={"interp": [c["nl"], c["np"], c["oy"], c["ox"]], "dtype": c["dtype"]})
        interp_oracle(ctx, c, o)
        if "error" not in o and c["dtype"] == "float64" and not c["lead"]:
            L5.append(coq_interp_case(c, 0, o["nn"]))
            L5.append(coq_interp_case(c, 1, o["bil"]))
    texts += [(n, tx, sh, "block interpolators") for n, tx, sh in coq_files("c09_direct_interp", "interp_case", "chk_interp_both", L5)]

    res = ctx.coq_eval_many([(n, t) for n, t, _, _ in texts], timeout=900)
    for name, _, lines, what in texts:
        out, ok = res[name]
        if not ok:
            ctx.broken.append(("correspondence:" + what, "model evaluation failed: " + out[-300:]))
            continue
        bad = ints(out)
        if bad:
            ctx.broken.append(("correspondence:" + what, "model and implementation differ on %d of %d cases (%s), first: case %d %s"
                               % (len(bad), len(lines), name, bad[0], lines[bad[0]][:160])))
    ctx.notes.append("area sources: the source coordinate field in the source CRS is affine, so the reals theorems cover every area->area pair; "
                     "PROJ (target centres -> source CRS) is an oracle; binary64 rounding of the Newton step is covered by the bit-exact correspondence "
                     "and the 1e-6 px oracle band, not by the theorems")
    ctx.notes.append("H_crop (property C11: the crop of each target block contains the enclosing source pixels) is a hypothesis of C09_chunk_invariant_if; "
                     "the harness evaluates it per block and attributes every chunk-dependent pixel to it or to the index/interpolation step")


def bits_equal(a, b):
    a, b = np.array(a, dtype=np.float64), np.array(b, dtype=np.float64)
    return a.shape == b.shape and np.array_equal(a.view(np.int64), b.view(np.int64))


def source_vs_binary(ctx, c, o):
    """_gradient_search.pyx cannot be recompiled here: its text, executed as Python by the driver, must give exactly
    what the compiled module (which the Coq model matches bit for bit) gives; a difference is turned into a concrete
    violation by the property oracle when the case is affine, else reported as a broken tie"""
    src = o.get("src")
    if not src or "error" in src:
        if not any(b[0] == "correspondence:pyx source" for b in ctx.broken):
            ctx.broken.append(("correspondence:pyx source", "_gradient_search.pyx can no longer be executed as Python: %s" % (src,)))
        return
    same = bits_equal(o["idx"][0], src["idx"][0]) and bits_equal(o["idx"][1], src["idx"][1]) and \
        bits_equal(o["nn"], src["nn"]) and bits_equal(o["bil"], src["bil"])
    ctx.count("pyx_source_cases")
    if same:
        return
    n0 = len(ctx.failures)
    direct_oracle(ctx, c, src, label="pyx_source", oracle="direct_src")
    if len(ctx.failures) == n0 and not any(b[0] == "correspondence:pyx source vs compiled module" for b in ctx.broken):
        ctx.broken.append(("correspondence:pyx source vs compiled module",
                           "_gradient_search.pyx executed as Python differs from the compiled module on direct case mode %d (%dx%d source, %dx%d target)"
                           % (c["mode"], c["nl"], c["np"], c["H"], c["W"])))


def direct_oracle(ctx, c, o, label="", oracle="direct"):
    """affine synthetic cases (modes 0-2, 7) with finite targets: exact position or none; nn = containing pixel; bil = standard bilinear"""
    if c["mode"] not in (0, 1, 2, 7, 8):
        return

    def K(key):
        return key + ("." + label if label else "")
    nl, np_ = c["nl"], c["np"]
    a, b = c["xl"][0], c["xp"][0]
    cc, e = c["yl"][0], c["yp"][0]
    x0, y0 = c["sx"][0], c["sy"][0]
    det = cc * b - e * a
    D = np.array(c["data"]).reshape(nl, np_)
    eps = 0.0 if c.get("exact") else 1e-9       # exact cases: the hull border itself is decided, positions must be equal
    for k, (tx, ty) in enumerate(zip(c["dx"], c["dy"])):
        gy, gx = float(o["idx"][1][k]), float(o["idx"][0][k])
        if not (math.isfinite(tx) and math.isfinite(ty)) or abs(tx) > 1e9:
            if gy == gy:
                ctx.add_failure(K("C09.position.outside_valued"), "direct: non-finite/huge target (%r,%r) gets an index" % (tx, ty), {"oracle": oracle, "case": c})
                return
            continue
        L = (b * (ty - y0) - e * (tx - x0)) / det
        P = (cc * (tx - x0) - a * (ty - y0)) / det
        ins = eps <= L <= nl - 1 - eps and eps <= P <= np_ - 1 - eps
        outs = L < -eps or L > nl - 1 + eps or P < -eps or P > np_ - 1 + eps
        if ins and not (gy == gy and abs(gy - L) <= eps and abs(gx - P) <= eps):
            ctx.add_failure(K("C09.position.inexact" if gy == gy else "C09.position.inside_missing"),
                            "direct affine case: target at source (row %r, col %r) of a %dx%d grid of centres gets index (%r,%r)" % (L, P, nl, np_, gy, gx),
                            {"oracle": oracle, "case": c})
            return
        if outs and gy == gy:
            ctx.add_failure(K("C09.position.outside_valued"), "direct affine case: target at source (row %r, col %r) outside the %dx%d grid of centres gets index (%r,%r)"
                            % (L, P, nl, np_, gy, gx), {"oracle": oracle, "case": c})
            return
        if ins:
            vn, vb = float(o["nn"][k]), float(o["bil"][k])
            # the pixels whose cell contains the point (two candidates per axis on a tie)
            rows = {int(math.floor(L + 0.5)), int(math.ceil(L - 0.5))} if abs(L - math.floor(L) - 0.5) <= eps else {int(round(L))}
            cols = {int(math.floor(P + 0.5)), int(math.ceil(P - 0.5))} if abs(P - math.floor(P) - 0.5) <= eps else {int(round(P))}
            cands = [float(D[i, j]) for i in rows for j in cols if 0 <= i < nl and 0 <= j < np_]
            if vn not in cands:
                ctx.add_failure(K("C09.nn_value"), "direct affine case: nn at source (row %r, col %r) gives %r, value of the containing pixel %r" % (L, P, vn, cands),
                                {"oracle": oracle, "case": c})
                return
            eb = float(std_bilinear(D, np.array([L]), np.array([P]))[0])
            if not abs(vb - eb) <= 1e-9 * max(1.0, float(np.max(np.abs(D)))):
                ctx.add_failure(K("C09.bilinear_value"), "direct affine case: bilinear at source (row %r, col %r) gives %r, standard bilinear %r" % (L, P, vb, eb),
                                {"oracle": oracle, "case": c})
                return


def replay(ctx, data):
    """Re-run one recorded failing input on the current implementation; True iff the property oracle still rejects it."""
    case = data.get("case", {})
    n0 = len(ctx.failures)
    if case.get("oracle") == "interp":
        o = ctx.impl("c09", {"interp": [case["case"]]})["interp"][0]
        interp_oracle(ctx, case["case"], o)
    elif case.get("oracle") == "direct":
        o = ctx.impl("c09", {"direct": [case["case"]]})["direct"][0]
        direct_oracle(ctx, case["case"], o)
    elif case.get("oracle") == "direct_src":
        o = ctx.impl("c09", {"direct": [case["case"]]})["direct"][0]
        source_vs_binary(ctx, case["case"], o)
    elif case.get("joint"):
        p = case["pair"]
        dcs = case["joint"]
        o = ctx.impl("c09", {"blocks": [{"src": p["src"], "dst": p["dst"], "data": [float(v) for v in data_of(p).ravel()], "decomps": dcs}]})["blocks"][0]
        if "error" not in o:
            check_joint(ctx, p, dcs, o)
    elif case.get("stacked"):
        p = case["pair"]
        c = dict(case["stacked"], src=p["src"], dst=p["dst"], data=[float(v) for v in data_of(p).ravel()])
        ob = ctx.impl("c09", {"stacked": [{q: c[q] for q in ("src", "dst", "data", "crops", "rows", "cols")}],
                              "legacy": [{"src": p["src"], "dst": p["dst"], "data": c["data"]}]})
        check_stacked(ctx, p, c, ob["stacked"][0], ob["legacy"][0], [])
    elif case.get("irregular"):
        p = case["pair"]
        H, W = p["dst"]["shape"]
        dcs = [{"rows": [H], "cols": [W]}, case["irregular"]]
        o = ctx.impl("c09", {"blocks": [{"src": p["src"], "dst": p["dst"], "data": [float(v) for v in data_of(p).ravel()], "decomps": dcs}]})["blocks"][0]
        check_irregular(ctx, p, dcs, o)
    elif case.get("legacy"):
        p = case["pair"]
        o = ctx.impl("c09", {"legacy": [{"src": p["src"], "dst": p["dst"], "data": [float(v) for v in data_of(p).ravel()]}]})["legacy"][0]
        check_legacy(ctx, p, o)
    elif "pair" in case:
        p = case["pair"]
        obs = {}
        for cs in sorted({BIG_CHUNK, int(case.get("chunk", BIG_CHUNK))}):
            obs[cs] = ctx.impl("c09", {"resample": [resample_payload(p, False)]}, extra_env={"PYTROLL_CHUNK_SIZE": str(cs)})["resample"][0]
        check_pair(ctx, p, obs)
        want = data.get("key")
        return any(f.key == want for f in ctx.failures[n0:]) if want else len(ctx.failures) > n0
    return len(ctx.failures) > n0
