"""C15 — the multiprocessing Scheduler hands out every item exactly once under any interleaving.

Tie = trace validation: the real Scheduler.__iter__ generators are executed under a deterministic controller
(harness/impl/c15.py), one atomic shared-memory action per turn; every recorded execution is replayed in the
Coq state machine (Model/Sched.v) with vm_compute and must agree (a) at lock level: yields with receiving
worker in emission order, result writes in completion order, final counters, self._chunk, all workers
returned; and (b) the real trace must respect the lock discipline the model assumes.  Step-for-step agreement
of the action stream is measured too (reported; it alone does not raise an alarm, so that reordering
independent statements inside the critical section is not flagged)."""
from concurrent.futures import ThreadPoolExecutor

from .common import evals

PROP_FILE = "Properties/C15.v"
GEN = ["GenC15"]
RUN_FILES = ["Model/C15_run.v"]

KINDS = ["guided", "dynamic", "static"]
KCOQ = {"guided": "Guided", "dynamic": "Dynamic", "static": "Static"}
HDR = ("From Coq Require Import ZArith List.\nFrom PR Require Import Base.ListX Model.Sched Model.C15_run.\n"
       "Import ListNotations.\nOpen Scope Z_scope.\n")
DRIVER_PROCS = 6
# which executions of each generator class are shown as evidence samples (1-based position inside the class)
SAMPLE_AT = {"prng": (2, 9), "prng_macro": (3,), "boundary": (9,), "exhaustive_step": (15, 230),
             "exhaustive_macro": (70,), "depth_first_sample_macro": (500,)}


# ----------------------------------------------------------------------------------------------- generation
def valid(conf):
    return conf["n"] >= 0 and conf["nprocs"] >= 1 and conf["kind"] in KINDS


def gen_traces(ctx):
    r = ctx.rng
    out = []

    def chunk_for(n):
        return r.choice([None, None, None, 0, 1, 1, 2, 3, 5, 7, n, n + 1, max(n - 1, 1), 50, -1, -4])

    # structured, mostly valid: PRNG interleavings (blocked / finished workers get turns too)
    for i in range(ctx.n(260, 2600)):
        n = r.choice([0, 0, 1, 1, 2, 3, 4, 5, 6, 7, 8, 9, 10, 12, 16, 20, 25, 31, 32, 33, 40, r.randint(0, 40), r.randint(0, 40)])
        nprocs = r.choice([1, 2, 2, 3, 3, 4])
        conf = {"n": n, "nprocs": nprocs, "chunk": chunk_for(n), "kind": r.choice(KINDS)}
        nw = nprocs if r.random() < 0.8 else r.randint(1, 4)
        out.append({"conf": conf, "nw": nw, "seed": r.randrange(1 << 30), "stick": r.choice([0.0, 0.3, 0.6, 0.85, 0.95]),
                    "cls": "prng"})
    # critical-section granularity PRNG runs with larger n
    for i in range(ctx.n(30, 300)):
        n = r.randint(41, 400)
        nprocs = r.randint(1, 4)
        conf = {"n": n, "nprocs": nprocs, "chunk": r.choice([None, None, 1, 3, 17, n // 2, n, n + 3]), "kind": r.choice(KINDS)}
        out.append({"conf": conf, "nw": nprocs, "seed": r.randrange(1 << 30), "stick": 0.0, "macro": True, "cls": "prng_macro"})
    # boundary seekers: the shared counters are C integers
    big = [2 ** 31 - 1, 2 ** 31 - 2, 2 ** 31, 2 ** 31 + 5, 2 ** 32 + 3, 2 ** 33 + 1, 10 ** 6, 2 ** 20 + 1, 2 ** 30]
    for n in big:
        for kind in KINDS:
            for nprocs in (1, 2, 3):
                if kind == "dynamic":
                    chunk = n // 3 + 1      # keeps the number of slices small
                else:
                    chunk = r.choice([None, n // 2, n])
                conf = {"n": n, "nprocs": nprocs, "chunk": chunk, "kind": kind}
                out.append({"conf": conf, "nw": min(nprocs, 2), "seed": r.randrange(1 << 30), "stick": 0.7, "macro": True,
                            "cls": "boundary"})
    # malformed stream (outside the quantifier of the property; the model is still compared where the code runs)
    for n in (-1, -3, -40):
        for kind in KINDS:
            out.append({"conf": {"n": n, "nprocs": 2, "chunk": r.choice([None, 2]), "kind": kind}, "nw": 2,
                        "seed": r.randrange(1 << 30), "stick": 0.5, "cls": "malformed"})
    out.append({"conf": {"n": 5, "nprocs": 0, "chunk": None, "kind": "guided"}, "nw": 1, "seed": 1, "cls": "malformed"})
    out.append({"conf": {"n": 5, "nprocs": 2, "chunk": None, "kind": "fastest"}, "nw": 1, "seed": 1, "cls": "malformed"})
    return out


def gen_explore(ctx):
    """exhaustive interleavings: (conf, nw, macro, cap)"""
    out = []
    combos = [("guided", None), ("dynamic", 1), ("static", None), ("guided", 2), ("dynamic", 2), ("static", 2)]
    if ctx.thorough:
        combos += [("guided", 1), ("dynamic", None), ("static", 1), ("static", 3), ("dynamic", 0)]
    # caps: on the current tree every scope below except (3 workers, n >= 4) is enumerated completely
    # (largest: 1962 / 2556 executions); the caps only bound the work when a changed Scheduler has more interleavings
    if ctx.thorough:
        step_scopes = [(2, range(0, 4), 2500), (3, range(0, 3), 2500)]
        macro_scopes = [(2, range(0, 6), 3000), (3, range(0, 4), 3000), (3, range(4, 6), 1200)]
    else:
        step_scopes = [(2, range(0, 3), 400), (3, range(0, 2), 400)]
        macro_scopes = [(2, range(0, 4), 400), (3, range(0, 3), 400)]
    for macro, scopes in ((False, step_scopes), (True, macro_scopes)):
        for nw, ns, cap in scopes:
            for n in ns:
                large = n + nw >= (6 if macro else 5)      # > 1000 interleavings each: the six basic combinations only
                for kind, ch in (combos[:6] if large else combos):
                    out.append({"conf": {"n": n, "nprocs": nw, "chunk": ch, "kind": kind}, "nw": nw, "macro": macro, "cap": cap,
                                "sampled": nw == 3 and n >= 4})
    return out


# ----------------------------------------------------------------------------------------------- oracles
def slices_ok(n, yields):
    """property text: pairwise disjoint, inside [0, n), together cover [0, n) exactly"""
    sl = sorted((a, b) for _, a, b in yields)
    for a, b in sl:
        if not (0 <= a < b <= n):
            return "slice(%d, %d) is empty or not inside [0, %d)" % (a, b, n)
    pos = 0
    for a, b in sl:
        if a < pos:
            return "item %d is handed out twice (slices overlap at slice(%d, %d))" % (a, a, b)
        if a > pos:
            return "items [%d, %d) are never handed out" % (pos, a)
        pos = b
    if pos != n:
        return "items [%d, %d) are never handed out" % (pos, n)
    return None


def lock_discipline(events):
    """every read/write of the shared counters by w happens while w holds the lock; acquire only when free"""
    holder = None
    for i, (w, code, _) in enumerate(events):
        if code == 2:
            if holder is not None:
                return "turn %d: worker %d acquired the lock while worker %d holds it" % (i, w, holder)
            holder = w
        elif code == 7:
            if holder != w:
                return "turn %d: worker %d released a lock it does not hold" % (i, w)
            holder = None
        elif code in (3, 4, 5, 6):
            if holder != w:
                return "turn %d: worker %d accessed a shared counter without holding the lock" % (i, w)
        elif code == 9:
            if holder == w:
                return "turn %d: worker %d received a slice while still holding the lock" % (i, w)
    return None


class Sorted:
    """collects failures, reports the shortest execution first"""

    def __init__(self, ctx):
        self.ctx, self.l = ctx, []

    def add_failure(self, key, what, replay):
        self.l.append((len(replay.get("turns", [])), len(self.l), key, what, replay))

    def flush(self):
        for _, _, key, what, replay in sorted(self.l, key=lambda t: t[:2]):
            self.ctx.add_failure(key, what, replay)
        self.l = []


def judge(ctx, conf, nw, res, cls):
    """property oracle on one real execution. Returns True iff the trace can be sent to the model."""
    replay = {"oracle": "trace", "conf": conf, "nw": nw, "turns": res.get("turns", [])}
    if "error" in res:
        if valid(conf):
            ctx.add_failure("C15.scheduler.raises", "Scheduler(%s) raises %s" % (conf, res["error"]), replay)
        return False
    if not valid(conf):
        return not res["errors"] and not res["nonterminating"]
    n = conf["n"]
    overflow = n >= 2 ** (res["bits"] - 1)
    sfx = ".counter_overflow" if overflow else ""
    if res["errors"]:
        ctx.add_failure("C15.iter.raises" + sfx, "iterating Scheduler(%s) raises %s" % (conf, res["errors"][0]), replay)
        return False
    if res["nonterminating"] or not all(res["finished"]):
        ctx.add_failure("C15.termination" + sfx, "Scheduler(%s) with %d workers: some worker's iteration does not terminate "
                        "(%d turns, finished=%s)" % (conf, nw, len(res["turns"]), res["finished"]), replay)
        return False
    bad = slices_ok(n, res["yields"])
    if bad:
        ctx.add_failure("C15.slices" + sfx, "Scheduler(%s), %d workers, schedule of %d turns: %s; slices handed out: %s" % (
            conf, nw, len(res["turns"]), bad, [(a, b) for _, a, b in res["yields"]][:12]), replay)
    if sorted(res["works"]) != sorted(res["yields"]):
        ctx.add_failure("C15.worker_writes", "workers wrote %s but received %s" % (res["works"][:8], res["yields"][:8]), replay)
    return True


# ----------------------------------------------------------------------------------------------- Coq text
def coq_obs(conf, nw, res):
    ch = conf["chunk"]
    cfg = "mk_cfg (%d) (%d) %s %s (%d)" % (conf["n"], conf["nprocs"], "None" if ch is None else "(Some (%d))" % ch,
                                           KCOQ[conf["kind"]], res["bits"])
    ys = "[" + ";".join("(%d,(%d,%d))" % tuple(y) for y in res["yields"]) + "]"
    ws = "[" + ";".join("(%d,%d)" % (a, b) for _, a, b in res["works"]) + "]"
    return "(%s, %d, (%d), %s, %s, ((%d),(%d)))" % (cfg, nw, res["chunk0"], ys, ws, res["final"][0], res["final"][1])


def coq_case(conf, nw, res, macro_only=False):
    """macro_only: keep only the release (7) and result-write (9) actions, which is all chk_macro looks at"""
    turns = "[" + ";".join("(%d,%d,%s)" % (w, c, v if v >= 0 else "(%d)" % v) for w, c, v in res["events"]
                           if not macro_only or c in (7, 9)) + "]"
    return "(%s, %s)" % (coq_obs(conf, nw, res), turns)


def run_driver(ctx, traces, explores):
    """fan the real executions out over a few driver processes (interleaved round-robin to balance the load)"""
    k = DRIVER_PROCS
    tres = [None] * len(traces)
    eres = [None] * len(explores)
    jobs = []
    for i in range(k):
        ti = list(range(i, len(traces), k))
        ei = list(range(i, len(explores), k))
        if ti or ei:
            jobs.append((ti, ei, {"traces": [traces[j] for j in ti], "explore": [explores[j] for j in ei]}))
    with ThreadPoolExecutor(max_workers=k) as ex:
        futs = [(ti, ei, ex.submit(ctx.impl, "c15", payload, 3000)) for ti, ei, payload in jobs]
        for ti, ei, f in futs:
            o = f.result()
            for j, r in zip(ti, o["traces"]):
                tres[j] = r
            for j, r in zip(ei, o["explore"]):
                eres[j] = r
    return tres, eres


def gen_mp(ctx):
    r = ctx.rng
    out = []
    projs = ["+proj=laea +lat_0=50 +lon_0=10 +ellps=WGS84", "+proj=merc +ellps=WGS84", "+proj=stere +lat_0=90 +lon_0=0 +ellps=bessel"]
    for i in range(ctx.n(0, 10)):
        shape = r.choice([[0], [1], [7], [5, 6], [13, 9], [100]])
        out.append({"what": "proj", "proj": r.choice(projs), "shape": shape, "nprocs": r.choice([2, 3]),
                    "chunk": r.choice([None, 1, 4, 1000]), "kind": r.choice(KINDS), "seed": r.randrange(1 << 30)})
    for i in range(ctx.n(0, 10)):
        k = r.choice([1, 1, 3])
        out.append({"what": "kdtree", "ndata": r.choice([5, 40, 200]), "nx": r.choice([0, 1, 9, 57, 200]), "k": k,
                    "dub": r.choice([None, 0.4]), "nprocs": r.choice([2, 3]), "chunk": r.choice([None, 1, 10]),
                    "kind": r.choice(KINDS), "seed": r.randrange(1 << 30)})
    return out


def gen_hist(ctx):
    """histories of calls on one object (both tiers; small inputs): equal-size repeated calls, segmented kd_tree query"""
    r = ctx.rng
    projs = ["+proj=laea +lat_0=50 +lon_0=10 +ellps=WGS84", "+proj=merc +ellps=WGS84"]
    out = []
    # call histories on ONE object: same size with new values, other sizes, the first size again, same size in another shape;
    # every result is kept and all are compared again after the last call (aliasing between calls), the caller overwrites its
    # input buffers after each call and, at the end, the arrays it received
    for i in range(ctx.n(2, 8)):
        nx, other = r.choice([5, 17, 23, 40]), r.choice([3, 11, 29])
        plan = [[nx, nx, nx], [nx, other, nx, nx], [nx, nx, other, 0, nx]][i % 3]
        out.append({"what": "kdtree_repeat", "ndata": r.choice([20, 40, 90]), "nx": nx, "plan": plan, "k": [1, 3][i % 2],
                    "repeat": len(plan), "nprocs": r.choice([2, 3]), "chunk": r.choice([None, None, 2]), "kind": KINDS[i % 3],
                    "seed": r.randrange(1 << 30)})
    for i in range(ctx.n(2, 6)):
        a, b = r.choice([(2, 6), (3, 4), (4, 6), (5, 6)])
        other = r.choice([7, 31])
        plan = [[[a * b], [a * b], [a, b]], [[a, b], [other], [b, a], [a * b]], [[a * b], [a, b], [other], [0], [a * b]]][i % 3]
        out.append({"what": "proj_repeat", "proj": projs[i % 2], "n": a * b, "plan": plan, "repeat": len(plan), "nprocs": r.choice([2, 3]),
                    "chunk": r.choice([None, 5]), "kind": KINDS[(i + 1) % 3], "seed": r.randrange(1 << 30)})
    # memory layouts / dtypes of the array arguments: same values, same shape, different strides
    lay = [("F", "F"), ("T", "T"), ("F", "C"), ("C", "T"), ("strided", "strided"), ("negative", "C"), ("offset", "F"), ("C", "C")]
    r.shuffle(lay)
    for i, l in enumerate(lay[:ctx.n(5, 8)] + [r.choice(lay) for _ in range(ctx.n(0, 8))]):
        out.append({"what": "proj_layout", "proj": projs[i % 2], "shape": r.choice([[5, 7], [4, 9], [3, 4, 5], [8, 3]]), "layout": list(l),
                    "inverse": i % 2 == 1, "dtype": "float64" if i % 4 != 3 else r.choice(["float32", "int64"]),
                    "nprocs": r.choice([2, 3]), "chunk": r.choice([None, 4]), "kind": KINDS[i % 3], "seed": r.randrange(1 << 30)})
    lay2 = [("F", "F"), ("strided", "negative"), ("C", "F"), ("offset", "strided"), ("negative", "offset")]
    r.shuffle(lay2)
    for i, l in enumerate(lay2[:ctx.n(3, 5)]):
        out.append({"what": "kdtree_layout", "ndata": r.choice([20, 50]), "nx": r.choice([9, 23]), "k": [1, 3][i % 2], "layout": list(l),
                    "dtype": "float64" if i != 1 else "float32", "nprocs": r.choice([2, 3]), "chunk": r.choice([None, 2]),
                    "kind": KINDS[i % 3], "seed": r.randrange(1 << 30)})
    # partial failure: the engine fails for some rows only, so some (not all) workers fail while holding a slice; also inputs
    # for which the single-process call returns inf / nan instead of raising (errcheck=False, NaN in one coordinate array only)
    combos = [(np_, kind) for np_ in (2, 3) for kind in KINDS]
    r.shuffle(combos)
    for i, (np_, kind) in enumerate(combos[:ctx.n(4, 6)]):
        out.append({"what": "proj_failure", "proj": projs[0], "n": r.choice([40, 90, 150]), "bad_at": [r.choice([0.0, 0.3, 0.7, 1.0])],
                    "bad": ["lat95", "lat95", "nan_lon", "inf_lat"][i % 4], "errcheck": i % 4 != 3, "nprocs": np_, "chunk": r.choice([None, 7]),
                    "kind": kind, "seed": r.randrange(1 << 30)})
    r.shuffle(combos)
    for i, (np_, kind) in enumerate(combos[:ctx.n(3, 6)]):
        out.append({"what": "kdtree_failure", "ndata": 50, "n": r.choice([30, 80]), "bad_at": [[0.5], [0.0], [1.0], [0.2, 0.9]][i % 4],
                    "bad": ["nan", "inf"][i % 2], "k": [1, 3][i % 2], "nprocs": np_, "chunk": r.choice([None, 5]), "kind": kind,
                    "seed": r.randrange(1 << 30)})
    for i in range(ctx.n(1, 4)):
        out.append({"what": "neighbour_info", "shape": [9, 7] if i % 2 == 0 else [12, 5], "nsrc": 300, "k": [1, 3][i % 2], "nprocs": 2,
                    "segments": 3, "seed": r.randrange(1 << 30)})
    return out


def run_hist(ctx):
    cases = gen_hist(ctx)
    o = ctx.impl("c15", {"hist": cases}, 600)
    if "hist_unavailable" in o:
        ctx.notes.append("multiprocessing unavailable in this sandbox, call histories not exercised: " + o["hist_unavailable"])
        return
    ran = 0
    for c, r in zip(cases, o["hist"]):
        ctx.count("history_" + c["what"])
        if "error" in r and any(t in r["error"] for t in ("Permission", "OSError", "Errno", "BlockingIOError")):
            ctx.notes.append("multi-process history skipped: " + r["error"])
            continue
        ran += 1
        ctx.case(("hist", repr(c)), nontrivial=True, sample={"history_" + c["what"]: c, "impl": r})
        if not r.get("ok"):
            key = {"proj_failure": "C15.mp_equals_sp.partial_failure.proj", "kdtree_failure": "C15.mp_equals_sp.partial_failure.kdtree",
                   "neighbour_info": "C15.mp_equals_sp.segments", "proj_layout": "C15.mp_equals_sp.layout.proj",
                   "kdtree_layout": "C15.mp_equals_sp.layout.kdtree"}.get(c["what"], "C15.mp_equals_sp.repeated_call")
            stage = ""
            if c["what"] in ("kdtree_repeat", "proj_repeat") and "error" not in r and all(r.get("calls", [False])):
                if not all(r.get("kept", [True])):
                    # every call was right when it returned, but an array the caller kept changed under a later call
                    key = "C15.mp_equals_sp.kept_result"
                    stage = "; every result was correct when returned, but re-checked after the last call the kept results equal the " \
                            "single-process ones = %s (a later call overwrote an array handed out earlier)" % r["kept"]
                elif not r.get("after_scribble", True):
                    key = "C15.mp_equals_sp.caller_mutation"
                    stage = "; after the caller overwrote the arrays it had received, the next call is wrong"
            what = {"kdtree_repeat": "the same cKDTree_MP object queried %d times with %s points (k=%d): call results equal to "
                                     "scipy cKDTree.query = %s%s" % (c.get("repeat", 0), c.get("plan") or c.get("nx", 0), c.get("k", 0), r.get("calls", r), stage),
                    "proj_repeat": "the same Proj_MP object called %d times with input shapes %s: call results equal to the "
                                   "single-process projection = %s%s" % (c.get("repeat", 0), c.get("plan") or c.get("n", 0), r.get("calls", r), stage),
                    "proj_failure": "Proj_MP(..)(lons, lats, errcheck=%s, nprocs=%s, schedule=%s) with %d points of which row(s) at %s are %s: "
                                    "single-process transformer -> %s; multi-process -> %s" % (
                                        c.get("errcheck"), c.get("nprocs"), c.get("kind"), c.get("n", 0), c.get("bad_at"), c.get("bad"),
                                        r.get("single_process"), r.get("multi_process", r)),
                    "kdtree_failure": "cKDTree_MP(nprocs=%s, schedule=%s).query of %d points (k=%s) of which row(s) at %s contain %s: "
                                      "scipy cKDTree.query -> %s; multi-process -> %s" % (
                                          c.get("nprocs"), c.get("kind"), c.get("n", 0), c.get("k"), c.get("bad_at"), c.get("bad"),
                                          r.get("single_process"), r.get("multi_process", r)),
                    "proj_layout": "Proj_MP(%s) on %s coordinate arrays of shape %s with memory layouts %s (inverse=%s) differs from the "
                                   "single-process projection of the same values" % (c.get("proj"), c.get("dtype"), c.get("shape"),
                                                                                     c.get("layout"), c.get("inverse")),
                    "kdtree_layout": "cKDTree_MP(data %s).query(x %s, k=%s) with memory layouts %s differs from scipy cKDTree.query on the "
                                     "same values" % (c.get("dtype"), c.get("dtype"), c.get("k"), c.get("layout")),
                    "neighbour_info": "kd_tree.get_neighbour_info(nprocs=%d, segments=%d, neighbours=%d) on a %s target differs from "
                                      "nprocs=1: %s" % (c.get("nprocs", 0), c.get("segments", 0), c.get("k", 0), c.get("shape"), r)}[c["what"]]
            ctx.add_failure(key, what, {"oracle": "hist", "case": c})
    ctx.notes.append("call histories on one object (real processes): %d histories, each call compared with the single-process result" % ran)


def run(ctx):
    ctx.rule = ("real Scheduler.__iter__ generators executed under a deterministic controller, one atomic lock/read/write/"
                "release/result-write action per turn: PRNG interleavings (n 0..40 at action granularity, n 41..400 and "
                "C-integer boundary sizes 2^31-1 .. 2^33+1 at critical-section granularity; nprocs 1..4, workers 1..4, all three kinds, chunk "
                "None/0/negative/1../n/n+1), exhaustive interleavings of enabled workers for small (n, workers) at action and "
                "at critical-section granularity, malformed stream (negative n, nprocs 0, unknown kind); each execution is "
                "replayed in the Coq model; plus call histories with real processes (same cKDTree_MP / Proj_MP object driven through 3-5 calls "
                "of equal and different sizes/shapes incl. empty, all results kept and re-compared after the last call, caller overwrites "
                "its input and result arrays, kd_tree.get_neighbour_info with nprocs=2 and 3 segments, and the array arguments of Proj_MP / cKDTree_MP in "
                "C / Fortran / transposed-view / strided / negative-stride / offset-window layouts, mixed between the two arguments, "
                "float64 / float32 / int64, and inputs on which the engine fails for some rows only "
                "(lat 95 with errcheck, NaN in one coordinate array, inf; NaN/inf query points) for nprocs 2, 3 and every kind: the "
                "multi-process call must raise iff the single-process one raises and otherwise return the same arrays) against the "
                "single-process results. Non-trivial = at least two slices handed out and at least two workers received one "
                "(or, single worker, at least two slices); distinct = distinct (configuration, executed schedule)")
    import time
    t0 = time.time()
    traces = gen_traces(ctx)
    explores = gen_explore(ctx)
    tres, eres = run_driver(ctx, traces, explores)
    t1 = time.time()

    items = []   # (conf, nw, res, cls)
    for t, r in zip(traces, tres):
        if r.get("skipped"):
            ctx.count("skipped_after_nontermination")
            continue
        items.append((t["conf"], t["nw"], r, t["cls"]))
    complete = True
    for e, r in zip(explores, eres):
        cls = "exhaustive_macro" if e["macro"] else "exhaustive_step"
        if e["sampled"]:
            cls = "depth_first_sample_macro"
        elif not r["complete"]:
            complete = False
            ctx.count("exhaustive_scope_capped")
        for run_ in r["runs"]:
            items.append((e["conf"], e["nw"], run_, cls))
    ctx.exhaustive = bool(explores) and complete
    scopes = {}
    for e, r in zip(explores, eres):
        if not e["sampled"] and r["complete"]:
            k = ("critical-section" if e["macro"] else "action", e["nw"], e["conf"]["n"])
            scopes[k] = scopes.get(k, 0) + len(r["runs"])
    ctx.notes.append("completely enumerated interleavings (every maximal execution in which each turn goes to an enabled worker; "
                     "granularity, workers, n -> executions over the kind/chunk combinations): "
                     + "; ".join("%s w=%d n=%d -> %d" % (g, w, n_, c) for (g, w, n_), c in sorted(scopes.items()))
                     + ("; 3 workers with n = 4, 5 are depth-first samples only" if ctx.thorough else ""))
    if not complete:
        ctx.notes.append("some exhaustive scopes hit their cap: the Scheduler under test has more interleavings than the modelled one")

    cases, mcases, disc_bad = [], [], []
    seen_cls = {}
    fails = Sorted(ctx)
    for conf, nw, res, cls in items:
        ctx.count(cls)
        ok = judge(fails, conf, nw, res, cls)
        if "error" in res:
            ctx.case(("err", repr(conf)), nontrivial=False)
            ctx.count("raises_" + res["error"].split(":")[0])
            continue
        receivers = len(set(w for w, _, _ in res["yields"]))
        nontriv = len(res["yields"]) >= 2 and (receivers >= 2 or nw == 1)
        if nontriv:
            seen_cls[cls] = seen_cls.get(cls, 0) + 1
        sample = None
        if nontriv and seen_cls[cls] in SAMPLE_AT.get(cls, ()):     # a few varied executions per generator class go into the evidence
            sample = {cls: conf, "workers": nw, "turns": len(res["turns"]), "schedule_head": res["turns"][:16],
                      "yields": res["yields"][:6], "final_counters": res["final"], "self._chunk": res["chunk0"]}
        ctx.case((repr(conf), nw, tuple(res["turns"])), nontrivial=nontriv, sample=sample)
        ctx.count("kind_" + conf["kind"])
        if not ok or conf["kind"] not in KINDS:
            continue
        if [e[0] for e in res["events"]] != res["turns"]:
            if not any(b[0] == "correspondence:driver" for b in ctx.broken):
                ctx.broken.append(("correspondence:driver", "the recorded action stream is not one action per turn for Scheduler(%s)" % (conf,)))
            continue
        d = lock_discipline(res["events"])
        if d:
            disc_bad.append((conf, nw, d))
        if cls in ("exhaustive_macro", "depth_first_sample_macro") and ctx.thorough:
            mcases.append((coq_case(conf, nw, res, True), len(res["turns"]) // 4))
        else:
            cases.append((coq_case(conf, nw, res), len(res["turns"])))
        ctx.traces += 1
    fails.flush()
    if disc_bad:
        conf, nw, d = disc_bad[0]
        ctx.broken.append(("correspondence:lock_discipline", "%d of %d real executions break the lock discipline the model "
                           "assumes, e.g. Scheduler(%s), %d workers: %s" % (len(disc_bad), len(items), conf, nw, d)))

    # ---- replay in the model
    import re
    import os
    tag = "%s_%d" % (ctx.tier, os.getpid())      # concurrent runs of this check must not share scratch files

    def shards(cs, name, both):
        files, cur, load = [], [], 0
        for text, size in cs:
            if cur and (len(cur) >= 400 or load + size > 30000):
                files.append(cur)
                cur, load = [], 0
            cur.append(text)
            load += size
        if cur:
            files.append(cur)
        return [("%s_%s_%03d" % (name, tag, i), HDR + "Definition cases : list tcase := [%s].\nEval vm_compute in (bad chk_macro cases).\n"
                 % ";\n".join(f) + ("Eval vm_compute in (bad chk_strict cases).\n" if both else ""), f, both) for i, f in enumerate(files)]
    # executions enumerated at critical-section granularity (thorough tier) are replayed at that level only
    texts = shards(cases, "c15_replay", True) + shards(mcases, "c15_macro", False)
    res = ctx.coq_eval_many([(n_, t) for n_, t, _, _ in texts], timeout=1200)
    strict_bad = strict_total = macro_bad = macro_total = 0
    macro_eg = None
    evalfail = {}
    for name, _, lines, both in texts:
        out, ok = res[name]
        ev = evals(out) if ok else []
        if not ok or len(ev) != (2 if both else 1):
            evalfail.setdefault("critical_section", out[-300:])
            continue
        bads = [[int(x) for x in re.findall(r"-?\d+", re.sub(r"%[a-zA-Z]+", "", e))] for e in ev]
        bad_macro = bads[0]
        bad_strict = bads[1] if both else []
        if not bad_macro:
            try:
                os.remove(os.path.join(ctx.rundir, name + ".v"))
            except OSError:
                pass
        macro_total += len(lines)
        macro_bad += len(bad_macro)
        if bad_macro and macro_eg is None:
            macro_eg = min((lines[i] for i in bad_macro), key=len)
        if both:
            strict_total += len(lines)
            strict_bad += len(bad_strict)
    for what, detail in evalfail.items():
        ctx.broken.append(("correspondence:" + what, "model evaluation failed: " + detail))
    if macro_bad:
        ctx.broken.append(("correspondence:critical_section", "model and implementation differ (yields / result writes / final "
                           "counters / self._chunk / completion) on %d of %d executions, e.g. %s" % (macro_bad, macro_total, macro_eg[:400])))
    t2 = time.time()
    print("C15 timing: proofs+build %.1fs, real executions %.1fs, model replay %.1fs" % (t0 - ctx.t0, t1 - t0, t2 - t1))
    ctx.notes.append("action-stream agreement (every turn: same atomic action with the same value in model and implementation): "
                     "%d of %d executions" % (strict_total - strict_bad, strict_total))
    if strict_bad:
        ctx.count("action_stream_differs", strict_bad)

    # ---- histories of calls on one object, real processes (both tiers)
    th = time.time()
    run_hist(ctx)
    print("C15 timing: call histories %.1fs" % (time.time() - th))

    # ---- real multi-process runs (thorough tier)
    mp_cases = gen_mp(ctx)
    if mp_cases:
        o = ctx.impl("c15", {"mp": mp_cases}, 900)
        if "mp_unavailable" in o:
            ctx.notes.append("multiprocessing unavailable in this sandbox: " + o["mp_unavailable"])
        else:
            pj = [r for c, r in zip(mp_cases, o["mp"]) if c["what"] == "proj" and "error" not in r]
            ctx.notes.append("real multi-process runs: Proj_MP compared bit-for-bit with one single-process call of the same PROJ "
                             "transformer and within 1e-9 deg / 1e-6 m with pyproj.Proj (%d of %d runs are bit-identical to pyproj.Proj "
                             "too; its inverse differs from the transformer pipeline in the last bits); cKDTree_MP.query compared "
                             "bit-for-bit with scipy cKDTree.query" % (sum(1 for r in pj if r.get("bit_identical_to_pyproj_Proj")), len(pj)))
            for c, r in zip(mp_cases, o["mp"]):
                ctx.count("mp_" + c["what"])
                ctx.case(("mp", repr(c)), nontrivial=r.get("n", 0) >= 2, sample={"mp_" + c["what"]: c, "impl": r})
                if "error" in r and ("Permission" in r["error"] or "OSError" in r["error"] or "Errno" in r["error"]):
                    ctx.notes.append("multi-process run skipped: " + r["error"])
                    continue
                if not r.get("ok"):
                    key = "C15.mp_equals_sp.proj" if c["what"] == "proj" else "C15.mp_equals_sp.kdtree"
                    ctx.add_failure(key, "%s differs from the single-process result: %s -> %s" % (
                        "Proj_MP" if c["what"] == "proj" else "cKDTree_MP.query", c, r), {"oracle": "mp", "case": c})


def replay(ctx, data):
    case = data["case"]
    if case.get("oracle") == "mp":
        o = ctx.impl("c15", {"mp": [case["case"]]})
        return "mp" in o and not o["mp"][0].get("ok")
    if case.get("oracle") == "hist":
        o = ctx.impl("c15", {"hist": [case["case"]]})
        return "hist" in o and not o["hist"][0].get("ok")
    conf, nw = case["conf"], case["nw"]
    o = ctx.impl("c15", {"traces": [{"conf": conf, "nw": nw, "prefix": case["turns"]}]})
    res = o["traces"][0]
    fails = Sorted(ctx)
    judge(fails, conf, nw, res, "replay")
    return bool(fails.l)
