"""C17 - geometry helpers and input generators (pure Python floats; independent of pyresample).

Polygons are built in a gnomonic chart (tangent plane at a centre point c): great circles are straight lines there,
so convexity, simplicity, orientation, edge crossings and convex clipping are decided by planar predicates, exactly
as they hold on the sphere (for points less than 90 degrees from c)."""
import math

TWO_PI = 2 * math.pi


# ----------------------------------------------------------------------------------------------- vectors
def cart(lon, lat):
    return (math.cos(lat) * math.cos(lon), math.cos(lat) * math.sin(lon), math.sin(lat))


def norm(v):
    return math.sqrt(v[0] * v[0] + v[1] * v[1] + v[2] * v[2])


def unit(v):
    n = norm(v)
    return (v[0] / n, v[1] / n, v[2] / n)


def dot(a, b):
    return a[0] * b[0] + a[1] * b[1] + a[2] * b[2]


def cross(a, b):
    return (a[1] * b[2] - a[2] * b[1], a[2] * b[0] - a[0] * b[2], a[0] * b[1] - a[1] * b[0])


def lonlat(p):
    p = unit(p)
    return (math.atan2(p[1], p[0]), math.asin(max(-1.0, min(1.0, p[2]))))


def angle(a, b):
    """angular distance of two unit vectors"""
    return math.atan2(norm(cross(a, b)), dot(a, b))


def matvec(m, v):
    return tuple(m[i][0] * v[0] + m[i][1] * v[1] + m[i][2] * v[2] for i in range(3))


def random_rotation(rng):
    """uniform random rotation matrix (from a random unit quaternion)"""
    while True:
        q = [rng.gauss(0, 1) for _ in range(4)]
        n = math.sqrt(sum(x * x for x in q))
        if n > 1e-3:
            break
    w, x, y, z = (t / n for t in q)
    return ((1 - 2 * (y * y + z * z), 2 * (x * y - z * w), 2 * (x * z + y * w)),
            (2 * (x * y + z * w), 1 - 2 * (x * x + z * z), 2 * (y * z - x * w)),
            (2 * (x * z - y * w), 2 * (y * z + x * w), 1 - 2 * (x * x + y * y)))


def rotation_to_pole(u, south=False):
    """rotation matrix taking the unit vector u to the north (south) pole"""
    z = (0.0, 0.0, -1.0 if south else 1.0)
    ax = cross(u, z)
    s = norm(ax)
    c = dot(u, z)
    if s < 1e-12:
        return ((1.0, 0, 0), (0, 1.0, 0), (0, 0, 1.0)) if c > 0 else ((1.0, 0, 0), (0, -1.0, 0), (0, 0, -1.0))
    k = (ax[0] / s, ax[1] / s, ax[2] / s)
    K = ((0, -k[2], k[1]), (k[2], 0, -k[0]), (-k[1], k[0], 0))
    K2 = tuple(tuple(sum(K[i][t] * K[t][j] for t in range(3)) for j in range(3)) for i in range(3))
    return tuple(tuple((1.0 if i == j else 0.0) + s * K[i][j] + (1 - c) * K2[i][j] for j in range(3)) for i in range(3))


# ----------------------------------------------------------------------------------------------- gnomonic chart
class Chart:
    def __init__(self, lon, lat):
        self.c = cart(lon, lat)
        self.e = (-math.sin(lon), math.cos(lon), 0.0)          # east
        self.n = cross(self.c, self.e)                         # north; e x n = c (outward): x right, y up seen from outside

    def to_sphere(self, x, y):
        return unit(tuple(self.c[i] + x * self.e[i] + y * self.n[i] for i in range(3)))

    def to_plane(self, p):
        d = dot(p, self.c)
        if d <= 1e-6:
            raise ValueError("point not in the chart's hemisphere")
        return (dot(p, self.e) / d, dot(p, self.n) / d)


# ----------------------------------------------------------------------------------------------- planar predicates
def orient(a, b, c):
    return (b[0] - a[0]) * (c[1] - a[1]) - (b[1] - a[1]) * (c[0] - a[0])


def shoelace(P):
    return 0.5 * sum(P[i][0] * P[(i + 1) % len(P)][1] - P[(i + 1) % len(P)][0] * P[i][1] for i in range(len(P)))


def seg_cross(a, b, c, d):
    """proper crossing of the open segments ab and cd"""
    o1, o2, o3, o4 = orient(a, b, c), orient(a, b, d), orient(c, d, a), orient(c, d, b)
    return (o1 > 0) != (o2 > 0) and (o3 > 0) != (o4 > 0) and o1 != 0 and o2 != 0 and o3 != 0 and o4 != 0


def planar_simple(P):
    n = len(P)
    for i in range(n):
        for j in range(i + 1, n):
            if j == i or (j + 1) % n == i or (i + 1) % n == j:
                continue
            if seg_cross(P[i], P[(i + 1) % n], P[j], P[(j + 1) % n]):
                return False
    return True


def planar_convex_cw(P):
    n = len(P)
    return all(orient(P[i], P[(i + 1) % n], P[(i + 2) % n]) < 0 for i in range(n))


def point_in_cw_convex(P, q):
    n = len(P)
    return all(orient(P[i], P[(i + 1) % n], q) < 0 for i in range(n))


def point_in_polygon(P, q):
    """winding/crossing test for a simple planar polygon"""
    inside = False
    n = len(P)
    for i in range(n):
        a, b = P[i], P[(i + 1) % n]
        if (a[1] > q[1]) != (b[1] > q[1]):
            x = a[0] + (q[1] - a[1]) * (b[0] - a[0]) / (b[1] - a[1])
            if x > q[0]:
                inside = not inside
    return inside


def seg_point_dist(a, b, p):
    vx, vy = b[0] - a[0], b[1] - a[1]
    t = ((p[0] - a[0]) * vx + (p[1] - a[1]) * vy) / (vx * vx + vy * vy)
    t = max(0.0, min(1.0, t))
    return math.hypot(p[0] - a[0] - t * vx, p[1] - a[1] - t * vy)


def interior_diagonals(P):
    """(i, k) such that the open segment P[i]P[k] lies strictly inside the simple polygon P, with a safety margin"""
    n = len(P)
    scale = max(math.hypot(x, y) for x, y in P)
    out = []
    for i in range(n):
        for k in range(i + 2, n):
            if i == 0 and k == n - 1:
                continue
            a, b = P[i], P[k]
            ok = True
            for j in range(n):
                c, d = P[j], P[(j + 1) % n]
                if j in (i, k) or (j + 1) % n in (i, k):
                    continue
                if seg_cross(a, b, c, d):
                    ok = False
                    break
            if not ok:
                continue
            if any(seg_point_dist(a, b, P[j]) < 1e-3 * scale for j in range(n) if j not in (i, k)):
                continue
            if not all(point_in_polygon(P, (a[0] + t * (b[0] - a[0]), a[1] + t * (b[1] - a[1]))) for t in (0.25, 0.5, 0.75)):
                continue
            # locally inside at both ends: the diagonal must not run along an adjacent edge
            if min(abs(orient(a, b, P[(i + 1) % n])), abs(orient(a, b, P[i - 1])), abs(orient(b, a, P[(k + 1) % n])),
                   abs(orient(b, a, P[k - 1]))) < 1e-6 * scale * scale:
                continue
            out.append((i, k))
    return out


def clip_convex(S, C):
    """Sutherland-Hodgman: subject S clipped by the clockwise convex polygon C (inside = right of each edge)"""
    out = list(S)
    n = len(C)
    for i in range(n):
        a, b = C[i], C[(i + 1) % n]
        inp, out = out, []
        if not inp:
            break
        for j in range(len(inp)):
            p, q = inp[j], inp[(j + 1) % len(inp)]
            op, oq = orient(a, b, p), orient(a, b, q)
            if op < 0:
                out.append(p)
            if (op < 0) != (oq < 0):
                t = op / (op - oq)
                out.append((p[0] + t * (q[0] - p[0]), p[1] + t * (q[1] - p[1])))
    return out


# ----------------------------------------------------------------------------------------------- spherical measures
def tri_solid_angle(a, b, c):
    """signed solid angle of the spherical triangle abc (van Oosterom & Strackee)"""
    num = dot(a, cross(b, c))
    den = 1.0 + dot(a, b) + dot(b, c) + dot(c, a)
    return 2.0 * math.atan2(num, den)


def fan_area(kernel, pts):
    """area of a clockwise polygon star-shaped around `kernel` (unit sphere): fan of triangles, independent of azimuths"""
    n = len(pts)
    return -sum(tri_solid_angle(kernel, pts[i], pts[(i + 1) % n]) for i in range(n))


def point_arc_dist(p, a, b):
    """angular distance from p to the minor great-circle arc ab"""
    nrm = cross(a, b)
    s = norm(nrm)
    if s < 1e-300:
        return min(angle(p, a), angle(p, b))
    nrm = (nrm[0] / s, nrm[1] / s, nrm[2] / s)
    # foot of p on the great circle
    d = dot(p, nrm)
    f = (p[0] - d * nrm[0], p[1] - d * nrm[1], p[2] - d * nrm[2])
    if norm(f) > 1e-300:
        f = unit(f)
        if dot(cross(a, f), nrm) >= 0 and dot(cross(f, b), nrm) >= 0:
            return abs(math.asin(max(-1.0, min(1.0, d))))
    return min(angle(p, a), angle(p, b))


def pair_margin(A, B):
    """smallest distance of a vertex of one polygon to an edge (or vertex) of the other; A, B lists of unit vectors"""
    m = math.inf
    for P, Q in ((A, B), (B, A)):
        for p in P:
            for j in range(len(Q)):
                m = min(m, point_arc_dist(p, Q[j], Q[(j + 1) % len(Q)]))
    return m


def min_cross_angle(PA, PB):
    """smallest crossing angle (planar, radians) over properly crossing edge pairs; inf if none"""
    m = math.inf
    for i in range(len(PA)):
        a, b = PA[i], PA[(i + 1) % len(PA)]
        for j in range(len(PB)):
            c, d = PB[j], PB[(j + 1) % len(PB)]
            if seg_cross(a, b, c, d):
                u = (b[0] - a[0], b[1] - a[1])
                v = (d[0] - c[0], d[1] - c[1])
                s = abs(u[0] * v[1] - u[1] * v[0]) / (math.hypot(*u) * math.hypot(*v))
                m = min(m, math.asin(min(1.0, s)))
    return m


def crossing_points(PA, PB):
    out = []
    for i in range(len(PA)):
        a, b = PA[i], PA[(i + 1) % len(PA)]
        for j in range(len(PB)):
            c, d = PB[j], PB[(j + 1) % len(PB)]
            if seg_cross(a, b, c, d):
                o1, o2 = orient(c, d, a), orient(c, d, b)
                t = o1 / (o1 - o2)
                out.append((a[0] + t * (b[0] - a[0]), a[1] + t * (b[1] - a[1])))
    return out


def min_separation(pts):
    m = math.inf
    for i in range(len(pts)):
        for j in range(i + 1, len(pts)):
            m = min(m, angle(pts[i], pts[j]))
    return m


def far_crossing(PA, PB, ch):
    """largest angular distance of a crossing from the start vertex of either edge it lies on"""
    m = 0.0
    for i in range(len(PA)):
        a, b = PA[i], PA[(i + 1) % len(PA)]
        for j in range(len(PB)):
            c, d = PB[j], PB[(j + 1) % len(PB)]
            if seg_cross(a, b, c, d):
                o1, o2 = orient(c, d, a), orient(c, d, b)
                t = o1 / (o1 - o2)
                x = ch.to_sphere(a[0] + t * (b[0] - a[0]), a[1] + t * (b[1] - a[1]))
                m = max(m, angle(x, ch.to_sphere(*a)), angle(x, ch.to_sphere(*c)))
    return m


def crossings(PA, PB):
    return sum(1 for i in range(len(PA)) for j in range(len(PB))
               if seg_cross(PA[i], PA[(i + 1) % len(PA)], PB[j], PB[(j + 1) % len(PB)]))


# ----------------------------------------------------------------------------------------------- generators
def cw_angles(rng, n, max_gap=0.9 * math.pi, min_gap=None):
    """n directions in clockwise (decreasing) order, consecutive gaps in [min_gap, max_gap]"""
    if min_gap is None:
        min_gap = 0.35 * TWO_PI / n
    while True:
        a = sorted((rng.uniform(0, TWO_PI) for _ in range(n)), reverse=True)
        gaps = [a[i] - a[(i + 1) % n] for i in range(n)]
        gaps[-1] += TWO_PI
        if max(gaps) <= max_gap and min(gaps) >= min_gap:
            return a


def planar_convex(rng, n, radius):
    """strictly convex clockwise polygon: points of a circle, squeezed by a random linear map"""
    ang = cw_angles(rng, n)
    sx, sy = 1.0, rng.uniform(0.45, 1.0)
    phi = rng.uniform(0, TWO_PI)
    cp, sp = math.cos(phi), math.sin(phi)
    out = []
    for a in ang:
        x, y = radius * sx * math.cos(a), radius * sy * math.sin(a)
        out.append((cp * x - sp * y, sp * x + cp * y))
    # a rotation composed with an axis squeeze preserves orientation
    return out


def planar_star(rng, n, radius):
    """clockwise polygon star-shaped around the origin (origin strictly inside): simple by construction"""
    ang = cw_angles(rng, n)
    return [(r * math.cos(a), r * math.sin(a)) for a in ang for r in [radius * rng.uniform(0.35, 1.0)]]


PLACEMENTS = ("generic", "north_pole_inside", "south_pole_inside", "pole_vertex", "antimeridian", "near_pole_outside",
              "equator_meridian")


def place(rng, placement, planar, ang_radius):
    """put a planar polygon (chart coordinates around the origin) on the sphere; returns (unit vectors, kernel)"""
    if placement == "generic":
        z = rng.uniform(-1, 1)
        lon, lat = rng.uniform(-math.pi, math.pi), math.asin(z)
    elif placement == "north_pole_inside":
        lon, lat = rng.uniform(-math.pi, math.pi), math.pi / 2 - rng.uniform(0, 0.2) * ang_radius
    elif placement == "south_pole_inside":
        lon, lat = rng.uniform(-math.pi, math.pi), -math.pi / 2 + rng.uniform(0, 0.2) * ang_radius
    elif placement == "antimeridian":
        lon, lat = math.pi - rng.uniform(-0.3, 0.3) * ang_radius, rng.uniform(-1.2, 1.2)
        if lon > math.pi:
            lon -= TWO_PI
    elif placement == "near_pole_outside":
        lon, lat = rng.uniform(-math.pi, math.pi), rng.choice([-1, 1]) * max(0.0, math.pi / 2 - 1.05 * ang_radius - rng.uniform(0, 0.05))
    elif placement == "next_to_pole":          # the pole is a few polygon sizes away, outside
        lon, lat = rng.uniform(-math.pi, math.pi), rng.choice([-1, 1]) * (math.pi / 2 - rng.uniform(1.3, 6.0) * ang_radius)
    elif placement == "mid_latitude":
        lon, lat = rng.uniform(-3.0, 3.0), rng.choice([-1, 1]) * rng.uniform(0.3, 1.2)
    elif placement == "equator_meridian":
        lon, lat = rng.uniform(-0.3, 0.3) * ang_radius, rng.uniform(-0.3, 0.3) * ang_radius
    else:  # pole_vertex: placed generically, then rotated so that vertex 0 sits exactly on a pole
        lon, lat = rng.uniform(-math.pi, math.pi), rng.uniform(-1.0, 1.0)
    ch = Chart(lon, lat)
    pts = [ch.to_sphere(x, y) for x, y in planar]
    kernel = ch.c
    if placement == "pole_vertex":
        south = rng.random() < 0.5
        R = rotation_to_pole(pts[0], south)
        pts = [matvec(R, p) for p in pts]
        kernel = matvec(R, kernel)
    return pts, kernel


def to_lonlat(pts, rng=None, pole_lon=None):
    out = []
    for p in pts:
        lon, lat = lonlat(p)
        if abs(abs(p[2]) - 1.0) < 1e-15:
            lat = math.copysign(math.pi / 2, p[2])
            lon = pole_lon if pole_lon is not None else 0.0
        out.append([lon, lat])
    return out


def gen_polygon(rng, kind, n, placement, ang_radius=None):
    """kind: 'convex' | 'star'. Returns dict(v=[[lon,lat]], pts=[unit vectors], kernel, planar=chart coords, ...)"""
    if ang_radius is None:
        ang_radius = rng.choice([0.02, 0.1, 0.3, 0.6, 1.0, 1.3]) * rng.uniform(0.6, 1.0)
    radius = math.tan(ang_radius)
    planar = planar_convex(rng, n, radius) if kind == "convex" else planar_star(rng, n, radius)
    if kind == "star" and planar_convex_cw(planar):
        kind = "convex"
    assert shoelace(planar) < 0 and planar_simple(planar)
    pts, kernel = place(rng, placement, planar, ang_radius)
    v = to_lonlat(pts, pole_lon=rng.uniform(-math.pi, math.pi))
    return {"kind": kind, "n": n, "placement": placement, "planar": planar, "pts": pts, "kernel": kernel, "v": v,
            "ang_radius": ang_radius}


def pts_of(v):
    return [cart(lon, lat) for lon, lat in v]


def rotate_lonlat(v, R):
    return [list(lonlat(matvec(R, cart(lon, lat)))) for lon, lat in v]


def gen_pair(rng, relation, na, nb, placement, margin, stream="random"):
    """Two convex clockwise polygons in one chart.  relation: overlap | disjoint | a_in_b | b_in_a.
    Returns None when the rejection filters fail (caller retries)."""
    ang_radius = rng.choice([0.05, 0.2, 0.5, 0.9]) * rng.uniform(0.6, 1.0)
    R = math.tan(ang_radius) * 0.5
    ra = R * rng.uniform(0.5, 1.0)
    rb = R * rng.uniform(0.5, 1.0)
    if relation == "overlap":
        d = rng.uniform(0.25, 0.9) * (ra + rb)
    elif relation == "disjoint":
        d = rng.uniform(1.15, 1.8) * (ra + rb)
        if d + rb > 2 * R * 1.3:
            d = 1.15 * (ra + rb)
    elif relation == "a_in_b":
        ra = rb * rng.uniform(0.15, 0.4)
        d = rng.uniform(0, 0.25) * rb
    else:
        rb = ra * rng.uniform(0.15, 0.4)
        d = rng.uniform(0, 0.25) * ra
    th = rng.uniform(0, TWO_PI)
    off = (d * math.cos(th), d * math.sin(th))
    PA = planar_convex(rng, na, ra)
    PB = [(x + off[0], y + off[1]) for x, y in planar_convex(rng, nb, rb)]
    return finish_pair(rng, PA, PB, placement, ang_radius, margin, stream)


def classify(PA, PB):
    nx = crossings(PA, PB)
    if nx:
        return "overlap", nx
    if all(point_in_cw_convex(PB, p) for p in PA):
        return "a_in_b", 0
    if all(point_in_cw_convex(PA, p) for p in PB):
        return "b_in_a", 0
    if not any(point_in_cw_convex(PB, p) for p in PA) and not any(point_in_cw_convex(PA, p) for p in PB):
        return "disjoint", 0
    return "unclear", 0


def finish_pair(rng, PA, PB, placement, ang_radius, margin, stream, max_ang=1.35):
    if not (planar_convex_cw(PA) and planar_convex_cw(PB)):
        return None
    if max(math.hypot(x, y) for x, y in PA + PB) > math.tan(max_ang):
        return None
    rel, nx = classify(PA, PB)
    if rel == "unclear":
        return None
    ptsA, kernel = place(rng, placement if placement != "pole_vertex" else "generic", PA, ang_radius)
    # same chart for B: recompute through the chart of A's placement
    ch_c = kernel
    lon, lat = lonlat(ch_c)
    ch = Chart(lon, lat)
    ptsA = [ch.to_sphere(x, y) for x, y in PA]
    ptsB = [ch.to_sphere(x, y) for x, y in PB]
    va, vb = to_lonlat(ptsA), to_lonlat(ptsB)
    # margins are evaluated on the coordinates the implementation will see
    A3, B3 = pts_of(va), pts_of(vb)
    m = pair_margin(A3, B3)
    if m < margin:
        return None
    node_sep = min_separation(A3 + B3 + [ch.to_sphere(x, y) for x, y in crossing_points(PA, PB)])
    inter_ref = None
    if rel == "overlap":
        clip = clip_convex(PA, PB)
        if len(clip) < 3:
            return None
        cp = [ch.to_sphere(x, y) for x, y in clip]
        k = unit(tuple(sum(p[i] for p in cp) for i in range(3)))
        inter_ref = fan_area(k, cp)
    return {"a": va, "b": vb, "relation": rel, "crossings": nx, "margin": m, "placement": placement, "stream": stream,
            "planar_a": PA, "planar_b": PB, "inter_ref": inter_ref, "chart": [lon, lat],
            "area_a_ref": fan_area(unit(tuple(sum(p[i] for p in A3) for i in range(3))), A3),
            "area_b_ref": fan_area(unit(tuple(sum(p[i] for p in B3) for i in range(3))), B3),
            "cross_angle": min_cross_angle(PA, PB), "node_sep": node_sep,
            "max_edge": max(angle(P3[i], P3[(i + 1) % len(P3)]) for P3 in (A3, B3) for i in range(len(P3))),
            "far_crossing": far_crossing(PA, PB, ch)}


def gen_pair_near_parallel(rng, na, placement, margin, long_edges=False):
    """B has an edge crossing an edge of A at a tiny angle (both polygons convex, vertices >= margin from the other's edges).
    long_edges: edges of ~0.5..1 rad and an angle of 1.5e-4..4.3e-4 rad, so that all vertices and crossings stay > 6e-5 rad apart."""
    ang_radius = rng.uniform(0.95, 1.2) if long_edges else rng.choice([0.1, 0.3, 0.6]) * rng.uniform(0.6, 1.0)
    ra = math.tan(ang_radius) * 0.5
    PA = planar_convex(rng, na, ra)
    i = rng.randrange(na)
    a0, a1 = PA[i], PA[(i + 1) % na]
    L = math.hypot(a1[0] - a0[0], a1[1] - a0[1])
    u = ((a1[0] - a0[0]) / L, (a1[1] - a0[1]) / L)
    t = rng.uniform(0.35, 0.65)
    m = (a0[0] + t * L * u[0], a0[1] + t * L * u[1])
    theta = 10 ** rng.uniform(-4.7, -3.0) * rng.choice([-1, 1])
    half = L * rng.uniform(0.15, 0.3)
    if long_edges:
        theta = rng.uniform(1.5e-4, 4.3e-4) * rng.choice([-1, 1])
        half = L * rng.uniform(0.3, 0.42)
    c, s = math.cos(theta), math.sin(theta)
    w = (c * u[0] - s * u[1], s * u[0] + c * u[1])
    # clockwise polygon: interior is to the right of a0->a1, i.e. in direction (u_y, -u_x)
    inward = (u[1], -u[0])
    deep = rng.random() < 0.5
    side = 1.0 if deep else -1.0
    third = (m[0] + side * inward[0] * L * rng.uniform(0.2, 0.5) + u[0] * L * rng.uniform(-0.05, 0.05),
             m[1] + side * inward[1] * L * rng.uniform(0.2, 0.5) + u[1] * L * rng.uniform(-0.05, 0.05))
    p0 = (m[0] - half * w[0], m[1] - half * w[1])
    p1 = (m[0] + half * w[0], m[1] + half * w[1])
    PB = [p0, p1, third]
    if shoelace(PB) > 0:
        PB = [p1, p0, third]
    return finish_pair(rng, PA, PB, placement, ang_radius, margin, "near_parallel")


def gen_pair_near_vertex(rng, na, placement, margin):
    """An edge of B crosses an edge of A very close to (but >= margin from) a vertex of A, at a large angle."""
    ang_radius = rng.choice([0.1, 0.3, 0.6]) * rng.uniform(0.6, 1.0)
    ra = math.tan(ang_radius) * 0.5
    PA = planar_convex(rng, na, ra)
    i = rng.randrange(na)
    a0, a1 = PA[i], PA[(i + 1) % na]
    L = math.hypot(a1[0] - a0[0], a1[1] - a0[1])
    u = ((a1[0] - a0[0]) / L, (a1[1] - a0[1]) / L)
    eps = 10 ** rng.uniform(-5.6, -3.5)
    at_end = rng.random() < 0.5
    x = (a1[0] - eps * u[0], a1[1] - eps * u[1]) if at_end else (a0[0] + eps * u[0], a0[1] + eps * u[1])
    inward = (u[1], -u[0])
    tilt = rng.uniform(-0.3, 0.3)
    w = (inward[0] + tilt * u[0], inward[1] + tilt * u[1])
    wl = math.hypot(*w)
    w = (w[0] / wl, w[1] / wl)
    ext = L * rng.uniform(0.2, 0.4)
    p_out = (x[0] - ext * w[0], x[1] - ext * w[1])
    p_in = (x[0] + ext * w[0], x[1] + ext * w[1])
    # third vertex on the side of the long part of A's edge, so that B overlaps A substantially
    sgn = -1.0 if at_end else 1.0
    third = (x[0] + sgn * u[0] * L * rng.uniform(0.3, 0.6), x[1] + sgn * u[1] * L * rng.uniform(0.3, 0.6))
    third = (third[0] + inward[0] * L * rng.uniform(-0.1, 0.1), third[1] + inward[1] * L * rng.uniform(-0.1, 0.1))
    PB = [p_out, p_in, third]
    if shoelace(PB) > 0:
        PB = [p_in, p_out, third]
    return finish_pair(rng, PA, PB, placement, ang_radius, margin, "near_vertex")


def gen_pair_large(rng, placement, margin):
    """A is a convex triangle / quadrilateral with edges longer than 90 degrees (still inside the chart's hemisphere),
    B any convex polygon placed so that it tends to cross A's long edges."""
    rho_a = rng.uniform(1.25, 1.45)
    PA = planar_convex(rng, rng.choice([3, 3, 4]), math.tan(rho_a))
    rho_b = rng.uniform(0.5, 1.3)
    rb = math.tan(rho_b)
    # centre of B near the boundary of A: a random point on an edge of A, pulled a little inwards or outwards
    i = rng.randrange(len(PA))
    a, b = PA[i], PA[(i + 1) % len(PA)]
    t = rng.uniform(0.1, 0.9)
    c = ((a[0] + t * (b[0] - a[0])) * rng.uniform(0.7, 1.1), (a[1] + t * (b[1] - a[1])) * rng.uniform(0.7, 1.1))
    PB = [(x + c[0], y + c[1]) for x, y in planar_convex(rng, rng.randint(3, 6), rb * rng.uniform(0.3, 1.0))]
    return finish_pair(rng, PA, PB, placement, 1.0, margin, "large", max_ang=1.5)
