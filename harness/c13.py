"""C13 — create_area_def is parameter-set independent; YAML dump/load is lossless."""
import itertools
import json
import math

from .common import fhex as _fhex, ints


def fhex(x):
    t = _fhex(x)
    return "PrimFloat." + t if t in ("nan", "infinity", "neg_infinity") else t

PROP_FILE = "Properties/C13.v"
GEN = ["GenC13"]
RUN_FILES = ["Model/C13_run.v"]

# ----------------------------------------------------------------------------------------------- CRS pool
# name -> (projection as handed to pyresample, kind, centre box (x0, x1, y0, y1) and max half-span, all in CRS units)
M = 1.0
POOL = {
    "laea": ({"proj": "laea", "lat_0": 50, "lon_0": 10, "ellps": "WGS84"}, "m", (-2e6, 2e6, -2e6, 2e6), 1.5e6),
    "stere": ({"proj": "stere", "lat_0": 90, "lon_0": -45, "lat_ts": 70, "ellps": "WGS84"}, "m", (-3e6, 3e6, -3e6, 3e6), 2e6),
    "merc": ({"proj": "merc", "lon_0": 20, "ellps": "WGS84"}, "m", (-1.5e7, 1.5e7, -8e6, 8e6), 3e6),
    "eqc": ({"proj": "eqc", "ellps": "WGS84"}, "m", (-1.5e7, 1.5e7, -7e6, 7e6), 2e6),
    "lcc": ({"proj": "lcc", "lat_1": 30, "lat_2": 60, "lat_0": 45, "lon_0": 10, "ellps": "WGS84"}, "m", (-3e6, 3e6, -2e6, 2e6), 1.5e6),
    "longlat": ({"proj": "longlat", "datum": "WGS84"}, "deg", (-175.0, 175.0, -60.0, 60.0), 25.0),
    "epsg4326": ("EPSG:4326", "deg", (-175.0, 175.0, -60.0, 60.0), 25.0),
    "epsg3857": ("EPSG:3857", "m", (-1.5e7, 1.5e7, -8e6, 8e6), 3e6),
    "epsg32633": ("EPSG:32633", "m", (2.5e5, 7.5e5, 1e5, 8.5e6), 2e5),
    "epsg3035": ("EPSG:3035", "m", (2.5e6, 6.5e6, 1.5e6, 5e6), 1e6),
    "epsg3035_int": (3035, "m", (2.5e6, 6.5e6, 1.5e6, 5e6), 1e6),
    "stere_km": ({"proj": "stere", "lat_0": 90, "lon_0": 0, "ellps": "WGS84", "units": "km"}, "km", (-3e3, 3e3, -3e3, 3e3), 2e3),
    "laea_km": ("+proj=laea +lat_0=52 +lon_0=10 +x_0=4321000 +y_0=3210000 +ellps=GRS80 +units=km", "km",
                (2.5e3, 6.5e3, 1.5e3, 5e3), 1e3),
    # projected CRSs whose unit is neither metre nor kilometre (_get_proj_units keeps the unit name)
    "lcc_usft": ("+proj=lcc +lat_1=30 +lat_2=60 +lat_0=45 +lon_0=10 +ellps=WGS84 +units=us-ft", "usft", (-9e6, 9e6, -6e6, 6e6), 4e6),
    "tmerc_usft": ({"proj": "tmerc", "lat_0": 0, "lon_0": 15, "ellps": "GRS80", "units": "us-ft", "x_0": 1640416.667}, "usft",
                   (8e5, 2.4e6, 1e6, 2.5e7), 6e5),
    "epsg2264": ("EPSG:2264", "usft", (1.2e6, 2.8e6, 2e5, 9e5), 3e5),
    "laea_ft": ("+proj=laea +lat_0=50 +lon_0=10 +ellps=WGS84 +units=ft", "ft", (-6e6, 6e6, -6e6, 6e6), 4e6),
}
# metres per projection unit
METRES = {"m": 1.0, "km": 1000.0, "usft": 1200.0 / 3937.0, "ft": 0.3048}
# additional CRSs only for dump/load (EPSG shorthand for PROJ dicts, other units, datum shifts)
YAML_EXTRA = {
    "utm_str": ("+proj=utm +zone=33 +datum=WGS84", "m", (2.5e5, 7.5e5, 1e5, 8.5e6), 2e5),
    "utm_km": ("+proj=utm +zone=33 +datum=WGS84 +units=km", "km", (2.5e2, 7.5e2, 1e2, 8.5e3), 2e2),
    "geos": ({"proj": "geos", "h": 35785831.0, "lon_0": 0, "ellps": "WGS84"}, "m", (-2e6, 2e6, -2e6, 2e6), 1.5e6),
    "longlat_bessel": ({"proj": "longlat", "ellps": "bessel"}, "deg", (-175.0, 175.0, -60.0, 60.0), 25.0),
    "tmerc_towgs": ({"proj": "tmerc", "lat_0": 0, "lon_0": 9, "k": 1, "x_0": 3500000, "y_0": 0, "ellps": "bessel",
                     "towgs84": "598.1,73.7,418.2,0.202,0.045,-2.455,6.7"}, "m", (3.2e6, 3.8e6, 5e6, 6e6), 2e5),
    "epsg4326_int": (4326, "deg", (-175.0, 175.0, -60.0, 60.0), 25.0),
    "ob_tran": ({"proj": "ob_tran", "o_proj": "longlat", "o_lon_p": 0, "o_lat_p": 30, "lon_0": 10, "ellps": "WGS84"},
                "deg", (-20.0, 20.0, -20.0, 20.0), 10.0),
}
SETS = ["es", "crs", "cds", "uds", "crd", "ed", "ewh"]       # the seven descriptions of the property text
VIA = {"es": "from_extent", "crs": "from_circle", "crd": "from_circle", "cds": "from_area_of_interest", "uds": "from_ul_corner"}
UT = {"deg": "UTdeg", "degrees": "UTdegrees", "m": "UTm", "meters": "UTmeters", "metres": "UTmetres", "km": "UTkm",
      "degree": "UTbaddeg"}
UNAME = {"metre": "UNmetre", "meter": "UNmeter", "kilometre": "UNkilometre", "kilometer": "UNkilometer"}


# ----------------------------------------------------------------------------------------------- generation
def rfloat(r, a, b):
    return a + (b - a) * r.random()


def gen_grid(r, name, nice=False, big=False):
    """A random grid on CRS `name`: extent (xmin < xmax, ymin < ymax) and shape (h, w >= 1)."""
    _, kind, box, hs = POOL.get(name) or YAML_EXTRA[name]
    cx, cy = rfloat(r, box[0], box[1]), rfloat(r, box[2], box[3])
    lo = hs * 1e-4
    rx, ry = math.exp(rfloat(r, math.log(lo), math.log(hs))), math.exp(rfloat(r, math.log(lo), math.log(hs)))
    w = r.choice([1, 1, 2, 3, 7, 10]) if r.random() < 0.25 else r.randint(1, 4000 if big else 300)
    h = r.choice([1, 1, 2, 3, 7, 10]) if r.random() < 0.25 else r.randint(1, 4000 if big else 300)
    if nice:
        q = 10.0 ** r.randint(-2, 2) if kind != "deg" else 2.0 ** -r.randint(0, 4)
        dx, dy = q * r.randint(1, 40), q * r.randint(1, 40)
        w, h = max(1, min(w, int(2 * hs / dx))), max(1, min(h, int(2 * hs / dy)))      # stay inside the CRS's box
        x0 = round((cx - w * dx / 2) / q) * q
        y0 = round((cy - h * dy / 2) / q) * q
        ext = (x0, y0, x0 + w * dx, y0 + h * dy)
    else:
        ext = (cx - rx, cy - ry, cx + rx, cy + ry)
    if kind == "deg":
        ext = (ext[0], max(ext[1], -89.0), ext[2], min(ext[3], 89.0))
    return [float(x) for x in ext], (h, w)


def derive(ext, shape):
    x0, y0, x1, y1 = ext
    h, w = shape
    return {"center": [(x0 + x1) / 2, (y0 + y1) / 2], "radius": [(x1 - x0) / 2, (y1 - y0) / 2],
            "resolution": [(x1 - x0) / w, (y1 - y0) / h], "upper_left_extent": [x0, y1],
            "area_extent": list(ext), "shape": [h, w]}


def description(d, s):
    """The parameters of description s (one of SETS) taken from the derived quantities d."""
    keys = {"es": ["area_extent", "shape"], "crs": ["center", "radius", "shape"], "cds": ["center", "resolution", "shape"],
            "uds": ["upper_left_extent", "resolution", "shape"], "crd": ["center", "radius", "resolution"],
            "ed": ["area_extent", "resolution"], "ewh": ["area_extent"]}[s]
    out = {k: {"v": list(d[k])} for k in keys}
    if s == "ewh":
        out["width"] = {"v": d["shape"][1]}
        out["height"] = {"v": d["shape"][0]}
    return out


def scale_args(args, k):
    out = {}
    for name, p in args.items():
        if name in ("shape", "width", "height"):
            out[name] = p
        else:
            v = p["v"]
            out[name] = dict(p, v=[x * k for x in v] if isinstance(v, list) else v * k)
    return out


def unit_variants(r, kind, thorough):
    """(label, factor applied to the values handed over, units keyword, per-parameter attr or None)."""
    if kind == "deg":
        v = [("proj", 1.0, None, None), ("degrees_kw", 1.0, "degrees", None), ("deg_attr", 1.0, None, "deg")]
    elif kind == "m":
        v = [("proj", 1.0, None, None), ("km_kw", 1e-3, "km", None), ("km_attr", 1e-3, None, "km"),
             ("m_kw", 1.0, r.choice(["m", "meters", "metres"]), None)]
    elif kind == "km":
        v = [("proj", 1.0, None, None), ("m_kw", 1e3, r.choice(["m", "meters", "metres"]), None), ("m_attr", 1e3, None, "m"),
             ("km_kw", 1.0, "km", None)]
    else:       # feet: the grid is in feet, the description may be handed over in metres or kilometres
        k = METRES[kind]
        v = [("proj_ft_crs", 1.0, None, None), ("m_kw_ft_crs", k, r.choice(["m", "meters", "metres"]), None),
             ("m_attr_ft_crs", k, None, r.choice(["m", "meters", "metres"])), ("km_kw_ft_crs", k / 1000.0, "km", None)]
        return v if thorough else [v[0], v[1 + r.randrange(2)], v[3]] if r.random() < 0.5 else [v[0], v[1], v[2]]
    return v if thorough else [v[0], r.choice(v[1:])]


def with_attr(args, attr):
    if attr is None:
        return args
    return {k: (dict(p, attr=attr) if k not in ("shape", "width", "height") else p) for k, p in args.items()}


# ----------------------------------------------------------------------------------------------- Coq text
def f2(v):
    return "(%s, %s)" % (fhex(v[0]), fhex(v[1]))


def f4(v):
    return "(%s, %s, %s, %s)" % tuple(fhex(x) for x in v)


def opt(x, f=lambda s: s):
    return "None" if x is None else "(Some %s)" % f(x)


def fpair(steps):
    """PROJ's unitconvert step factors (at most two) as the model's pair; a missing step is the factor 1."""
    steps = list(steps or [])
    if len(steps) > 2:
        steps = [float("nan"), float("nan")]       # outside the model: shows up as a mismatch
    steps += [1.0] * (2 - len(steps))
    return "(%s, %s)" % (fhex(steps[0]), fhex(steps[1]))


def coq_param(p):
    if p is None:
        return "None"
    v = p["v"]
    if not isinstance(v, list):
        v = [v, v]
    attr = "None" if p.get("attr") is None else "(Some %s)" % UT[p["attr"]]
    return "(Some (%s, %s))" % (f2(v) if len(v) == 2 else f4(v), attr)


def coq_args(args, units):
    g = args.get
    wd = "None" if g("width") is None else "(Some %s)" % fhex(g("width")["v"])
    ht = "None" if g("height") is None else "(Some %s)" % fhex(g("height")["v"])
    sh = "None" if g("shape") is None else "(Some %s)" % f2(g("shape")["v"])
    return "(@mk_args float %s %s %s %s %s %s %s %s %s)" % (
        wd, ht, coq_param(g("area_extent")), sh, coq_param(g("upper_left_extent")), coq_param(g("center")),
        coq_param(g("resolution")), coq_param(g("radius")), "None" if units is None else "(Some %s)" % UT[units])


def coq_tbl(rows):
    out = []
    for x, y, ox, oy in rows:
        out.append("((%s, %s), %s)" % (fhex(x), fhex(y), "None" if ox is None else "(Some (%s, %s))" % (fhex(ox), fhex(oy))))
    return "[" + "; ".join(out) + "]"


def coq_outcome(o):
    if o["kind"] == "raise":
        return "Raised"
    if o["kind"] == "area":
        return "(Area %s (%d, %d))" % (f4(o["extent"]), o["shape"][0], o["shape"][1])
    sh = None if o["height"] is None or o["width"] is None else (o["height"], o["width"])
    return "(Dynamic %s %s %s)" % (opt(o["extent"], f4), opt(sh, lambda s: "(%d, %d)" % s), opt(o["resolution"], f2))


def modelled(case, obs):
    """Is the case inside the model's vocabulary (unit tokens, CRS unit names, well-formed lists)?"""
    f = obs["facts"]
    if "crs_error" in f:
        return False
    if case.get("units") is not None and case["units"] not in UT:
        return False
    for k, p in case["args"].items():
        if p.get("attr") is not None and p["attr"] not in UT:
            return False
        v = p["v"]
        n = {"area_extent": 4, "width": 0, "height": 0}.get(k, 2)
        if isinstance(v, list):
            if len(v) != n or k in ("width", "height"):
                return False
        elif k in ("area_extent", "shape", "center", "upper_left_extent"):
            return False
    if obs["kind"] == "dynamic" and ((obs["height"] is None) != (obs["width"] is None)):
        return False
    return True


def coq_case(case, obs):
    f = obs["facts"]
    fac = f.get("fac") or {}
    return "(%s, %s, %s, %s, %s, %s, %s, %s)" % (
        "true" if f["geographic"] else "false", UNAME.get(f["unit_name"], "UNother"), fpair(fac.get("km")), fpair(fac.get("m")),
        coq_tbl(obs["fwd"]), coq_tbl(obs["inv"]), coq_args(case["args"], case.get("units")), coq_outcome(obs))


HDR = ("From Coq Require Import ZArith List Bool PrimFloat.\nFrom PR Require Import Base.Num Base.F64 Base.ListX Model.AreaConfig "
       "Model.AreaYaml Model.C13_run.\nImport ListNotations.\nOpen Scope Z_scope.\n")


# ----------------------------------------------------------------------------------------------- oracles
def close_ext(a, b, rel=1e-9):
    scale = max(max(abs(x) for x in b), abs(b[2] - b[0]), abs(b[3] - b[1]))
    return all(abs(x - y) <= rel * scale for x, y in zip(a, b))


def closure(have):
    """Geometric closure of the known quantities (independent of the code's evaluation order)."""
    k = set(have)
    while True:
        n = set(k)
        if "area_extent" in n:
            n |= {"center", "radius", "upper_left_extent"}
        if {"upper_left_extent", "center"} <= n:
            n.add("radius")
        if {"radius", "resolution"} <= n:
            n.add("shape")
        if {"resolution", "shape"} <= n:
            n.add("radius")
        if {"center", "radius"} <= n or {"upper_left_extent", "radius"} <= n:
            n.add("area_extent")
        if n == k:
            return k
        k = n


def pole_snapped(name, d, args):
    """The designed pole snapping applies: a centre is handed over and lies within 1e-4 deg of a pole."""
    if "center" not in args:
        return False
    _, kind, _, _ = POOL[name]
    cx, cy = d["center"]
    if kind == "deg":
        return abs(abs(cy) - 90) < 1.2e-4
    if name.startswith("stere"):
        return math.hypot(cx, cy) * (1000.0 if kind == "km" else 1.0) < 13.0
    return False


def run(ctx):
    r = ctx.rng
    T = ctx.thorough
    ctx.rule = ("random grids (log-uniform spans, shapes 1..300 (thorough 1..4000), 25% with a 1..10 side, 'nice' grids whose "
                "resolution divides the extent exactly) on 17 CRSs (PROJ dicts laea/stere/merc/eqc/lcc/longlat, EPSG 4326/3857/32633/3035, "
                "km-unit stere/laea, US-survey-foot lcc/tmerc/EPSG:2264, international-foot laea), each described in the seven ways of the property text x unit variants (projection units, km / m "
                "keyword, per-parameter DataArray units, metre synonyms, metres / kilometres on foot CRSs, degrees on geographic CRSs), via create_area_def and the from_* "
                "classmethods; antimeridian-crossing and pole-centred grids; contradiction cases = consistent description + one extra "
                "parameter perturbed by 1e-9..1 relative; all 64 subsets of the six parameters for missing information; degree "
                "centre/radius/resolution on projected CRSs and malformed values for the correspondence only; dump/load of 1..6 "
                "areas per string/list/file/stream/deprecated alias with region selection, ids / descriptions / an added proj_id entry "
                "drawn from YAML-hostile and empty / falsy-looking strings ('', '0', 'None', ' ', 'False', '0.0', '[]'); histories on one "
                "file path in one process (dump = append, load whole / by id / a missing id, overwrite, remove, via str / pathlib / list "
                "paths and load_area / parse_area_file), every load compared with the tracked file content and with loading the file's text.  A case is non-trivial when the implementation has to "
                "derive extent or shape (not extent+shape given in projection units) or loads at least one area; distinct = "
                "distinct argument sets")
    creates = []      # (case dict for the driver, meta dict)

    def add(name, args, units, meta, via=None):
        case = {"crs": POOL[name][0], "args": args, "units": units}
        if via:
            case["via"] = via
        creates.append((case, dict(meta, crs=name)))

    names = list(POOL)
    # ---- 1. the seven descriptions
    grids = []
    for name in names:
        for i in range(ctx.n(6, 60)):
            grids.append((name, gen_grid(r, name, nice=(i % 3 == 2), big=T and i % 5 == 0)))
    # antimeridian-crossing geographic grids and global grids with cell-centred registration
    for name in ("longlat", "epsg4326"):
        grids.append((name, ([-180.125, -90.0, 180.125, 90.0], (720, 1441))))
        grids.append((name, ([-181.15, -1.25, -178.65, 1.25], (10, 10))))
        grids.append((name, ([170.0, -20.0, 200.0, 10.0], (30, 60))))
        for _ in range(ctx.n(2, 12)):
            x0 = rfloat(r, -230.0, -181.0)
            grids.append((name, ([x0, -30.0, x0 + rfloat(r, 1.0, 60.0), 40.5], (r.randint(1, 90), r.randint(1, 90)))))
    # pole-centred grids (exactly on the pole: snapping is the identity)
    grids.append(("stere", ([-1000000.0, -1000000.0, 1000000.0, 1000000.0], (200, 200))))
    grids.append(("stere_km", ([-1000.0, -1000.0, 1000.0, 1000.0], (50, 40))))
    # grids whose centre is within ~11 m of a pole but not on it (known finding: _round_poles)
    snap = [("stere", ([-995.0, -997.0, 1005.0, 1003.0], (10, 10))), ("stere_km", ([-100.004, -99.997, 99.996, 100.003], (20, 20))),
            ("longlat", ([-20.0, 79.99995, 20.0, 99.99995], (20, 40)))]
    for _ in range(ctx.n(1, 6)):
        cx, cy = rfloat(r, -7, 7), rfloat(r, -7, 7)
        rr = rfloat(r, 1e3, 1e6)
        snap.append(("stere", ([cx - rr, cy - rr, cx + rr, cy + rr], (r.randint(1, 50), r.randint(1, 50)))))
    grids += snap
    gid = 0
    for name, (ext, shape) in grids:
        kind = POOL[name][1]
        d = derive(ext, shape)
        for label, k, ukw, attr in unit_variants(r, kind, T):
            for s in SETS:
                args = with_attr(scale_args(description(d, s), k), attr)
                if r.random() < 0.3 and "resolution" in args and abs(d["resolution"][0] - d["resolution"][1]) == 0:
                    args["resolution"] = dict(args["resolution"], v=args["resolution"]["v"][0])       # scalar form
                via = None
                if s in VIA and attr is None and r.random() < 0.3:
                    via = VIA[s]
                add(name, args, ukw, {"cls": "sets", "gid": gid, "set": s, "unit": label, "ext": ext, "shape": shape, "d": d,
                                      "k": k}, via)
            gid += 1

    # ---- 2. contradictions: a description the code has to combine + one extra parameter that disagrees
    combos = [("ed", "center"), ("ed", "radius"), ("ed", "upper_left_extent"), ("ucr", "radius"), ("crd", "shape"),
              ("cds", "radius"), ("ewh", "shape"), ("uds", "radius"), ("e", "center"), ("crd", "area_extent_by_ul")]
    for name in names:
        kind = POOL[name][1]
        for _ in range(ctx.n(10, 120)):
            ext, shape = gen_grid(r, name, nice=r.random() < 0.5)
            d = derive(ext, shape)
            base, extra = r.choice(combos)
            if base == "ucr":
                args = {k: {"v": list(d[k])} for k in ("upper_left_extent", "center", "shape")}
            elif base == "e":
                args = {"area_extent": {"v": list(ext)}}
            else:
                args = description(d, base)
            mag = r.choice([0.0, 1e-12, 1e-9, 1e-7, 3e-6, 9e-6, 1.1e-5, 3e-5, 1e-4, 1e-3, 1e-2, 0.3, 1.0])
            sgn = r.choice([-1, 1])
            comp = r.randint(0, 1)
            if extra == "shape":
                v = list(shape)
                delta = r.choice([0, 1, -1, 2, 5]) if mag > 0 else 0
                v[comp] = max(1, v[comp] + delta)
                if base == "ewh":
                    args["shape"] = {"v": v}
                else:
                    args["shape"] = {"v": v}
                contradiction = "clear" if v != list(shape) else "none"
                pert = {"extra": "shape", "v": v}
            elif extra == "area_extent_by_ul":
                v = list(d["upper_left_extent"])
                v[comp] += sgn * mag * abs(d["radius"][comp])       # the code compares radii here: perturb relative to the radius
                args["upper_left_extent"] = {"v": v}
                # centre + radius + upper-left: the code derives the radius from (upper-left, centre) and validates the given one
                dv = abs(v[comp] - d["upper_left_extent"][comp])
                ref = abs(d["radius"][comp])
                contradiction = "clear" if dv > 1e-3 * ref and dv > 1e-3 else ("none" if mag <= 1e-9 else "grey")
                pert = {"extra": "upper_left_extent", "v": v}
            else:
                v = list(d[extra])
                v[comp] += sgn * mag * abs(v[comp])
                args[extra] = {"v": v}
                dv = abs(v[comp] - d[extra][comp])
                ref = max(abs(v[comp]), abs(d[extra][comp]))
                contradiction = "clear" if dv > 1e-3 * ref and dv > 1e-3 else ("none" if mag <= 1e-9 else "grey")
                if base in ("cds", "uds"):
                    # radius against resolution x shape is compared in pixels after _round_shape (up unless < .01 px above)
                    pix = sgn * mag * shape[1 - comp]
                    contradiction = "clear" if pix > 0.05 or pix < -1.05 else ("none" if mag <= 1e-9 else "grey")
                pert = {"extra": extra, "v": v}
            add(name, args, None, {"cls": "contra", "base": base, "contradiction": contradiction, "pert": pert, "ext": ext,
                                   "shape": shape, "mag": mag})

    # ---- 3. missing information: every subset of the six parameters of a consistent grid
    six = ["area_extent", "shape", "center", "radius", "resolution", "upper_left_extent"]
    for name in (names if T else ["laea", "epsg4326", "stere_km", "epsg3035"]):
        ext, shape = gen_grid(r, name, nice=True)
        d = derive(ext, shape)
        for mask in range(64):
            have = [p for i, p in enumerate(six) if mask >> i & 1]
            add(name, {p: {"v": list(d[p])} for p in have}, None, {"cls": "missing", "have": have, "ext": ext, "shape": shape})
        add(name, {"area_extent": {"v": list(ext)}, "width": {"v": shape[1]}}, None, {"cls": "one_of_wh"})
        add(name, {"area_extent": {"v": list(ext)}, "height": {"v": shape[0]}, "shape": {"v": list(shape)}}, None, {"cls": "one_of_wh"})

    # ---- 4. correspondence-only stream: degrees on projected CRSs, mixed units, rounding of non-integral shapes, malformed
    for name in names:
        kind = POOL[name][1]
        for _ in range(ctx.n(12, 150)):
            ext, shape = gen_grid(r, name)
            d = derive(ext, shape)
            what = r.choice(["deg_center", "deg_all", "frac_shape", "frac_res", "mixed", "malformed", "polar_deg", "bad_units"])
            units = None
            if what == "deg_center":
                args = {"center": {"v": [rfloat(r, -179, 179), rfloat(r, -89, 89)], "attr": r.choice(["deg", "degrees"])},
                        "radius": {"v": list(d["radius"])}, "shape": {"v": list(shape)}}
            elif what == "deg_all":
                args = {"center": {"v": [rfloat(r, -60, 60), rfloat(r, 20, 80)]}, "radius": {"v": [rfloat(r, 0.1, 20), rfloat(r, 0.1, 9)]},
                        "resolution": {"v": [rfloat(r, 0.01, 0.5), rfloat(r, 0.01, 0.5)]}}
                units = r.choice(["deg", "degrees"])
            elif what == "polar_deg":
                lat = r.choice([90, -90, 89.99995, 89.9995, -89.9999, 89.0])
                args = {"center": {"v": [rfloat(r, -180, 180), lat]}, "radius": {"v": [rfloat(r, 0.1, 5), rfloat(r, 0.1, 5)]},
                        "shape": {"v": list(shape)}}
                units = "degrees"
            elif what == "frac_shape":
                f = r.choice([0.0, 1e-9, 5e-9, 2e-8, 0.004, 0.0099, 0.01, 0.011, 0.3, 0.5, 0.7, 0.999, 1 - 1e-9])
                args = {"area_extent": {"v": list(ext)}, "shape": {"v": [shape[0] + f, shape[1] + r.choice([0.0, f])]}}
                if r.random() < 0.3:      # exactly on the thresholds of _round_shape (.01 and 1e-8 above an integer)
                    args["shape"]["v"] = [float(r.choice([1, 2, 64])) if r.random() < 0.5 else 0.01, r.choice([0.01, 1e-8, 1.0 + 2.0 ** -7, 0.5, 1.5, 2.5])]
            elif what == "frac_res":
                f = r.choice([1.0, 1 + 1e-10, 1 + 1e-5, 0.999, 1.007, 1.013, 0.7, 1.5, 3.3])
                args = {"area_extent": {"v": list(ext)}, "resolution": {"v": [d["resolution"][0] * f, d["resolution"][1] * r.choice([1.0, f])]}}
            elif what == "mixed":
                k = {"m": 1e-3, "km": 1e3, "deg": 1.0}.get(kind) or METRES[kind]
                u = {"m": "km", "km": "m", "deg": "deg"}.get(kind, "m")
                args = {"center": {"v": list(d["center"])}, "radius": {"v": [x * k for x in d["radius"]], "attr": u},
                        "resolution": {"v": [-x for x in d["resolution"]]}}
            elif what == "bad_units":
                args = description(d, r.choice(SETS))
                units = r.choice(["degree", "m", "km", "deg"])
            else:
                args = description(d, r.choice(SETS))
                bad = r.choice(["nan", "inf", "zero_res", "neg_shape", "zero_shape", "neg_radius", "flipped"])
                if bad == "nan" and "radius" in args:
                    args["radius"]["v"][r.randint(0, 1)] = float("nan")
                elif bad == "inf" and "shape" in args:
                    args["shape"]["v"][r.randint(0, 1)] = float("inf")
                elif bad == "zero_res" and "resolution" in args:
                    args["resolution"]["v"][r.randint(0, 1)] = 0.0
                elif bad == "neg_shape" and "shape" in args:
                    args["shape"]["v"][r.randint(0, 1)] *= -1
                elif bad == "zero_shape" and "shape" in args:
                    args["shape"]["v"][r.randint(0, 1)] = 0
                elif bad == "neg_radius" and "radius" in args:
                    args["radius"]["v"] = [-x for x in args["radius"]["v"]]
                elif bad == "flipped" and "area_extent" in args:
                    e = args["area_extent"]["v"]
                    args["area_extent"]["v"] = [e[2], e[3], e[0], e[1]]
            add(name, args, units, {"cls": "extra", "what": what})

    # ---- 5. dump / load
    yamls = []
    ynames = list(POOL) + list(YAML_EXTRA)
    words = ["area", "Europe 1km", "desc: colon", "#hash", "quote's \"x\"", "null", "yes", "1234", "1e5", "ünï cödé", "a  b", "-dash",
             "[x]", "{y}", "multi\nline", " lead", "trail ", "*star", "&amp", "%p", "@at", "`tick", "true", "~", "0x1F", "1_000", "on"]
    falsy = ["", "0", "None", " ", "False", "0.0", "[]"]
    nfiles = ctx.n(110, 800)
    for i in range(nfiles):
        n = 1 if i % 3 == 0 else r.randint(2, 6)
        areas, samples = [], []
        ids = r.sample(range(1000), n)
        for j in range(n):
            name = ynames[(i + j) % len(ynames)] if i < 2 * len(ynames) else r.choice(ynames)
            ext, shape = gen_grid(r, name, nice=r.random() < 0.3)
            if r.random() < 0.15:
                ext = [float(round(x)) for x in ext]
                if ext[0] >= ext[2] or ext[1] >= ext[3]:
                    ext = [ext[0], ext[1], ext[0] + 7.0, ext[1] + 5.0]
            ident = r.choice(["a%d" % ids[j], "area_%d" % ids[j], "%d" % ids[j], "x-%d.y" % ids[j], r.choice(words).strip() + "%d" % ids[j]])
            desc = r.choice(words) if r.random() < 0.7 else ident
            inject = None
            # empty / falsy-looking strings are values like any other: ids, descriptions, proj_id; every load mode sees each
            if j == 0 and i < 5 * len(falsy):
                desc = falsy[i // 5]
            elif r.random() < 0.15:
                desc = r.choice(falsy)
            if j == 0 and 5 * len(falsy) <= i < 10 * len(falsy):
                inject = falsy[i // 5 - len(falsy)]
            elif r.random() < 0.15:
                inject = r.choice(falsy + ["pid", "proj 7", "ünï"])
            if (j == n - 1 and 10 * len(falsy) <= i < 15 * len(falsy)) or r.random() < 0.05:
                cand = falsy[(i // 5) % len(falsy)] if i < 15 * len(falsy) else r.choice(falsy)
                if cand not in [a["id"] for a in areas]:
                    ident = cand
            areas.append({"id": ident, "description": desc, "crs": (POOL.get(name) or YAML_EXTRA[name])[0], "inject_proj_id": inject,
                          "extent": ext, "shape": list(shape), "np_extent": r.random() < 0.3, "name": name})
            h, w = shape
            smp = {(0, 0), (0, w - 1), (h - 1, 0), (h - 1, w - 1)}
            for _ in range(4):
                smp.add((r.randrange(h), r.randrange(w)))
            samples.append(sorted(smp))
        mode = ["one_string", "list_of_strings", "file", "stream", "legacy_alias"][i % 5]
        regions = []
        if n > 1 and r.random() < 0.4:
            regions = r.sample([a["id"] for a in areas], r.randint(1, n))
        if r.random() < 0.05:
            regions = regions + ["no_such_area"]
        yamls.append({"areas": areas, "mode": mode, "regions": regions, "samples": samples})

    # ---- 6. histories on ONE file path in one process: dump (appends), load (whole file / by id / a missing id), dump another
    # area to the same path, load again, overwrite the file with other content, load again, remove the file, load again
    hists = []
    for i in range(ctx.n(12, 80)):
        n = r.randint(3, 5)
        ids = r.sample(range(1000), n)
        areas = []
        for j in range(n):
            name = ynames[(3 * i + j) % len(ynames)]
            ext, shape = gen_grid(r, name, nice=r.random() < 0.3)
            areas.append({"id": r.choice(["h%d", "hist_%d", "%d"]) % ids[j], "description": r.choice(words + falsy), "crs": (POOL.get(name) or YAML_EXTRA[name])[0],
                          "extent": ext, "shape": list(shape), "np_extent": False, "name": name})
        aid = [a["id"] for a in areas]
        via = lambda: r.choice(["load_area", "load_area", "parse_area_file"])
        steps = [{"op": "dump", "k": 0, "pathlib": r.random() < 0.3}, {"op": "load", "regions": [], "via": via()}]
        if r.random() < 0.7:
            steps.append({"op": "load", "regions": [aid[0]], "via": via()})
        if r.random() < 0.5:
            steps.append({"op": "load", "regions": [aid[1]], "via": via()})          # not there yet
        steps += [{"op": "dump", "k": 1, "pathlib": r.random() < 0.3}, {"op": "load", "regions": [], "via": via()},
                  {"op": "load", "regions": [aid[1]], "via": via()}]
        if r.random() < 0.6:
            steps += [{"op": "dump", "k": 2}, {"op": "load", "regions": r.sample(aid[:3], r.randint(1, 3)), "via": via()}]
        ks = r.sample(range(n), r.randint(1, n)) if r.random() < 0.7 else [n - 1]
        steps += [{"op": "overwrite", "ks": ks}, {"op": "load", "regions": [], "via": via()},
                  {"op": "load", "regions": [aid[0]], "via": via()}]
        if r.random() < 0.5:
            steps += [{"op": "remove"}, {"op": "load", "regions": [], "via": via()}]
            if r.random() < 0.5:
                steps += [{"op": "dump", "k": n - 1}, {"op": "load", "regions": [], "via": via()}]
        hists.append({"areas": areas, "steps": steps, "path_kind": ["str", "pathlib", "list"][i % 3],
                      "filename": r.choice(["areas.yaml", "my areas.yml", "a.def"])})

    obs = ctx.impl("c13", {"create": [c for c, _ in creates], "yaml": yamls, "history": hists}, timeout=3000)

    # =============================================================================== property oracle: create
    ref = {}
    for (case, meta), o in zip(creates, obs["create"]):
        if meta["cls"] == "sets" and meta["set"] == "es":
            ref[meta["gid"]] = o
    coq_lines = []
    for (case, meta), o in zip(creates, obs["create"]):
        cls = meta["cls"]
        name = meta["crs"]
        replay = {"oracle": "create", "case": case, "meta": {k: v for k, v in meta.items() if k != "d"}, "impl": {k: v for k, v in o.items() if k not in ("fwd", "inv")}}
        canon = json.dumps(case, sort_keys=True)
        if cls == "sets":
            s = meta["set"]
            ctx.count("sets_%s_%s" % (s, meta["unit"]))
            if s == "es":
                ctx.count("grid_on_" + name)
                if POOL[name][1] == "deg" and (meta["ext"][0] < -180 or meta["ext"][2] > 180):
                    ctx.count("grid_beyond_antimeridian")
                if name.startswith("stere") and math.hypot(*meta["d"]["center"]) == 0.0:
                    ctx.count("grid_pole_centred")
            if pole_snapped(name, meta["d"], case["args"]):
                ctx.count("description_with_centre_within_1e-4deg_of_pole")
            nontrivial = not (s == "es" and meta["unit"].startswith("proj"))
            ctx.case(canon, nontrivial=nontrivial, sample={"description": s, "crs": name, "units": meta["unit"], "args": case["args"], "impl": o.get("extent"), "shape": o.get("shape")})
            want_ext, want_shape = meta["ext"], list(meta["shape"])
            snapped = pole_snapped(name, meta["d"], case["args"])
            axis = POOL[name][1] != "deg" and meta["k"] != 1.0 and name.startswith("epsg3035")
            anti = POOL[name][1] == "deg" and (want_ext[0] < -180 or want_ext[2] > 180)
            sub = "pole_snap" if snapped else "axis_order" if axis else "geographic_antimeridian" if anti else "%s.%s" % (s, meta["unit"])
            key = "C13.param_sets." + sub
            ok, why = True, ""
            if o["kind"] != "area":
                ok, why = False, "gives %s (%s)" % (o["kind"], o.get("exc") or "no AreaDefinition")
            elif o["shape"] != want_shape:
                ok, why = False, "gives shape %s, grid has %s" % (o["shape"], want_shape)
            elif not close_ext(o["extent"], want_ext):
                ok, why = False, "gives extent %s, grid has %s" % (o["extent"], want_ext)
            else:
                e0 = ref.get(meta["gid"])
                if e0 is None or e0["kind"] != "area" or e0["shape"] != o["shape"] or not close_ext(o["extent"], e0["extent"]):
                    ok, why = False, "differs from the extent+shape description: %s vs %s" % (o.get("extent"), e0 and e0.get("extent"))
            if not ok:
                ctx.add_failure(key, "create_area_def(%s, %s, units=%s) [%s of grid extent=%s shape=%s] %s" % (
                    json.dumps(case["crs"]), json.dumps(case["args"]), case.get("units"), s, want_ext, want_shape, why), replay)
        elif cls == "contra":
            c = meta["contradiction"]
            ctx.count("contradiction_" + c)
            ctx.case(canon, sample={"contradiction": c, "base": meta["base"], "extra": meta["pert"], "impl": o["kind"], "exc": o.get("exc")})
            if c == "clear" and not (o["kind"] == "raise" and o.get("exc") == "ValueError"):
                big = meta["pert"]["extra"] == "shape" and max(meta["shape"]) >= 50000
                ctx.add_failure("C13.contradictions.%s_vs_%s%s" % (meta["base"], meta["pert"]["extra"], ".huge_shape" if big else ""),
                                "create_area_def(%s, %s): %s contradicts the rest (grid extent=%s shape=%s) but the result is %s %s" % (
                                    json.dumps(case["crs"]), json.dumps(case["args"]), meta["pert"]["extra"], meta["ext"], meta["shape"], o["kind"], o.get("exc") or ""), replay)
            if c == "none":
                if o["kind"] != "area" or o["shape"] != list(meta["shape"]) or not close_ext(o["extent"], meta["ext"], 1e-8):
                    if not (meta["base"] == "e" and o["kind"] == "dynamic"):
                        ctx.add_failure("C13.contradictions.consistent_rejected.%s_vs_%s" % (meta["base"], meta["pert"]["extra"]),
                                        "create_area_def(%s, %s): consistent redundant description of grid extent=%s shape=%s gives %s %s %s" % (
                                            json.dumps(case["crs"]), json.dumps(case["args"]), meta["ext"], meta["shape"], o["kind"], o.get("exc") or o.get("extent"), o.get("shape")), replay)
        elif cls == "missing":
            have = meta["have"]
            known = closure(have)
            full = "area_extent" in known and "shape" in known
            ctx.count("missing_sufficient" if full else "missing_insufficient")
            ctx.case(canon, nontrivial=len(have) not in (0, 6), sample={"have": have, "impl": o["kind"]})
            key = "C13.missing." + ("sufficient_not_area" if full else "insufficient_not_dynamic")
            ok = True
            if full:
                ok = o["kind"] == "area" and o["shape"] == list(meta["shape"]) and close_ext(o["extent"], meta["ext"])
            else:
                ok = o["kind"] == "dynamic"
                if ok and "area_extent" in known:
                    ok = o["extent"] is not None and close_ext(o["extent"], meta["ext"])
                if ok and "shape" in known:
                    ok = [o["height"], o["width"]] == list(meta["shape"])
                if ok and "area_extent" not in known:
                    ok = o["extent"] is None
                if ok and "shape" not in known:
                    ok = o["height"] is None and o["width"] is None
            if not ok:
                ctx.add_failure(key, "create_area_def(%s, %s) with parameters %s of grid extent=%s shape=%s gives %s" % (
                    json.dumps(case["crs"]), json.dumps(case["args"]), have, meta["ext"], meta["shape"], {k: v for k, v in o.items() if k not in ("fwd", "inv", "facts")}), replay)
        elif cls == "one_of_wh":
            ctx.count("one_of_width_height")
            ctx.case(canon)
            if not (o["kind"] == "raise" and o.get("exc") == "ValueError"):
                ctx.add_failure("C13.contradictions.one_of_width_height", "only one of width/height (%s) does not raise ValueError: %s" % (json.dumps(case["args"]), o["kind"]), replay)
        else:
            ctx.count("extra_" + meta["what"])
            ctx.case(canon, sample={"extra": meta["what"], "args": case["args"], "units": case.get("units"), "impl": o["kind"]})
        if modelled(case, o):
            coq_lines.append((coq_case(case, o), case, meta, o))

    # =============================================================================== property oracle: dump / load
    dump_lines, load_lines = [], []
    for yi, (yc, yo) in enumerate(zip(yamls, obs["yaml"])):
        n = len(yc["areas"])
        ctx.count("yaml_%s_%s" % (yc["mode"], "one" if n == 1 else "many"))
        replay = {"oracle": "yaml", "case": yc, "impl": {k: v for k, v in yo.items() if k in ("error", "loaded", "dumps")}}
        canon = json.dumps(yc, sort_keys=True)
        ctx.case(canon, sample={"yaml_mode": yc["mode"], "areas": [a["id"] for a in yc["areas"]], "regions": yc["regions"],
                                "dump": (yo.get("dumps") or [""])[0][:300]})
        ids = [a["id"] for a in yc["areas"]]
        regions = yc["regions"]
        missing_region = any(x not in ids for x in regions)
        for a in yc["areas"]:
            if a["description"] in falsy:
                ctx.count("yaml_falsy_description")
            if a["id"] in falsy:
                ctx.count("yaml_falsy_id")
            if a.get("inject_proj_id") is not None:
                ctx.count("yaml_proj_id_entry" + ("_falsy" if a["inject_proj_id"] in falsy else ""))
        if regions:
            ctx.count("yaml_region_selection" + ("_missing" if missing_region else ""))
        if missing_region:
            if not ("error" in yo and yo["error"]["exc"] == "AreaNotFound"):
                ctx.add_failure("C13.yaml.missing_region", "loading regions %s from a file with areas %s does not raise AreaNotFound: %s" % (regions, ids, yo.get("error")), replay)
        elif "error" in yo:
            ctx.add_failure("C13.yaml.load_error.%s" % yc["mode"], "dump -> load (%s) of areas %s raises %s" % (yc["mode"], ids, yo["error"]), replay)
        else:
            want = regions or ids
            got = yo["loaded"]
            if len(got) != len(want):
                ctx.add_failure("C13.yaml.count.%s" % yc["mode"], "dump -> load (%s) of %d areas (regions %s) returns %d areas" % (yc["mode"], n, regions, len(got)), replay)
            else:
                for wid, b in zip(want, got):
                    k = ids.index(wid)
                    a, orig, f = yc["areas"][k], yo["orig"][k], yo["facts"][k]
                    tag = "one" if n == 1 else "many"
                    epsg_short = f["to_epsg"] is not None and not (isinstance(a["crs"], (str, int)) and str(a["crs"]).upper().replace("EPSG:", "") == str(f["to_epsg"]))
                    rewrite = f["to_epsg"] is None and f["dict_units"] not in (None, "m")
                    why, sub = None, None
                    if b["kind"] != "area":
                        why = "loads as %s" % b["kind"]
                    elif b["id"] != a["id"]:
                        why = "area_id %r != %r" % (b["id"], a["id"])
                    elif b["description"] != a["description"]:
                        why = "description %r != %r" % (b["description"], a["description"])
                        sub = "description"
                    elif (b.get("proj_id") != a["inject_proj_id"]) if a.get("inject_proj_id") is not None else (b.get("proj_id") not in (None, "")):
                        why = "proj_id %r != %r (proj_id entry of the file)" % (b.get("proj_id"), a.get("inject_proj_id"))
                        sub = "proj_id"
                    elif b["shape"] != a["shape"]:
                        why = "shape %s != %s" % (b["shape"], a["shape"])
                    elif not rewrite and b["extent"] != orig["extent"]:
                        why = "extent %s != %s (no unit rewrite)" % (b["extent"], orig["extent"])
                    elif "ll_a" not in b:
                        why = "no lon/lat comparison possible"
                    else:
                        for (r_, c_), pa, pb in zip(yc["samples"][k], b["ll_a"], b["ll_b"]):
                            dlon = abs((pa[0] - pb[0] + 180.0) % 360.0 - 180.0)
                            dlat = abs(pa[1] - pb[1])
                            fin = all(math.isfinite(x) for x in pa + pb)
                            if (fin and (dlon > 1e-9 and abs(pa[1]) < 89.9999 or dlat > 1e-9)) or (not fin and [math.isfinite(x) for x in pa] != [math.isfinite(x) for x in pb]):
                                why = "pixel (%d,%d) lon/lat %s != %s" % (r_, c_, pb, pa)
                                break
                        if why is None and not epsg_short and not rewrite and not b.get("eq"):
                            why = "loaded area != original although the CRS was dumped as written (crs equal: %s)" % b.get("crs_eq")
                    c2 = b.get("cycle2")
                    if why is None and c2 is not None:
                        ctx.count("yaml_second_cycle")
                        if c2 != {k_: b.get(k_) for k_ in ("kind", "id", "description", "shape", "extent")}:
                            why, sub = "a second dump -> load cycle changes the area: %s -> %s" % (
                                {k_: b.get(k_) for k_ in ("id", "description", "shape", "extent")}, c2), "second_cycle"
                    if why:
                        cls = "epsg_shorthand" if epsg_short else "unit_rewrite" if rewrite else "as_written"
                        if sub:
                            falsy_in = sub != "second_cycle" and (a["description"] if sub == "description" else a["inject_proj_id"]) in ("", "0", "None", " ", "False", "0.0", "[]")
                            cls = sub + (".falsy_string" if falsy_in else "")
                        ctx.add_failure("C13.yaml.roundtrip.%s.%s" % (cls, tag), "dump -> load (%s) of area %r on %s: %s" % (yc["mode"], a["id"], json.dumps(a["crs"]), why), replay)
        # ---- dict-level correspondence text (strings are tokens: one number per distinct observed string)
        if "parsed" in yo and "parsed_loaded" in yo:
            entries = []
            for k, (a, f, orig, parsed, ploaded) in enumerate(zip(yc["areas"], yo["facts"], yo["orig"], yo["parsed"], yo["parsed_loaded"])):
                t = yaml_texts(yi, k, a, f, orig, parsed, ploaded)
                if t is None:
                    entries = None
                    break
                dump_lines.append((t[0], yc))
                entries.append(t)
            if entries is not None and not missing_region and "error" not in yo and len({a["id"] for a in yc["areas"]}) == n:
                file_txt = "[" + "; ".join(e[1] for e in entries) + "]"
                facts_txt = "[" + "; ".join(e[2] for e in entries) + "]"
                regs = "[" + "; ".join(str(tok(x)) for x in regions) + "]"
                want = regions or ids
                lo = []
                for wid, b in zip(want, yo["loaded"]):
                    k = ids.index(wid)
                    lo.append("(mk_loaded %d %d %s %s %s)" % (tok(b.get("id")), tok(b.get("description")),
                                                            "None" if b.get("proj_id") is None else "(Some %d)" % tok(b["proj_id"]),
                                                            entries[k][3], coq_outcome(b)))
                load_lines.append(("(%s, %s, %s, Ok [%s])" % (file_txt, regs, facts_txt, "; ".join(lo)), yc))

    # =============================================================================== property oracle: file-path histories
    for hi, (hc, ho) in enumerate(zip(hists, obs.get("history", []))):
        yi = 100000 + hi
        content = None          # the areas (indices) the file holds now, None = no file
        last = "none"
        ids = [a["id"] for a in hc["areas"]]
        entries = []
        for k, (a, f, orig, parsed) in enumerate(zip(hc["areas"], ho["facts"], ho["orig"], ho["parsed"])):
            entries.append(yaml_texts(yi, k, a, f, orig, parsed, parsed))
        for si, (st, so) in enumerate(zip(hc["steps"], ho["steps"])):
            if st["op"] == "dump":
                content = (content or []) + [st["k"]]
                last = "append"
                continue
            if st["op"] == "overwrite":
                content, last = list(st["ks"]), "overwrite"
                continue
            if st["op"] == "remove":
                content, last = None, "remove"
                continue
            regions = st["regions"]
            ctx.count("history_load_after_%s" % last)
            replay = {"oracle": "history", "case": hc, "step": si, "impl": so}
            ctx.case(("hist", json.dumps(hc, sort_keys=True), si), sample={"history": [x["op"] + (":" + ",".join(x.get("regions", [])) if x["op"] == "load" else "") for x in hc["steps"][:si + 1]],
                                                                           "impl": [b.get("id") for b in so["path"].get("loaded", [])] or so["path"].get("error")})
            key = "C13.yaml.history.load_after_%s.%s" % (last, "by_id" if regions else "whole_file")
            got = so["path"]
            why = None
            if content is None:
                if "error" not in got:
                    why = "the file does not exist but the load returns %s" % [b.get("id") for b in got["loaded"]]
            else:
                have = [ids[k] for k in content]
                want = regions or have
                if any(x not in have for x in regions):
                    if not ("error" in got and got["error"]["exc"] == "AreaNotFound"):
                        why = "region %s is not in the file (areas %s) but the load gives %s" % (regions, have, got.get("error") or [b.get("id") for b in got["loaded"]])
                elif "error" in got:
                    why = "the file holds areas %s but loading %s raises %s" % (have, regions or "all", got["error"])
                elif [b.get("id") for b in got["loaded"]] != want:
                    why = "the file holds areas %s; loading %s returns %s" % (have, regions or "all", [b.get("id") for b in got["loaded"]])
                elif so["fresh"] is None or got != so["fresh"]:
                    why = "the load through the path differs from loading the file's current text: %s vs %s" % (
                        [(b.get("id"), b.get("shape"), b.get("extent")) for b in got["loaded"]], so["fresh"] and [(b.get("id"), b.get("shape"), b.get("extent")) for b in so["fresh"].get("loaded", [])])
                else:
                    for wid, b in zip(want, got["loaded"]):
                        a, orig, f = hc["areas"][ids.index(wid)], ho["orig"][ids.index(wid)], ho["facts"][ids.index(wid)]
                        rewrite = f["to_epsg"] is None and f["dict_units"] not in (None, "m")
                        if b.get("kind") != "area" or b["description"] != a["description"] or b["shape"] != a["shape"] or (not rewrite and b["extent"] != orig["extent"]):
                            why = "area %r comes back as %s" % (wid, {k_: b.get(k_) for k_ in ("kind", "description", "shape", "extent")})
                            break
            if why:
                ctx.add_failure(key, "history %s on one path (%s): %s" % ([x["op"] + (":" + ",".join(x.get("regions", [])) if x["op"] == "load" else "") for x in hc["steps"][:si + 1]], hc["path_kind"], why), replay)
            # dict-level correspondence: the model's load_file on the CURRENT content
            if content is not None and all(entries[k] is not None for k in content) and len(set(content)) == len(content):
                file_txt = "[" + "; ".join(entries[k][1] for k in content) + "]"
                facts_txt = "[" + "; ".join(entries[k][2] for k in content) + "]"
                regs = "[" + "; ".join(str(tok(x)) for x in regions) + "]"
                if "error" in got:
                    obs_txt = "Err"
                else:
                    lo = []
                    for b in got["loaded"]:
                        k = ids.index(b["id"]) if b.get("id") in ids else 0
                        lo.append("(mk_loaded %d %d %s %s %s)" % (tok(b.get("id")), tok(b.get("description")),
                                                                "None" if b.get("proj_id") is None else "(Some %d)" % tok(b["proj_id"]),
                                                                entries[k][3], coq_outcome(b)))
                    obs_txt = "Ok [%s]" % "; ".join(lo)
                load_lines.append(("(%s, %s, %s, %s)" % (file_txt, regs, facts_txt, obs_txt), {"areas": hc["areas"], "regions": regions, "history_step": si}))

    # =============================================================================== correspondence
    texts = []
    for i in range(0, len(coq_lines), 400):
        part = coq_lines[i:i + 400]
        texts.append(("c13_create_%03d" % (i // 400), HDR + "Definition cases : list ccase := [\n%s].\nEval vm_compute in (bad chk_create cases).\n" % ";\n".join(p[0] for p in part), part, "create_area_def"))
    for i in range(0, len(dump_lines), 400):
        part = dump_lines[i:i + 400]
        texts.append(("c13_dump_%03d" % (i // 400), HDR + "Definition cases : list (area_rec (T:=float) * yentry (T:=float)) := [\n%s].\nEval vm_compute in (bad chk_dump cases).\n" % ";\n".join(p[0] for p in part), part, "dump_dict"))
    for i in range(0, len(load_lines), 200):
        part = load_lines[i:i + 200]
        texts.append(("c13_load_%03d" % (i // 200), HDR + "Definition cases : list lcase := [\n%s].\nEval vm_compute in (bad chk_load cases).\n" % ";\n".join(p[0] for p in part), part, "load_dict"))
    ctx.traces = len(coq_lines) + len(dump_lines) + len(load_lines)
    ctx.count("correspondence_create", len(coq_lines))
    ctx.count("correspondence_dump", len(dump_lines))
    ctx.count("correspondence_load", len(load_lines))
    res = ctx.coq_eval_many([(n_, t) for n_, t, _, _ in texts], timeout=900)
    for name_, _, part, what in texts:
        out, ok = res[name_]
        if not ok:
            ctx.broken.append(("correspondence:" + what, "model evaluation failed (%s): %s" % (name_, out[-400:])))
            continue
        bad = ints(out)
        if bad:
            ex = part[bad[0]]
            detail = json.dumps({"case": ex[1], "impl": {k: v for k, v in ex[3].items() if k != "facts"}} if what == "create_area_def" else {"case": ex[1]["areas"], "regions": ex[1]["regions"]})[:900]
            ctx.broken.append(("correspondence:" + what, "model and implementation differ on %d of %d cases (%s), e.g. %s" % (len(bad), len(part), name_, detail)))
            if what == "create_area_def":
                for b in bad[:3]:
                    ex = part[b]
                    ctx.add_failure("C13.correspondence.create." + ex[2]["cls"], "model and create_area_def disagree on %s units=%s crs=%s: impl %s" % (
                        json.dumps(ex[1]["args"]), ex[1].get("units"), json.dumps(ex[1]["crs"]), {k: v for k, v in ex[3].items() if k in ("kind", "extent", "shape", "exc", "height", "width", "resolution")}),
                        {"oracle": "correspondence", "case": ex[1]}, concrete=False)


# ----------------------------------------------------------------------------------------------- YAML dict text
TOKENS = {}


def tok(v):
    """A number standing for the string v (the model treats strings as opaque values; '' is one of them).
    Non-strings (a YAML scalar that did not come back as a string) get their own tokens."""
    return TOKENS.setdefault(repr(v), len(TOKENS) + 1)


def yaml_texts(yi, k, a, f, orig, parsed, ploaded):
    """Coq text of (dump case, parsed entry of the text that is loaded, loaded-CRS facts, projection entry) for area k
    of file yi; None when outside the model's vocabulary (units other than m / km)."""
    units = f["dict_units"]
    if units is not None and units not in ("m", "km"):
        return None
    ctok = 1000 * yi + k          # CRS token
    pent = "(PEpsg %d)" % f["to_epsg"] if f["to_epsg"] is not None else "(PDict %d)" % ctok
    rec = "(@mk_area_rec float %d %d %d %s %s (%d, %d) %s)" % (
        tok(a["id"]), tok(a["description"]), ctok, opt(f["to_epsg"], lambda n_: "%d" % n_), opt(units, lambda u: UT[u]),
        a["shape"][0], a["shape"][1], f4(orig["extent"]))

    def entry(p):
        if not isinstance(p, dict) or len(p) != 1:
            return "(0, [])"
        (pid, body), = p.items()
        return "(%d, %s)" % (tok(pid), ydict(body, ctok, f))
    lf = f.get("loaded_fac") or {}
    facts = "(%s, (%s, %s, %s, %s))" % (pent, "true" if f["loaded_geographic"] else "false", UNAME.get(f.get("loaded_unit_name"), "UNother"),
                                       fpair(lf.get("km")), fpair(lf.get("m")))
    return ("(%s, %s)" % (rec, entry(parsed)), entry(ploaded), facts, pent)


KEYS = {"description": "Kdescription", "projection": "Kprojection", "shape": "Kshape", "height": "Kheight", "width": "Kwidth",
        "area_extent": "Karea_extent", "lower_left_xy": "Klower_left_xy", "upper_right_xy": "Kupper_right_xy", "units": "Kunits",
        "proj_id": "Kproj_id", "area_id": "Karea_id"}


def yv(v, ctok, f, key=None):
    if key == "projection":
        if isinstance(v, dict) and list(v.keys()) == ["EPSG"]:
            return "(YProj (PEpsg %d))" % v["EPSG"]
        ent = f["entry"]
        same = isinstance(v, dict) and json.dumps(v, sort_keys=True) == json.dumps(ent, sort_keys=True) and "units" not in v
        return "(YProj (PDict %d))" % (ctok if same else -1)
    if key == "units":
        return "(YUnits %s)" % UT[v] if v in UT else "YNull"
    if key in ("description", "proj_id", "area_id"):
        return "(YStr %d)" % tok(v) if isinstance(v, str) else "YNull"
    if isinstance(v, bool) or v is None:
        return "YNull"
    if isinstance(v, int):
        return "(YInt %d)" % v
    if isinstance(v, float):
        return "(YNum %s)" % fhex(v)
    if isinstance(v, list):
        return "(YList [%s])" % "; ".join(yv(x, ctok, f) for x in v)
    if isinstance(v, dict):
        return "(YDict %s)" % ydict(v, ctok, f)
    return "YNull"


def ydict(d, ctok, f):
    return "[" + "; ".join("(%s, %s)" % (KEYS.get(k, "Kother"), yv(v, ctok, f, key=k)) for k, v in d.items()) + "]"


def replay(ctx, data):
    """Re-run one recorded failing case on the implementation; True iff the observation that violated the property is unchanged."""
    case = data.get("case", {})
    old = case.get("impl", {})
    if case.get("oracle") == "history":
        o = ctx.impl("c13", {"history": [case["case"]]})["history"][0]["steps"][case["step"]]
        return o.get("path") == old.get("path")
    if case.get("oracle") == "yaml":
        o = ctx.impl("c13", {"yaml": [case["case"]]})["yaml"][0]
        return o.get("error") == old.get("error") and o.get("loaded") == old.get("loaded")
    o = ctx.impl("c13", {"create": [case["case"]]})["create"][0]
    return all(o.get(k) == old.get(k) for k in ("kind", "extent", "shape", "exc"))
