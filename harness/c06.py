"""C06 — bilinear resampling interpolates: convex weights, exact on affine fields; numpy == xarray for every chunking."""
import json
import math
from concurrent.futures import ThreadPoolExecutor
from fractions import Fraction as Fr

from .common import fhex, ints

IMPL = "c06"
PROP_FILE = "Properties/C06.v"
GEN = ["GenC06"]
RUN_FILES = ["Model/C06_run.v", "Model/C06_rungen.v", "Model/C06_run2.v"]

NAN = float("nan")
INF = float("inf")
HDR = ("From Coq Require Import ZArith List Bool PrimFloat.\n"
       "From PR Require Import Base.Num Base.F64 Base.ListX Model.Bilinear Model.C06_run.\n"
       "Import ListNotations.\nOpen Scope Z_scope.\nNotation nan := PrimFloat.nan (only parsing).\n")
HDR_GEN = HDR.replace("Model.C06_run.", "Model.C06_run Model.C06_rungen.")

# the two binary64 witnesses of Proofs/C06_f64.v (replayed on the implementation on every run)
WIT_NEAR_PARALLEL = ['0x1.d4c15ffffffefp+13', '0x1.4c080466666abp+16', '0x1.86a0d00000005p+14', '0x1.4c080466666b2p+16',
                     '0x1.d4c15ffffffe9p+13', '0x1.24f8020000033p+16', '0x1.86a0cfffffffdp+14', '0x1.24f802000003ap+16',
                     '0x1.7701c6a7ef9e0p+14', '0x1.3880051eb851fp+16']
WIT_PARALLELOGRAM = [0.0, 2.0, 4.0, 2.0, 1.0, 0.0, 5.0, 0.0, 2.0, 1.0]


def isnan(x):
    return x != x


class spv(object):
    """a full list, or the sparse {flat position: value} the driver sends for very large sources"""
    def __init__(self, v):
        self.v = v

    def __getitem__(self, f):
        return self.v[str(f)] if isinstance(self.v, dict) else self.v[f]


def smp(ctx, tag, d, limit=1):
    """at most `limit` evidence samples per oracle, so that the 16 sample slots show every kind of case"""
    seen = ctx.__dict__.setdefault("_c06_samples", {})
    seen[tag] = seen.get(tag, 0) + 1
    return d if seen[tag] <= limit else None


def flist(l):
    return "[" + "; ".join(fhex(x) for x in l) + "]"


def same(a, b):
    """bit-level equality of two Python floats (NaN == NaN, -0.0 != 0.0)"""
    if isnan(a) or isnan(b):
        return isnan(a) and isnan(b)
    return a == b and math.copysign(1.0, a) == math.copysign(1.0, b)


# ------------------------------------------------------------------------------------------------ geometry helpers
def surrounded(P, x, y):
    return (P[0][0] < x and P[0][1] > y and P[1][0] > x and P[1][1] > y and
            P[2][0] < x and P[2][1] < y and P[3][0] > x and P[3][1] < y)


def abc_exact(P, x, y):
    """exact rational coefficients of the t-quadratic (_calc_abc) for corners P and target (x, y)"""
    (x1, y1), (x2, y2), (x3, y3), (x4, y4) = [(Fr(a), Fr(b)) for a, b in P]
    x, y = Fr(x), Fr(y)
    x21, x31, x42 = x2 - x1, x3 - x1, x4 - x2
    y21, y31, y42 = y2 - y1, y3 - y1, y4 - y2
    a = x31 * y42 - y31 * x42
    b = y * (x42 - x31) - x * (y42 - y31) + x31 * y2 - y31 * x2 + y42 * x1 - x42 * y1
    c = y * x21 - x * y21 + x1 * y2 - x2 * y1
    return a, b, c


def quad_class(P, x, y):
    """Structural class of a (surrounding) quadrilateral, used to attribute affine-exactness failures:
    'near_parallel_sides': for the t- or the s-quadratic 4|ac| <= 1e-6 b^2, i.e. a pair of opposite sides is parallel
        up to rounding noise, the textbook formula (-b +- sqrt(D)) / 2a cancels at least 6 digits, and the second
        fraction is a quotient of two rounding residues;
    'target_on_source_gridline': some corner is within 1e-6 of the cell size of the target in x or in y
        (target on a source grid line: the strict quadrant test then picks a degenerate quadrilateral);
    None otherwise."""
    try:
        for Q in (P, (P[0], P[2], P[1], P[3])):
            a, b, c = abc_exact(Q, x, y)
            if 4 * abs(a * c) * 10 ** 6 <= b * b:
                return "near_parallel_sides"
        diam = max(abs(p[0] - q[0]) + abs(p[1] - q[1]) for p in P for q in P)
        if any(abs(p[0] - x) <= 1e-6 * diam or abs(p[1] - y) <= 1e-6 * diam for p in P):
            return "target_on_source_gridline"
    except (ValueError, OverflowError, ZeroDivisionError):
        pass
    return None


# ---- running error analysis of the code's own operation sequence (used ONLY to attribute an affine-exactness
# failure: "explained by rounding of the documented formulas" = known conditioning finding, or not = new violation).
# A number is (v, e): v the binary64 value the code computes (same operations, same order), e >= |v - exact value on the
# same inputs| by the standard model fl(x op y) = (x op y)(1 + d), |d| <= U.  A comparison whose margin is within e, a
# zero/NaN divisor or a negative radicand within e makes the bound infinite (the branch itself is decided by rounding).
U = 2.0 ** -53


class Unc(Exception):
    pass


def _n(v, e=0.0):
    return (float(v), float(e))


def e_add(a, b, sign=1.0):
    v = a[0] + sign * b[0]
    return (v, a[1] + b[1] + U * abs(v))


def e_sub(a, b):
    return e_add(a, b, -1.0)


def e_mul(a, b):
    v = a[0] * b[0]
    return (v, abs(a[0]) * b[1] + abs(b[0]) * a[1] + a[1] * b[1] + U * abs(v))


def e_div(a, b):
    if not abs(b[0]) > b[1]:
        raise Unc("divisor is zero within its rounding error")
    v = a[0] / b[0]
    return (v, (a[1] + abs(v) * b[1]) / (abs(b[0]) - b[1]) + U * abs(v))


def e_sqrt(a):
    if not a[0] - a[1] > 0:
        raise Unc("radicand is not positive within its rounding error")
    v = math.sqrt(a[0])
    return (v, a[1] / math.sqrt(a[0] - a[1]) + U * v)


def e_inside(a, lo=0.0, hi=1.0):
    """the code's test lo <= v <= hi; undecidable within the error -> Unc"""
    v, e = a
    if isnan(v) or math.isinf(e):
        raise Unc("NaN")
    if min(abs(v - lo), abs(v - hi)) <= e:
        raise Unc("range test decided by rounding")
    return lo <= v <= hi


def e_calc_abc(P, oy, ox):
    (x1, y1), (x2, y2), (x3, y3), (x4, y4) = [(_n(a), _n(b)) for a, b in P]
    x21, x31, x42 = e_sub(x2, x1), e_sub(x3, x1), e_sub(x4, x2)
    y21, y31, y42 = e_sub(y2, y1), e_sub(y3, y1), e_sub(y4, y2)
    a = e_sub(e_mul(x31, y42), e_mul(y31, x42))
    b = e_sub(e_add(e_sub(e_add(e_sub(e_mul(oy, e_sub(x42, x31)), e_mul(ox, e_sub(y42, y31))), e_mul(x31, y2)), e_mul(y31, x2)),
                    e_mul(y42, x1)), e_mul(x42, y1))
    c = e_sub(e_add(e_sub(e_mul(oy, x21), e_mul(ox, y21)), e_mul(x1, y2)), e_mul(x2, y1))
    return a, b, c


def e_solve_quadratic(a, b, c):
    nb = (-b[0], b[1])
    cands = []
    try:
        sq = e_sqrt(e_sub(e_mul(b, b), e_mul(e_mul(_n(4.0), a), c)))
        den = e_mul(_n(2.0), a)
        cands = [e_div(e_add(nb, sq), den), e_div(e_sub(nb, sq), den)]
    except Unc:
        # sqrt/division undecided: if |a| is zero within its error both quadratic candidates are inf/NaN for the code as well
        if abs(a[0]) > a[1]:
            raise
        if a[0] != 0.0:
            raise
    for x in cands:
        if e_inside(x):
            return x
    x3 = e_div((-c[0], c[1]), b)
    if e_inside(x3):
        return x3
    return None


def e_solve_other(f, y1, y2, y3, y4, oy):
    y1, y2, y3, y4 = _n(y1), _n(y2), _n(y3), _n(y4)
    y21, y43 = e_sub(y2, y1), e_sub(y4, y3)
    g = e_div(e_sub(e_sub(oy, y1), e_mul(y21, f)), e_sub(e_sub(e_add(y3, e_mul(y43, f)), y1), e_mul(y21, f)))
    return g if e_inside(g) else None


def rounding_bound(P, x, y):
    """(e_t, e_s): bounds on the rounding error of the (t, s) the documented algorithm returns for corners P and target
    (x, y); (inf, inf) when a branch decision lies within the rounding error."""
    ox, oy = _n(x), _n(y)
    try:
        t = e_solve_quadratic(*e_calc_abc(P, oy, ox))
        if t is not None:
            s = e_solve_other(t, P[0][1], P[2][1], P[1][1], P[3][1], oy)
            if s is not None:
                return t[1], s[1]
        s = e_solve_quadratic(*e_calc_abc((P[0], P[2], P[1], P[3]), oy, ox))
        if s is not None:
            t = e_solve_other(s, P[0][1], P[1][1], P[2][1], P[3][1], oy)
            if t is not None:
                return t[1], s[1]
    except (Unc, ZeroDivisionError, OverflowError, ValueError):
        pass
    return INF, INF


def attribute(P, x, y, vals, s, t, err_abs):
    """Key suffix for an affine-exactness failure of size err_abs (in the units of vals, the data at the corners P):
    the known conditioning classes iff the error is within the running-error bound of the documented formulas."""
    et, es = rounding_bound(P, x, y)
    if math.isinf(et) or math.isinf(es):
        bound = INF
    else:
        ds = abs((vals[1] - vals[0]) * (1 - t) + (vals[3] - vals[2]) * t)
        dt = abs((vals[2] - vals[0]) * (1 - s) + (vals[3] - vals[1]) * s)
        bound = 2 * (ds * es + dt * et + abs(vals[0] - vals[1] - vals[2] + vals[3]) * es * et)
    if not err_abs <= bound:
        return None, bound
    diam = max(abs(p[0] - q[0]) + abs(p[1] - q[1]) for p in P for q in P)
    if any(abs(p[0] - x) <= 1e-6 * diam or abs(p[1] - y) <= 1e-6 * diam for p in P):
        return "target_on_source_gridline", bound
    return "near_parallel_sides", bound


def bilerp(v, s, t):
    return v[0] * (1 - s) * (1 - t) + v[1] * s * (1 - t) + v[2] * (1 - s) * t + v[3] * s * t


# ------------------------------------------------------------------------------------------------ case generators
def gen_quads(ctx, n):
    """corner quadrilaterals + target for the kernels: x1 y1 x2 y2 x3 y3 x4 y4 ox oy"""
    r = ctx.rng
    out = []

    def add(kind, P, x, y):
        out.append((kind, [P[0][0], P[0][1], P[1][0], P[1][1], P[2][0], P[2][1], P[3][0], P[3][1], x, y]))

    add("witness_near_parallel", [tuple(float.fromhex(h) for h in WIT_NEAR_PARALLEL[2 * i:2 * i + 2]) for i in range(4)],
        float.fromhex(WIT_NEAR_PARALLEL[8]), float.fromhex(WIT_NEAR_PARALLEL[9]))
    w = WIT_PARALLELOGRAM
    add("witness_parallelogram", [(w[0], w[1]), (w[2], w[3]), (w[4], w[5]), (w[6], w[7])], w[8], w[9])
    # the fixtures of test_bilinear.py
    add("irregular", [(-1., 1.), (1., 2.), (-2., -1.), (2., -4.)], 0., 0.)
    add("uprights_parallel", [(-1., 1.), (1., 2.), (-1., -1.), (1., -2.)], 0., 0.)
    add("rectangle", [(-1., 1.), (1., 1.), (-1., -1.), (1., -1.)], 0., 0.)
    while len(out) < n:
        kind = r.choice(["irregular", "irregular", "irregular_big", "rectangle", "rectangle_noisy", "uprights_parallel",
                         "rows_parallel", "parallelogram", "parallelogram_dyadic", "near_parallel", "collinear", "duplicate",
                         "outside", "on_edge", "nan_corner", "huge", "tiny", "not_surrounding", "integer"])
        sc = r.choice([1.0, 1.0, 1000.0, 1e6])
        cx, cy = (r.uniform(-sc, sc) * r.choice([0, 1, 100]), r.uniform(-sc, sc) * r.choice([0, 1, 100]))
        u = lambda lo=0.05, hi=1.0: r.uniform(lo, hi) * sc   # noqa: E731
        if kind in ("irregular", "irregular_big"):
            P = [(cx - u(), cy + u()), (cx + u(), cy + u()), (cx - u(), cy - u()), (cx + u(), cy - u())]
            x, y = cx, cy
        elif kind in ("rectangle", "rectangle_noisy"):
            l, rr, t, b = cx - u(), cx + u(), cy + u(), cy - u()
            P = [(l, t), (rr, t), (l, b), (rr, b)]
            if kind == "rectangle_noisy":
                P = [(px * (1 + r.uniform(-2, 2) * 1e-15), py * (1 + r.uniform(-2, 2) * 1e-15)) for px, py in P]
            x, y = r.uniform(l, rr), r.uniform(b, t)
        elif kind == "uprights_parallel":
            l, rr = cx - u(), cx + u()
            P = [(l, cy + u()), (rr, cy + u()), (l, cy - u()), (rr, cy - u())]
            x, y = cx, cy
        elif kind == "rows_parallel":
            t, b = cy + u(), cy - u()
            P = [(cx - u(), t), (cx + u(), t), (cx - u(), b), (cx + u(), b)]
            x, y = cx, cy
        elif kind in ("parallelogram", "parallelogram_dyadic"):
            if kind == "parallelogram_dyadic":
                q = lambda v: round(v * 8) / 8.0   # noqa: E731
                p1 = (q(r.uniform(-4, -1)), q(r.uniform(1, 4)))
                e1 = (q(r.uniform(2, 6)), q(r.uniform(-0.75, 0.75)))
                e2 = (q(r.uniform(-0.75, 0.75)), q(r.uniform(-6, -2)))
                x, y = q(r.uniform(-0.5, 0.5)), q(r.uniform(-0.5, 0.5))
            else:
                p1 = (cx - u(0.3), cy + u(0.3))
                e1 = (u(0.8, 1.5), r.uniform(-0.2, 0.2) * sc)
                e2 = (r.uniform(-0.2, 0.2) * sc, -u(0.8, 1.5))
                x, y = cx, cy
            P = [p1, (p1[0] + e1[0], p1[1] + e1[1]), (p1[0] + e2[0], p1[1] + e2[1]),
                 (p1[0] + e1[0] + e2[0], p1[1] + e1[1] + e2[1])]
        elif kind == "near_parallel":
            big = r.choice([1e5, 1e6, 5e6])
            step = r.choice([1000.0, 3000.0, 10000.0])
            l, t = r.uniform(-big, big), r.uniform(-big, big)
            nz = lambda: r.uniform(-3, 3) * 1e-9   # noqa: E731
            P = [(l + nz(), t + nz()), (l + step + nz(), t + nz()), (l + nz(), t - step + nz()), (l + step + nz(), t - step + nz())]
            x, y = l + r.uniform(0.01, 0.99) * step, t - r.uniform(0.01, 0.99) * step
        elif kind == "collinear":
            d = (r.uniform(-1, 1), r.uniform(-1, 1))
            P = [(cx + k * d[0] * sc, cy + k * d[1] * sc) for k in (r.uniform(-1, 1), r.uniform(-1, 1), r.uniform(-1, 1), r.uniform(-1, 1))]
            x, y = cx, cy
        elif kind == "duplicate":
            p = (cx - u(), cy + u())
            P = [p, (cx + u(), cy + u()), r.choice([p, (cx - u(), cy - u())]), r.choice([p, (cx + u(), cy - u())])]
            x, y = cx, cy
        elif kind == "outside":
            P = [(cx - u(), cy + u()), (cx + u(), cy + u()), (cx - u(), cy - u()), (cx + u(), cy - u())]
            x, y = cx + r.choice([-3, 3, 0]) * sc, cy + r.choice([-3, 3]) * sc
        elif kind == "on_edge":
            l, rr, t, b = cx - u(), cx + u(), cy + u(), cy - u()
            P = [(l, t), (rr, t + r.choice([0, u()])), (l - r.choice([0, u()]), b), (rr, b)]
            x, y = r.choice([(l, cy), (rr, cy), (cx, t), (cx, b), (l, t), (rr, b)])
        elif kind == "nan_corner":
            P = [(cx - u(), cy + u()), (cx + u(), cy + u()), (cx - u(), cy - u()), (cx + u(), cy - u())]
            P[r.randrange(4)] = (NAN, NAN)
            if r.random() < 0.3:
                P[r.randrange(4)] = r.choice([(NAN, NAN), (INF, 1.0), (-INF, INF)])
            x, y = cx, cy
        elif kind == "huge":
            m = r.choice([1e150, 1e200, 1e300, 1.7e308])
            P = [(-m * r.random(), m * r.random()), (m * r.random(), m * r.random()), (-m * r.random(), -m * r.random()), (m * r.random(), -m * r.random())]
            x, y = 0.0, 0.0
        elif kind == "tiny":
            m = r.choice([1e-150, 1e-300, 5e-324])
            P = [(-m * r.randint(1, 9), m * r.randint(1, 9)), (m * r.randint(1, 9), m * r.randint(1, 9)),
                 (-m * r.randint(1, 9), -m * r.randint(1, 9)), (m * r.randint(1, 9), -m * r.randint(1, 9))]
            x, y = 0.0, r.choice([0.0, -0.0])
        elif kind == "integer":
            P = [(float(-r.randint(1, 9)), float(r.randint(1, 9))), (float(r.randint(1, 9)), float(r.randint(1, 9))),
                 (float(-r.randint(1, 9)), float(-r.randint(1, 9))), (float(r.randint(1, 9)), float(-r.randint(1, 9)))]
            x, y = 0.0, 0.0
        else:  # not_surrounding: arbitrary points
            P = [(cx + r.uniform(-1, 1) * sc, cy + r.uniform(-1, 1) * sc) for _ in range(4)]
            x, y = cx + r.uniform(-1, 1) * sc, cy + r.uniform(-1, 1) * sc
        add(kind, P, x, y)
    return out


def special(r):
    return r.choice([0.0, -0.0, 1.0, -1.0, 0.5, 2.0, NAN, INF, -INF, 1e-320, 1e308, r.uniform(-3, 3), r.uniform(-1e6, 1e6),
                     float(r.randint(-4, 4))])


def gen_quadratic(ctx, n):
    r = ctx.rng
    out = [(1., 0., 0., 0., 1.), (1., 2., 1., 0., 1.), (1., 2., 1., -2., 1.), (0., 0., 0., 0., 1.), (0., 2., -1., 0., 1.)]
    while len(out) < n:
        m = r.random()
        if m < 0.3:      # two roots chosen in or near [0, 1]
            r1, r2, a = r.uniform(-0.5, 1.5), r.uniform(-0.5, 1.5), r.choice([1.0, -3.0, 1e-12, r.uniform(-5, 5)])
            abc = (a, -a * (r1 + r2), a * r1 * r2)
        elif m < 0.45:   # linear
            abc = (0.0, r.uniform(-4, 4), r.uniform(-4, 4))
        elif m < 0.6:    # double root / tiny discriminant
            r1 = r.uniform(0, 1)
            abc = (1.0, -2 * r1, r1 * r1 * (1 + r.choice([0, 1e-16, -1e-16])))
        else:
            abc = (special(r), special(r), special(r))
        lo, hi = r.choice([(0., 1.), (0., 1.), (0., 1.), (-2., 1.), (0.25, 0.75), (-1e9, 1e9)])
        out.append(abc + (lo, hi))
    return out


def gen_other(ctx, n):
    r = ctx.rng
    out = []
    while len(out) < n:
        if r.random() < 0.6:
            y1, y2, y3, y4 = r.uniform(0, 2), r.uniform(0, 2), r.uniform(-2, 0), r.uniform(-2, 0)
            out.append((r.uniform(-0.2, 1.2), y1, y2, y3, y4, r.uniform(-1, 1)))
        elif r.random() < 0.5:   # equal rows: 0/0 and x/0
            y = r.uniform(-5, 5)
            out.append((r.uniform(0, 1), y, y, r.choice([y, y + 1]), r.choice([y, y + 1]), r.choice([y, y + 0.5])))
        else:
            out.append(tuple(special(r) for _ in range(6)))
    return out


def gen_resample_k(ctx, n):
    r = ctx.rng
    out = []
    while len(out) < n:
        m = r.random()
        if m < 0.6:
            sc = r.choice([1.0, 300.0, 1e12])
            out.append(tuple(r.uniform(-sc, sc) for _ in range(4)) + (r.random(), r.random()))
        elif m < 0.8:
            c = r.uniform(-1e6, 1e6)
            out.append((c, c, c, c, r.choice([0.0, 1.0, r.random()]), r.choice([0.0, 1.0, r.random()])))
        else:
            out.append(tuple(special(r) for _ in range(6)))
    return out


def gen_corners(ctx, n):
    r = ctx.rng
    out = []
    while len(out) < n:
        k = r.choice([1, 2, 4, 5, 8, 12])
        npts = r.randint(1, 4)
        grid = r.random() < 0.4          # lattice coordinates: many exact ties with the target's x or y
        c = {"k": k, "in_x": [], "in_y": [], "out_x": [], "out_y": [], "index": []}
        for _ in range(npts):
            ox, oy = (float(r.randint(-2, 2)), float(r.randint(-2, 2))) if grid else (r.uniform(-5, 5), r.uniform(-5, 5))
            xs, ys, idx = [], [], []
            for _ in range(k):
                if grid:
                    xs.append(float(r.randint(-3, 3)))
                    ys.append(float(r.randint(-3, 3)))
                else:
                    xs.append(ox + r.uniform(-1, 1) * r.choice([1, 1, 1e-9]))
                    ys.append(oy + r.uniform(-1, 1) * r.choice([1, 1, 1e-9]))
                if r.random() < 0.08:
                    xs[-1], ys[-1] = NAN, NAN
                if r.random() < 0.03:
                    xs[-1] = r.choice([INF, -INF])
                idx.append(r.randint(0, 50))
            c["in_x"].append(xs)
            c["in_y"].append(ys)
            c["index"].append(idx)
            c["out_x"].append(ox)
            c["out_y"].append(oy)
        out.append(c)
    return out


def gen_slices(ctx, n):
    r = ctx.rng
    out = []
    while len(out) < n:
        one_d = r.random() < 0.15
        rows, cols = (r.randint(1, 12), 0) if one_d else (r.randint(1, 6), r.randint(1, 6))
        size = rows if one_d else rows * cols
        valid = [r.random() < r.choice([1.0, 0.7, 0.3]) for _ in range(size)]
        if not any(valid):
            valid[r.randrange(size)] = True
        nv = sum(valid)
        npix = r.randint(1, 6)
        index = [[r.randrange(nv) for _ in range(4)] for _ in range(npix)]
        c = {"shape": [rows] if one_d else [rows, cols], "valid": valid, "index": index}
        if not one_d:
            # the data the slicers see are the full (rows, cols) array; the tables address it by line/column
            nb = r.choice([0, 0, 1, 3])
            mk = lambda: [[float(r.randint(-99, 99)) + r.choice([0, 0.5]) for _ in range(cols)] for _ in range(rows)]  # noqa: E731
            c["data"] = mk() if nb == 0 else [mk() for _ in range(nb)]
            c["fill"] = r.choice([NAN, 0.0, -1.0])
        out.append(c)
    return out


def gen_limit(ctx, n):
    """data (for min / max), results to clip, fill value"""
    r = ctx.rng
    out = []
    while len(out) < n:
        sc = r.choice([1.0, 300.0, 1e7, 1e12, 1e-3])
        data = [r.uniform(-sc, sc) * r.choice([1, 1, 0.5]) + r.choice([0, sc]) for _ in range(r.randint(1, 8))]
        if r.random() < 0.3:
            data.append(NAN)
        if r.random() < 0.2:
            data = [data[0]] * 3                                    # constant field
        vals = [v for v in data if not isnan(v)]
        lo, hi = min(vals), max(vals)
        eps = max(1e-6, 1e-15 * max(abs(lo), abs(hi)))
        res = [r.uniform(lo, hi), lo, hi, lo - eps, hi + eps, lo - eps * (1 + 1e-9) - 1e-300, hi + 2 * eps, NAN, INF, -INF,
               math.nextafter(hi + eps, INF), math.nextafter(lo - eps, -INF), hi * (1 + 2e-16), 0.0]
        out.append({"data": data, "res": res, "fill": r.choice([NAN, 0.0, -9999.0]), "chunks": r.choice([1, 3, 100])})
    return out


def gen_scatter(ctx, n):
    r = ctx.rng
    out = []
    while len(out) < n:
        h, w = r.randint(1, 5), r.randint(1, 5)
        valid = [r.random() < r.choice([1.0, 0.8, 0.4]) for _ in range(h * w)]
        if not any(valid):
            valid[r.randrange(h * w)] = True
        nv = sum(valid)
        ndim = r.choice([2, 3])
        nb = 1 if ndim == 2 else r.randint(1, 4)
        bands = [[float(100 * b + i) + r.choice([0.0, 0.25]) for i in range(nv)] for b in range(nb)]
        out.append({"shape": [h, w], "valid": valid, "ndim": ndim, "bands": bands})
    return out


LAYOUTS = ["F", "T", "strided", "neg", "C"]      # Fortran order, transposed view, strided view, negative strides, C order

PROJS = {
    "laea": {"proj": "laea", "lat_0": 60, "lon_0": 10, "ellps": "WGS84"},
    "stere": {"proj": "stere", "lat_0": 90, "lon_0": 0, "lat_ts": 60, "ellps": "WGS84"},
    "merc": {"proj": "merc", "lon_0": 0, "ellps": "WGS84"},
    "eqc": {"proj": "eqc", "lon_0": 0, "ellps": "WGS84"},
    "sinu": {"proj": "sinu", "lon_0": 0, "ellps": "WGS84"},
    "longlat": {"proj": "longlat", "ellps": "WGS84"},
    "lcc": {"proj": "lcc", "lat_0": 50, "lon_0": 10, "lat_1": 45, "lat_2": 55, "ellps": "WGS84"},
    "tmerc": {"proj": "tmerc", "lat_0": 0, "lon_0": 15, "k": 0.9996, "ellps": "WGS84"},
    "geos": {"proj": "geos", "lon_0": 0.0, "a": 6378169.0, "b": 6356583.8, "h": 35785831.0},
}
# (projection, centre x, centre y, half width) of regions over Europe where all projections above are regular
REGIONS = {
    "laea": (0.0, -500000.0, 400000.0), "stere": (300000.0, -3000000.0, 400000.0), "merc": (1200000.0, 7000000.0, 500000.0),
    "eqc": (1200000.0, 6000000.0, 450000.0), "sinu": (700000.0, 6000000.0, 400000.0), "longlat": (11.0, 54.0, 4.0),
    "lcc": (0.0, 300000.0, 400000.0), "tmerc": (0.0, 6000000.0, 350000.0), "geos": (0.0, 0.0, 5430000.0),
}


def area_spec(r, pname, frac, shape, nice):
    cx, cy, hw = REGIONS[pname]
    hw = hw * frac
    jit = (lambda: 0.0) if nice else (lambda: r.uniform(-0.01, 0.01) * hw)
    ext = [cx - hw + jit(), cy - hw + jit(), cx + hw + jit(), cy + hw + jit()]
    return {"kind": "area", "proj": PROJS[pname], "shape": list(shape), "extent": ext}


def gen_resample(ctx, n):
    """geometry pairs for the full resamplers; the template name is the input class of the case"""
    r = ctx.rng
    out = []
    templates = ["same_proj", "same_proj_nice", "coincident", "cross_proj", "cross_proj", "lonlat_source", "swath_rot", "swath_shear",
                 "swath_jitter", "swath_jitter", "swath_bend", "swath_invalid", "few_neighbours", "small_radius", "reduce_data",
                 "lonlat_target", "invalid_target", "degree_fan", "integer_data", "long_strip_wide", "long_strip_tall"]
    i = nlay = 0
    while len(out) < n:
        tpl = templates[i % len(templates)] if i < len(templates) else r.choice(templates)
        i += 1
        tp = r.choice(["laea", "stere", "merc", "eqc", "sinu", "lcc", "tmerc"])
        th, tw = r.randint(6, 16), r.randint(6, 16)
        sh, sw = r.randint(18, 30), r.randint(18, 30)
        nb = r.choice([16, 32])
        reduce_data = False
        hw = REGIONS[tp][2]
        pix = 2 * hw / min(sh, sw)
        radius = 4 * pix
        if tpl in ("same_proj", "same_proj_nice"):
            src = area_spec(r, tp, 1.0, (sh, sw), tpl == "same_proj_nice")
            tgt = area_spec(r, tp, 0.5, (th, tw), tpl == "same_proj_nice")
        elif tpl == "coincident":
            k = r.randint(8, 14)
            if i == 3:   # fixed witness: every target pixel centre lies on a source grid line (laea, 10 km source, 10 km target)
                tp, k, hw = "laea", 20, 200000.0
                src = {"kind": "area", "proj": PROJS[tp], "shape": [40, 40], "extent": [-200000.0, -200000.0, 200000.0, 200000.0]}
                tgt = {"kind": "area", "proj": PROJS[tp], "shape": [20, 20], "extent": [-100000.0, -100000.0, 100000.0, 100000.0]}
                th = tw = 20
            else:
                src = area_spec(r, tp, 1.0, (2 * k, 2 * k), True)
                tgt = area_spec(r, tp, 0.5, (k, k), True)
            radius = 4 * (2 * hw / (2 * k))
        elif tpl in ("cross_proj", "reduce_data", "few_neighbours", "small_radius"):
            sp = r.choice([p for p in ("laea", "stere", "merc", "lcc", "tmerc") if p != tp])
            tgt = area_spec(r, tp, 0.35, (th, tw), r.random() < 0.5)
            src = {"kind": "swath_of_area", "proj": PROJS[tp], "tproj": PROJS[sp]}   # resolved below
            # source: a regular grid in ANOTHER projection covering the target: built as a swath lattice in that projection
            src = {"kind": "cover", "proj": PROJS[sp], "cover": tgt, "shape": [sh, sw], "margin": 0.6}
            if tpl == "reduce_data":
                reduce_data = True
            if tpl == "few_neighbours":
                nb = r.choice([4, 6, 9])
            if tpl == "small_radius":
                radius = r.choice([0.7, 1.0, 1.5]) * pix
        elif tpl == "lonlat_source":
            tp = r.choice(["merc", "eqc", "sinu", "laea"])
            tgt = area_spec(r, tp, 0.35, (th, tw), False)
            src = {"kind": "cover", "proj": PROJS["longlat"], "cover": tgt, "shape": [sh, sw], "margin": 0.6}
        elif tpl == "invalid_target":
            # geostationary full disc: the corner pixels of the target have no lon/lat (space); lon/lat source grid
            th, tw = r.randint(14, 22), r.randint(14, 22)
            hwx, hwy = 5432229.93 * r.uniform(0.97, 1.0), 5429229.53 * r.uniform(0.97, 1.0)
            tgt = {"kind": "area", "proj": PROJS["geos"], "shape": [th, tw], "extent": [-hwx, -hwy, hwx, hwy]}
            sh, sw = r.randint(44, 60), r.randint(44, 60)
            src = {"kind": "area", "proj": PROJS["longlat"], "shape": [sh, sw], "extent": [-89.0, -88.0, 89.0, 88.0]}
            radius, nb = 1500000.0, 16
        elif tpl == "degree_fan":
            # fine (about 20 m) fan-shaped swath onto a target whose projection coordinates are DEGREES: the coefficients
            # of the quadratic are tiny in absolute terms (a ~ 1e-10) although the cells are genuinely non-parallel
            sh = sw = r.randint(36, 44)
            # (the untranslated coordinates enter the quadratic's coefficients: c = oy*x21 - ox*y21 + x1*y2 - x2*y1 cancels from O(coord^2)
            # to O(cell^2); an alarm here is attributed by the running-error bound, see attribute())
            d = r.choice([1.5e-4, 2e-4, 3e-4])
            lon0, lat0 = r.uniform(0.2, 3.0), r.uniform(0.3, 4.0)
            src = {"kind": "fan", "shape": [sh, sw], "d": d, "lon0": lon0, "lat0": lat0, "f1": r.uniform(0.001, 0.004),
                   "f2": r.uniform(0.0005, 0.003), "g1": r.uniform(-0.15, 0.15), "g2": r.uniform(-0.1, 0.1)}
            span = d * (sh - 1)
            th, tw = r.randint(9, 14), r.randint(9, 14)
            tgt = {"kind": "area", "proj": PROJS["longlat"], "shape": [th, tw],
                   "extent": [lon0 + 0.3 * span, lat0 - 0.75 * span, lon0 + 0.8 * span, lat0 - 0.3 * span]}
            radius, nb = 10 * d * 111000.0, 32
        elif tpl == "integer_data":
            tgt = area_spec(r, tp, 0.4, (th, tw), False)
            cx_, cy_, _ = REGIONS[tp]
            step = 2 * hw / max(sh, sw)
            ang = r.uniform(-0.6, 0.6)
            m = [[step * math.cos(ang), -step * math.sin(ang)], [step * math.sin(ang), step * math.cos(ang)]]
            src = {"kind": "swath", "proj": PROJS[tp], "shape": [sh, sw],
                   "origin": [cx_ - (m[0][0] * (sw - 1) + m[0][1] * (sh - 1)) / 2, cy_ - (m[1][0] * (sw - 1) + m[1][1] * (sh - 1)) / 2],
                   "matrix": m, "orient": 0, "jitter": 0.2, "jitter_seed": r.randrange(10 ** 6)}
            radius = 4 * step
        elif tpl in ("long_strip_wide", "long_strip_tall"):
            # more than 65536 columns (lines) and a dozen lines (columns): 20 m lattice in the target's projection; the target is 3 x 90
            # pixels along the whole strip, so its first and last columns sit at both ends (source indices < 400 and > 65536)
            tp = "laea"
            long_n, short_n, step = 66000 + r.randint(0, 400), 12, 20.0
            cx_, cy_, _ = REGIONS[tp]
            wide = tpl == "long_strip_wide"
            sh, sw = (short_n, long_n) if wide else (long_n, short_n)
            x0, y0 = cx_ - step * (sw - 1) / 2, cy_ + step * (sh - 1) / 2
            src = {"kind": "swath", "proj": PROJS[tp], "shape": [sh, sw], "origin": [x0, y0], "matrix": [[step, 0.0], [0.0, -step]],
                   "orient": 0, "jitter_seed": 0}
            off = r.uniform(0.2, 0.8) * step
            if wide:
                th, tw = 3, 90
                ext = [x0 - step / 2, y0 - 8 * step + off, x0 + (sw - 0.5) * step, y0 - 3 * step + off]
            else:
                th, tw = 90, 3
                ext = [x0 + 3 * step + off, y0 - (sh - 0.5) * step, x0 + 8 * step + off, y0 + step / 2]
            tgt = {"kind": "area", "proj": PROJS[tp], "shape": [th, tw], "extent": ext}
            radius, nb = 4 * step, 16
        elif tpl == "lonlat_target":
            tgt = area_spec(r, "longlat", 0.4, (th, tw), False)
            src = {"kind": "cover", "proj": PROJS[r.choice(["laea", "stere", "lcc"])], "cover": tgt, "shape": [sh, sw], "margin": 0.6}
            radius = 250000.0
        else:  # swaths: an affine lattice in the TARGET's projection coordinates, inverse-projected to lon/lat
            tgt = area_spec(r, tp, 0.4, (th, tw), False)
            cx, cy, _ = REGIONS[tp]
            step = 2 * hw / max(sh, sw)
            ang = r.uniform(-math.pi, math.pi) if tpl != "swath_shear" else 0.0
            ca, sa = math.cos(ang), math.sin(ang)
            m = [[step * ca, -step * sa], [step * sa, step * ca]]
            if tpl == "swath_shear":
                m = [[step, step * r.uniform(-0.5, 0.5)], [0.0, -step]]
            # origin such that the lattice centre is the region centre
            ox_ = cx - (m[0][0] * (sw - 1) + m[0][1] * (sh - 1)) / 2
            oy_ = cy - (m[1][0] * (sw - 1) + m[1][1] * (sh - 1)) / 2
            src = {"kind": "swath", "proj": PROJS[tp], "shape": [sh, sw], "origin": [ox_, oy_], "matrix": m,
                   "orient": r.randrange(8), "jitter_seed": r.randrange(10 ** 6)}
            if tpl == "swath_jitter":
                src["jitter"] = r.choice([0.05, 0.3, 0.6])
            if tpl == "swath_bend":
                src["bend"] = step * r.uniform(-0.01, 0.01)
            if tpl == "swath_invalid":
                src["jitter"] = 0.2
                src["invalid"] = [[r.randrange(sh), r.randrange(sw)] for _ in range(r.randint(1, 12))]
            radius = 4 * step
        if src["kind"] in ("swath", "fan") and not tpl.startswith("long_strip"):
            # memory layout of the source lon/lat arrays and of the data: cycle through the non-C layouts first
            src["layout"] = LAYOUTS[nlay % len(LAYOUTS)]
            nlay += 1
        cxr, cyr, hwr = REGIONS[tgt["proj"]["proj"]]
        if tpl == "degree_fan":
            e = tgt["extent"]
            cxr, cyr, hwr = (e[0] + e[2]) / 2, (e[1] + e[3]) / 2, (e[2] - e[0]) / 2
        scale = 1.0 / hwr
        strip = {"light": True, "chunkings": [[6, 33000] if tpl == "long_strip_wide" else [33000, 6]]} if tpl.startswith("long_strip") else {}
        extra = {"int_dtypes": ["uint8", "uint16", "int16", "float32"], "int_ramp": [250, 2, 1]} if tpl == "integer_data" else {}
        th, tw = tgt["shape"]
        out.append({**extra, "template": tpl, "source": src, "target": tgt, "radius": radius, "neighbours": nb, "reduce_data": reduce_data,
                    "data_seed": r.randrange(10 ** 6), "centre": [cxr, cyr],
                    "affine": [r.uniform(-50, 50), r.uniform(-20, 20) * scale, r.uniform(-20, 20) * scale],
                    "const": 1e12 if i == 4 else r.choice([7.5, -273.15, 1e-3, 300.0, 0.0]),   # i == 4: one ulp of the data > 1e-6
                    "rand_range": r.choice([[-5, 5], [200, 320], [0, 1]]),
                    "chunkings": [[3, 4]], "pixel_sample": sorted(r.sample(range(th * tw), min(th * tw, 40)))})
        if strip:
            out[-1].update(strip, pixel_sample=[])
    return out


# ------------------------------------------------------------------------------------------------ the check
def run(ctx):
    ctx.rule = ("All cases come from random.Random(VERIF_SEED). KERNELS: quadrilateral + target in 19 classes (irregular, rectangles exact/noisy, "
                "parallel uprights/rows, parallelograms real/dyadic, near-parallel = 1e-9 noise on coordinates of 1e5..5e6, collinear, duplicate "
                "corners, target outside / on an edge, NaN/inf corners, 1e300 / 1e-300 magnitudes, arbitrary points, small integers) + the "
                "fixtures of test_bilinear.py + the two Coq witnesses; _solve_quadratic / _solve_another_fractional_distance / _resample on "
                "structured and special-value arguments (signed zeros, NaN, inf, subnormals); corner choice on random and on lattice (tie-rich) "
                "neighbour tables with k in {1,2,4,5,8,12}; look-up tables on random validity masks (2-D, 3-D, 1-D sources); range clip on data "
                "of magnitude 1e-3..1e12 with results at, just inside and just outside the margin; _reshape_to_target_area on random validity "
                "patterns (2-D, 3-D). RESAMPLERS: 19 geometry templates (same projection nice/non-nice extents, coincident grids, 7 projections "
                "crossed, lon/lat source, lon/lat target, geostationary full disc with space pixels, 20 m fan-shaped swath on a degree grid, "
                "rotated / sheared / jittered / bent swaths in 8 orientations, invalid lons, few neighbours, small radius, reduce_data, integer "
                "imagery) x constant / affine / random fields, 2-D and 3-D, numpy class, legacy functions and xarray class with several data "
                "chunkings and PYTROLL_CHUNK_SIZE in {default, 4, 7, 4096}; a repeated call on the same resampler object; the lazy xarray "
                "results of several equally named / unnamed inputs evaluated in one dask.compute vs. alone; swath lon/lat and data arrays "
                "in Fortran / transposed-view / strided / negative-stride / C memory layouts vs. C-contiguous copies; 12 x 66000+ and 66000+ x 12 "
                "strips (index dtypes) with a target reaching both ends; masked-array data with wildly different hidden values (2-D, 3-D, "
                "legacy, fill 0). "
                "A case is NON-TRIVIAL when it reaches the interesting branch: a non-NaN (t, s) for kernels, a non-NaN result for scalar "
                "kernels, at least one found corner, a target with an invalid pixel for scattering, at least one produced pixel for a "
                "resampler case; every look-up / clip / xarray case counts. DISTINCT = distinct canonical inputs (float.hex of all arguments, "
                "JSON of the geometry spec) among the non-trivial cases. An affine-exactness alarm is attributed to the known conditioning "
                "classes iff its size is within the running-error bound of the documented operation sequence (histogram affine_alarm:*)")
    nq = ctx.n(700, 6000)
    quads = gen_quads(ctx, nq)
    quadr = gen_quadratic(ctx, ctx.n(300, 3000))
    other = gen_other(ctx, ctx.n(200, 2000))
    resk = gen_resample_k(ctx, ctx.n(200, 2000))
    corners = gen_corners(ctx, ctx.n(150, 1500))
    slices = gen_slices(ctx, ctx.n(100, 1000))
    rcases = gen_resample(ctx, ctx.n(21, 126))
    # the long strips (> 65536 pixels along one axis) go last: the first `nx` cases are also run under tiny PYTROLL_CHUNK_SIZE values,
    # which on such a source means tens of thousands of dask chunks (the thorough tier once ran into the driver timeout that way)
    rcases.sort(key=lambda c: c["template"].startswith("long_strip"))
    limits = gen_limit(ctx, ctx.n(60, 600))
    scatters = gen_scatter(ctx, ctx.n(80, 800))

    hx = lambda l: [float(v).hex() for v in l]   # noqa: E731
    payload = {"kernels": [hx(q[1]) for q in quads], "quadratic": [hx(q) for q in quadr], "other": [hx(q) for q in other],
               "resample_k": [hx(q) for q in resk],
               "corners": [{"k": c["k"], "in_x": [hx(x) for x in c["in_x"]], "in_y": [hx(x) for x in c["in_y"]],
                            "out_x": hx(c["out_x"]), "out_y": hx(c["out_y"]), "index": c["index"]} for c in corners],
               "slices": [dict(c, fill=float(c["fill"]).hex()) if "fill" in c else c for c in slices],
               "limit": [dict(c, data=hx(c["data"]), res=hx(c["res"]), fill=float(c["fill"]).hex()) for c in limits],
               "scatter": [dict(c, bands=[hx(b) for b in c["bands"]]) for c in scatters]}
    # full resamplers: numpy + xarray in this process, xarray again under other PYTROLL_CHUNK_SIZE values
    # the full-resampler cases are spread over NG driver processes (more in the thorough tier, whose per-case reruns -- layouts,
    # masked data, joint computes, long strips -- once ran into the driver timeout under machine load: a timeout is not a verdict)
    NG = 10 if ctx.thorough else 4
    with ThreadPoolExecutor(max_workers=NG + 4) as ex:
        f_main = ex.submit(ctx.impl, IMPL, payload, 3000)
        groups = [rcases[i::NG] for i in range(NG)]
        f_res = [ex.submit(ctx.impl, IMPL, {"resample": g}, 3000) for g in groups]
        nx = ctx.n(5, 24)
        xcases = [dict(c, want_numpy=False, chunkings=ch) for c, ch in
                  zip(rcases[:nx], [[[3, 4], [100, 100]], [[1, 5]], [[5, 1], [2, 2]], [[4, 4]], [[7, 3]]] * 5)]
        envs = [{"PYTROLL_CHUNK_SIZE": "4"}, {"PYTROLL_CHUNK_SIZE": "7"}, {"PYTROLL_CHUNK_SIZE": "4096"}]
        f_x = [ex.submit(ctx.impl, IMPL, {"resample": xcases}, 3000, e) for e in envs]
        obs = f_main.result()
        robs = [None] * len(rcases)
        for gi, f in enumerate(f_res):
            for j, o in enumerate(f.result()["resample"]):
                robs[gi + NG * j] = o
        xobs = [f.result()["resample"] for f in f_x]

    texts = []
    check_kernels(ctx, quads, obs["kernels"], texts)
    check_scalar(ctx, "quadratic", quadr, obs["quadratic"], "chk_quadratic", texts)
    check_scalar(ctx, "other", other, obs["other"], "chk_other", texts)
    check_scalar(ctx, "resample_k", resk, obs["resample_k"], "chk_resample", texts, gen="chk_gen_resample")
    check_corners(ctx, corners, obs["corners"], texts)
    check_slices(ctx, slices, obs["slices"], texts)
    check_limit(ctx, limits, obs["limit"], texts)
    check_scatter(ctx, scatters, obs["scatter"], texts)
    check_resamplers(ctx, rcases, robs, texts)
    check_xarray(ctx, rcases, robs, xcases, xobs, envs)

    res = ctx.coq_eval_many([(n_, t) for n_, t, _, _ in texts], timeout=900)
    for name, _, lines, what in texts:
        outp, ok = res[name]
        if not ok:
            ctx.broken.append(("correspondence:" + what, "model evaluation failed: " + outp[-300:]))
            continue
        bad = ints(outp)
        if bad:
            ctx.broken.append(("correspondence:" + what, "model and implementation differ on %d of %d cases, e.g. %s" % (
                len(bad), len(lines), lines[bad[0]][:300])))


def shard(name, hdr, chk, lines, what, texts, typ=None, size=400):
    for k in range(0, len(lines), size):
        part = lines[k:k + size]
        ty = (" : list (%s)" % typ) if typ else ""
        texts.append(("%s_%03d" % (name, k // size), hdr + "Definition cases%s := [%s].\nEval vm_compute in (bad %s cases).\n" % (
            ty, ";\n".join(part), chk), part, what))


def check_kernels(ctx, quads, k, texts):
    """bit-exact correspondence of the whole (t, s) pipeline + the inverse/convexity oracle on the implementation's output"""
    order = ["abc", "abc_swapped", "quad", "quad_swapped", "irregular", "uprights", "parallelogram", "full", "full_single"]
    lines = []
    for i, (kind, q) in enumerate(quads):
        exp = []
        for key in order:
            v = k[key]
            if key in ("quad", "quad_swapped"):
                exp.append(float.fromhex(v[i]))
            else:
                exp += [float.fromhex(col[i]) for col in v]
        P = [(q[0], q[1]), (q[2], q[3]), (q[4], q[5]), (q[6], q[7])]
        x, y = q[8], q[9]
        tf, sf = exp[14], exp[15]
        ts1 = (exp[16], exp[17])
        produced = not (isnan(tf) or isnan(sf))
        ctx.case(("kern", tuple(float(v).hex() for v in q)), nontrivial=produced, sample=smp(ctx, "kernel", {"kernel_" + kind: q, "t_s": [tf, sf]}, 3) if produced and kind not in ("witness_parallelogram", "irregular") else None)
        ctx.count("kernel:" + kind + (":value" if produced else ":nan"))
        rp = {"oracle": "kernels", "case": [float(v).hex() for v in q], "kind": kind}
        if not (same(tf, ts1[0]) and same(sf, ts1[1])):
            ctx.add_failure("C06.elementwise", "_get_fractional_distances gives %r inside a batch but %r alone for %s" % ((tf, sf), ts1, q), rp)
        if isnan(tf) != isnan(sf) and False:
            pass
        if produced and any(isnan(v) for v in q[:8]):
            ctx.add_failure("C06.surround.value_with_missing_corner", "_get_fractional_distances returns (t, s) = %r although a corner is NaN "
                            "(not found): %s" % ((tf, sf), P), rp)
        if produced:
            if not (0 <= tf <= 1 and 0 <= sf <= 1):
                ctx.add_failure("C06.st_range", "_get_fractional_distances returned (t, s) = %r outside [0,1]^2 for %s" % ((tf, sf), q), rp)
            elif all(math.isfinite(v) for v in q) and surrounded(P, x, y) and max(abs(v) for v in q) < 1e100 \
                    and min(min(abs(p[0] - x), abs(p[1] - y)) for p in P) > 1e-100:
                # (outside 1e-100 .. 1e100 the products of coordinate differences over/underflow: bit-exact correspondence only)
                # the property clause: a produced (s, t) solves the bilinear inverse (else affine fields are not reproduced)
                bx = bilerp([Fr(p[0]) for p in P], Fr(sf), Fr(tf))
                by = bilerp([Fr(p[1]) for p in P], Fr(sf), Fr(tf))
                diam = max(abs(p[0] - q_[0]) + abs(p[1] - q_[1]) for p in P for q_ in P)
                resid = float(max(abs(bx - Fr(x)), abs(by - Fr(y)))) / diam
                if resid > 1e-6:
                    # attribute through the x and the y coordinate seen as two affine fields on the quadrilateral
                    cx_, bx_ = attribute(P, x, y, [p[0] for p in P], sf, tf, float(abs(bx - Fr(x))))
                    cy_, by_ = attribute(P, x, y, [p[1] for p in P], sf, tf, float(abs(by - Fr(y))))
                    cls = cx_ and cy_
                    ctx.count("affine_alarm:" + (cls or "unexplained"))
                    key = "C06.affine_exact" + ("." + cls if cls else "")
                    ctx.add_failure(key, "_get_fractional_distances: corners %s surround (%r, %r), returned (t, s) = (%r, %r) is accepted but "
                                    "bilerp(corners; s, t) misses the target by %.3g of the cell size [%s; rounding bound of the documented formulas %.3g]" % (
                                        P, x, y, tf, sf, resid, cls or "not explained by rounding", max(bx_, by_) / diam), rp)
        # the parallelogram helper on genuine parallelograms that surround the target
        tp, sp = exp[12], exp[13]
        if kind in ("parallelogram", "parallelogram_dyadic", "witness_parallelogram") and not (isnan(tp) or isnan(sp)) and surrounded(P, x, y):
            bx = bilerp([Fr(p[0]) for p in P], Fr(sp), Fr(tp))
            diam = max(abs(p[0] - q_[0]) + abs(p[1] - q_[1]) for p in P for q_ in P)
            if float(abs(bx - Fr(x))) / diam > 1e-6 and abs(P[2][0] - P[0][0]) > 1e-9 * diam:
                ctx.add_failure("C06.affine_exact.parallelogram_slanted_sign",
                                "_get_fractional_distances_parallellogram(%s, out=(%r, %r)) returns (t, s) = (%r, %r): x is missed by %.3g of the "
                                "cell size (slanted uprights: the code adds x_31*t where the inverse needs it subtracted)" % (
                                    P[:3], x, y, tp, sp, float(abs(bx - Fr(x))) / diam), rp)
        lines.append("(%s, %s)" % (flist(q), flist(exp)))
    shard("c06_kernels", HDR, "chk_kernels", lines, "fractional distances (hand model)", texts)
    shard("c06_genkernels", HDR_GEN, "chk_gen_kernels", lines, "kernels regenerated from /repo", texts)


def check_scalar(ctx, name, cases, out, chk, texts, gen=None):
    lines = []
    for c, o in zip(cases, out):
        v = float.fromhex(o)
        ctx.case((name, tuple(float(x).hex() for x in c)), nontrivial=not isnan(v), sample=smp(ctx, name, {name: list(c), "impl": v}) if not isnan(v) else None)
        ctx.count(name + (":value" if not isnan(v) else ":nan"))
        rp = {"oracle": name, "case": [float(x).hex() for x in c]}
        if name == "quadratic" and not isnan(v):
            a, b, cc, lo, hi = c
            if not lo <= v <= hi:
                ctx.add_failure("C06.quadratic_range", "_solve_quadratic%r = %r outside [%r, %r]" % (c[:3], v, lo, hi), rp)
        if name == "other" and not isnan(v) and not 0 <= v <= 1:
            ctx.add_failure("C06.other_range", "_solve_another_fractional_distance%r = %r outside [0,1]" % (c, v), rp)
        if name == "resample_k":
            p, s, t = c[:4], c[4], c[5]
            if all(math.isfinite(x) for x in c) and 0 <= s <= 1 and 0 <= t <= 1:
                lo, hi = min(p), max(p)
                tol = 8 * 2.0 ** -53 * max(abs(lo), abs(hi))
                if not (lo - tol <= v <= hi + tol):
                    ctx.add_failure("C06.range", "_resample(%r, s=%r, t=%r) = %r outside the range of the corners" % (p, s, t, v), rp)
                if lo == hi and abs(v - lo) > tol:
                    ctx.add_failure("C06.constant", "_resample of a constant %r gives %r" % (lo, v), rp)
                exact = float(bilerp([Fr(x) for x in p], Fr(s), Fr(t)))
                if abs(v - exact) > 16 * 2.0 ** -53 * max(abs(x) for x in p):
                    ctx.add_failure("C06.weights", "_resample(%r, s=%r, t=%r) = %r, the convex combination is %r" % (p, s, t, v, exact), rp)
        lines.append("(%s, %s)" % (flist(c), fhex(v)))
    shard("c06_" + name, HDR, chk, lines, name + " kernel (hand model)", texts)
    if gen:
        shard("c06_gen" + name, HDR_GEN, gen, lines, name + " kernel regenerated from /repo", texts)


def check_corners(ctx, cases, out, texts):
    lines = []
    for c, o in zip(cases, out):
        if "error" in o:
            ctx.add_failure("C06.corners", "_get_four_closest_corners raised %s on %s" % (o, c), {"oracle": "corners", "case": c})
            continue
        for p in range(len(c["out_x"])):
            ox, oy = c["out_x"][p], c["out_y"][p]
            nbs = list(zip(c["in_x"][p], c["in_y"][p], c["index"][p]))
            got = [(float.fromhex(o["pts"][j][0][p]), float.fromhex(o["pts"][j][1][p]), o["index"][p][j]) for j in range(4)]
            found = sum(1 for g in got if not isnan(g[0]))
            ctx.case(("corner", repr(nbs), ox, oy), nontrivial=found > 0, sample=smp(ctx, "corners", {"corners_of": [ox, oy], "neighbours": nbs[:4], "impl": got}) if found == 4 else None)
            ctx.count("corners:found%d" % found)
            # independent oracle: the first neighbour (distance order) in each open quadrant, else NaN + index of neighbour 0
            tests = [lambda x, y: x < ox and y > oy, lambda x, y: x > ox and y > oy, lambda x, y: x < ox and y < oy, lambda x, y: x > ox and y < oy]
            for j, tst in enumerate(tests):
                want = next((nb for nb in nbs if tst(nb[0], nb[1])), None)
                g = got[j]
                ok = (want is not None and same(g[0], want[0]) and same(g[1], want[1]) and g[2] == want[2]) or \
                     (want is None and isnan(g[0]) and isnan(g[1]) and g[2] == nbs[0][2])
                if not ok:
                    ctx.add_failure("C06.corners_surround", "corner %d of target (%r, %r) among %s is %s, the first neighbour of that open quadrant is %s" % (
                        j + 1, ox, oy, nbs, g, want), {"oracle": "corners", "case": c})
            lines.append("(%s, %s, [%s], [%s])" % (fhex(ox), fhex(oy), "; ".join("(%s, %s, (%d))" % (fhex(a), fhex(b), i) for a, b, i in nbs),
                                                   "; ".join("(%s, %s, (%d))" % (fhex(a), fhex(b), i) for a, b, i in got)))
    shard("c06_corners", HDR, "chk_corners", lines, "corner choice", texts, typ="float * float * list (float * float * Z) * list (float * float * Z)")


def blist(l):
    return "[" + "; ".join("true" if b else "false" for b in l) + "]"


def check_slices(ctx, cases, out, texts):
    lines, lines2 = [], []
    for c, o in zip(cases, out):
        if "error" in o:
            ctx.add_failure("C06.slices", "_get_slices/_slice raised %s on %s" % (o, c), {"oracle": "slices", "case": c})
            continue
        shape, valid, index = c["shape"], c["valid"], c["index"]
        pos = [i for i, v in enumerate(valid) if v]
        ncols = shape[1] if len(shape) == 2 else 0
        ctx.case(("slices", repr(c)), sample=smp(ctx, "slices", {"slices_shape": shape, "index": index[:2], "impl_y": o["slices_y"][:2], "impl_x": o["slices_x"][:2]}))
        ctx.count("slices:%dd" % len(shape))
        ok = True
        for i, row in enumerate(index):
            for j, idx in enumerate(row):
                f = pos[idx]
                want = divmod(f, ncols) if ncols else (0, f)
                ok = ok and (o["slices_y"][i][j], o["slices_x"][i][j]) == want and o["mask"][i][j] == 0
        if not ok:
            ctx.add_failure("C06.slices", "look-up tables of %s do not address the compacted pixels: y=%s x=%s" % (c, o["slices_y"], o["slices_x"]),
                            {"oracle": "slices", "case": c})
        lc = "[" + "; ".join("[" + "; ".join("((%d), (%d))" % (a, b) for a, b in zip(ry, rx)) + "]" for ry, rx in zip(o["slices_y"], o["slices_x"])) + "]"
        mk = "[" + "; ".join(blist(r_) for r_ in o["mask"]) + "]"
        size = len(valid)
        lines.append("((%d), (%d), %s, %s, %s, %s)" % (ncols, size, blist(valid), "[" + "; ".join("[" + "; ".join("(%d)" % v for v in r_) + "]" for r_ in index) + "]", lc, mk))
        if "sliced" in o:
            data = c["data"] if o["ndim"] == 3 else [c["data"]]
            nb = len(data)
            npix = len(index)
            four = [[float.fromhex(h) for h in col] for col in o["sliced"]]     # 4 arrays, each (bands*)npix raveled
            exp = []
            for b in range(nb):
                rows = [[four[j][b * npix + i] for j in range(4)] for i in range(npix)]
                exp.append(rows)
                for i in range(npix):
                    for j in range(4):
                        f = pos[index[i][j]]
                        if not same(rows[i][j], data[b][f // ncols][f % ncols]):
                            ctx.add_failure("C06.slices", "_slice%dd returns %r for corner %d of pixel %d, the source pixel holds %r" % (
                                o["ndim"], rows[i][j], j, i, data[b][f // ncols][f % ncols]), {"oracle": "slices", "case": c})
            lines2.append("(%s, %s, %s, %s, %s)" % (
                "[" + "; ".join("[" + "; ".join(flist(r_) for r_ in band) + "]" for band in data) + "]", fhex(c["fill"]), lc, mk,
                "[" + "; ".join("[" + "; ".join(flist(r_) for r_ in band) + "]" for band in exp) + "]"))
    shard("c06_slices", HDR, "chk_slices", lines, "look-up tables", texts,
          typ="Z * Z * list bool * list (list Z) * list (list (Z * Z)) * list (list bool)")
    shard("c06_sliced", HDR, "chk_sliced", lines2, "_slice2d/_slice3d", texts,
          typ="list (list (list float)) * float * list (list (Z * Z)) * list (list bool) * list (list (list float))")


HDR2 = HDR.replace("Model.C06_run.", "Model.BilinearWrap Model.C06_run Model.C06_run2.")


def check_limit(ctx, cases, out, texts):
    """the range clip of the xarray resampler: oracle (inside the data range => unchanged; NaN => fill) + bit-exact model"""
    lines = []
    for c, o in zip(cases, out):
        vals = [v for v in c["data"] if not isnan(v)]
        lo, hi = min(vals), max(vals)
        got = [float.fromhex(h) for h in o]
        ctx.case(("limit", repr(c)), sample=smp(ctx, "limit", {"limit_data_range": [lo, hi], "res": c["res"][:6], "impl": got[:6]}))
        ctx.count("limit:" + ("large_magnitude" if max(abs(lo), abs(hi)) >= 2.0 ** 33 else "small_magnitude"))
        for v, g in zip(c["res"], got):
            rp = {"oracle": "limit", "case": c}
            if isnan(v):
                if not same(g, c["fill"]):
                    ctx.add_failure("C06.range_clip", "_limit_output_values_to_input maps NaN to %r, fill value is %r" % (g, c["fill"]), rp)
            elif lo <= v <= hi and not same(g, v):
                ctx.add_failure("C06.range_clip", "_limit_output_values_to_input changes %r, which lies within the data range [%r, %r], to %r" % (v, lo, hi, g), rp)
            elif (v < lo - 2e-6 - 2e-15 * max(abs(lo), abs(hi)) or v > hi + 2e-6 + 2e-15 * max(abs(lo), abs(hi))) and not same(g, c["fill"]):
                ctx.add_failure("C06.range_clip", "_limit_output_values_to_input keeps %r, far outside the data range [%r, %r]" % (v, lo, hi), rp)
            lines.append("(%s, %s, %s, %s, %s)" % (fhex(lo), fhex(hi), fhex(c["fill"]), fhex(v), fhex(g)))
    shard("c06_limit", HDR2, "chk_limit", lines, "range clip (_limit_output_values_to_input)", texts)


def check_scatter(ctx, cases, out, texts):
    """_reshape_to_target_area of both classes: results go to the target pixels with valid lon/lat, band by band"""
    lines = []
    for c, o in zip(cases, out):
        valid = c["valid"]
        want = []
        for b in c["bands"]:
            it = iter(b)
            want.append([next(it) if v else NAN for v in valid])
        ctx.case(("scatter", repr(c)), nontrivial=not all(valid), sample=smp(ctx, "scatter", {"scatter_valid": valid, "bands": c["bands"], "impl_numpy": o.get("np")}) if not all(valid) and c["ndim"] == 3 else None)
        ctx.count("scatter:%dd:%s" % (c["ndim"], "all_valid" if all(valid) else "some_invalid"))
        for name in ("np", "xr"):
            g = o[name]
            rp = {"oracle": "scatter", "case": c}
            if isinstance(g, dict):
                ctx.add_failure("C06.reshape_to_target." + name, "_reshape_to_target_area raised %s for valid=%s" % (g, valid), rp)
                continue
            got = [[float.fromhex(h) for h in b] for b in g]
            if len(got) != len(want) or any(len(a) != len(b) or not all(same(x, y) for x, y in zip(a, b)) for a, b in zip(got, want)):
                ctx.add_failure("C06.reshape_to_target." + name, "_reshape_to_target_area (%s) gives %s for bands %s and valid flags %s; every band must be "
                                "placed on its own at the valid pixels: %s" % (name, got, c["bands"], valid, want), rp)
            lines.append("(%s, [%s], [%s])" % (blist(valid), "; ".join(flist(b) for b in c["bands"]), "; ".join(flist(b) for b in got)))
    shard("c06_scatter", HDR2, "chk_scatter", lines, "_reshape_to_target_area (both classes)", texts,
          typ="list bool * list (list float) * list (list float)")


def check_resamplers(ctx, cases, obs, texts):
    """the property oracle on the full numpy resampler + the end-to-end pixel correspondence"""
    lines = []
    for ci, (c, o) in enumerate(zip(cases, obs)):
        tpl = c["template"]
        rp = {"oracle": "resample", "case": c}
        if "error" in o:
            ctx.add_failure("C06.resampler_error." + tpl, "the numpy resampler raised %s" % o, rp)
            continue
        if "np_error" in o:
            ctx.add_failure("C06.numpy_resampler_error." + tpl, "NumpyBilinearResampler.get_sample_from_bil_info raised %s (target with %d of %d pixels "
                            "having valid lon/lat)" % (o["np_error"], len(o.get("valid_out", [])), len(o["ox"])), rp)
            ctx.case(("resample", json.dumps(c, sort_keys=True)), nontrivial=True, sample={"resample_" + tpl: "numpy raised", "impl": o["np_error"]})
            ctx.count("resample:" + tpl)
            continue
        W = o["shape_src"][1]
        n = len(o["ox"])
        sx, sy = spv(o["sx"]), spv(o["sy"])
        o["data"] = {k_: spv(v_) for k_, v_ in o["data"].items()}
        msrc = spv(o["mask_src"])
        res = o["np"]
        vout = o["valid_out"]
        if len(vout) != n:
            ctx.count("resample:target_with_invalid_pixels")
            inv = set(range(n)) - set(vout)
            for k_, v_ in res.items():
                if k_ == "masked:fill0":
                    continue            # fill value 0: the pixels without lon/lat hold the fill value
                nb_ = len(v_) // n
                if any(not isnan(v_[b * n + i]) for b in range(nb_) for i in inv):
                    ctx.add_failure("C06.value_at_invalid_target_pixel", "%s field: a target pixel without lon/lat got a value" % k_, rp)
        d_aff, d_rnd, d_const = o["data"]["affine"], o["data"]["random"], o["data"]["const"]
        rng_aff = (o["affine_range"][1] - o["affine_range"][0]) or 1.0
        c0, cx, cy = c["affine"]
        xc, yc = c["centre"]
        produced = sur_n = 0
        for j, i in enumerate(vout):        # the look-up tables cover the target pixels with valid lon/lat only
            x, y = o["ox"][i], o["oy"][i]
            t, s = o["t"][j], o["s"][j]
            vals = {k: res[k][i] for k in ("const", "affine", "random")}
            flat = [ly * W + lx for ly, lx in zip(o["slices_y"][j], o["slices_x"][j])]
            if flat != o["corner_flat"][j]:
                ctx.add_failure("C06.slices.pipeline", "%s (source %s): target pixel %d: the look-up tables address source (line, column) %s, the corner "
                                "indices refer to %s" % (tpl, o["shape_src"], i, list(zip(o["slices_y"][j], o["slices_x"][j])),
                                                          [divmod(f, W) for f in o["corner_flat"][j]]), dict(rp, pixel=i))
                continue
            # masked-array input: a masked corner never contributes; without masked corners the result is that of the plain data
            for mk in [k_ for k_ in res if k_.startswith("masked:")]:
                v = res[mk][i]
                hit = any(msrc[f] for f in flat)
                want_ = NAN if hit or isnan(res["random"][i]) else res["random"][i]
                if mk == "masked:fill0" and not hit and isnan(res["random"][i]):
                    want_ = 0.0
                if not same(v, want_):
                    ctx.add_failure("C06.masked_input", "%s: %s: target pixel %d gets %r from masked-array data; its corner pixels %s have mask %s and "
                                    "visible/hidden values %s; required %r (a masked corner must not contribute)" % (
                                        tpl, mk, i, v, flat, [msrc[f] for f in flat], [o["data"]["random"][f] for f in flat], want_), dict(rp, pixel=i))
            if "masked:3d" in res and not same(res["masked:3d"][n + i], res["affine"][i]):
                ctx.add_failure("C06.masked_input", "%s: the unmasked band of 3-D masked data gives %r at pixel %d, plain data %r" % (
                    tpl, res["masked:3d"][n + i], i, res["affine"][i]), dict(rp, pixel=i))
            if isnan(t) or isnan(s):
                for k, v in vals.items():
                    if not isnan(v):
                        ctx.add_failure("C06.value_without_fractions", "pixel %d has value %r for the %s field although (t, s) is NaN" % (i, v, k), dict(rp, pixel=i))
                ctx.count("pixel:nan")
                continue
            produced += 1
            if not (0 <= t <= 1 and 0 <= s <= 1):
                ctx.add_failure("C06.st_range", "pixel %d: bilinear_t, bilinear_s = %r, %r outside [0,1]" % (i, t, s), dict(rp, pixel=i))
                continue
            if any(o["mask"][j]):
                ctx.count("pixel:masked_corner")
                continue
            P = [(sx[f], sy[f]) for f in flat]
            sur = surrounded(P, x, y)
            ctx.count("pixel:value:" + ("surrounded" if sur else "not_surrounded"))
            sur_n += sur
            if not sur:
                ctx.add_failure("C06.surround.value_with_missing_corner",
                                "%s: target pixel %d at (%r, %r) gets values %s from source pixels at %s, which do not surround it (an open quadrant "
                                "has no neighbour; the parallelogram case answers from three corners and the fourth weight s*t = %r multiplies the "
                                "datum of the nearest neighbour)" % (tpl, i, x, y, vals, P, s * t), dict(rp, pixel=i))
            for k, d in (("const", d_const), ("affine", d_aff), ("random", d_rnd)):
                v = vals[k]
                corners = [d[f] for f in flat]
                lo, hi = min(corners), max(corners)
                scale = max(abs(lo), abs(hi), 1e-300)
                if isnan(v):
                    ctx.add_failure("C06.value_missing", "pixel %d: (t, s) = (%r, %r) is valid but the %s field gives NaN" % (i, t, s, k), dict(rp, pixel=i))
                    continue
                # convex combination of the four chosen source pixels (independent recomputation, exact rationals)
                exact = float(bilerp([Fr(z) for z in corners], Fr(s), Fr(t)))
                if abs(v - exact) > 16 * 2.0 ** -53 * scale:
                    ctx.add_failure("C06.weights", "pixel %d (%s field): value %r is not the convex combination %r of its corner pixels %s with s=%r t=%r" % (
                        i, k, v, exact, corners, s, t), dict(rp, pixel=i))
                if not (lo - 8 * 2.0 ** -53 * scale <= v <= hi + 8 * 2.0 ** -53 * scale):
                    ctx.add_failure("C06.range", "pixel %d (%s field): value %r outside the range [%r, %r] of its four corner pixels" % (i, k, v, lo, hi), dict(rp, pixel=i))
                if k == "const" and abs(v - c["const"]) > 8 * 2.0 ** -53 * abs(c["const"]):
                    ctx.add_failure("C06.constant", "pixel %d: constant field %r resampled to %r" % (i, c["const"], v), dict(rp, pixel=i))
            # integer imagery: same convex combination as for the same numbers held in float64, within the corner range
            for dt, d in o.get("int_data", {}).items():
                v, ref = res["int:" + dt][i], res["intref:" + dt][i]
                corners = [d[f] for f in flat]
                lo, hi = min(corners), max(corners)
                exact = float(bilerp([Fr(z) for z in corners], Fr(s), Fr(t)))
                if not (lo - 1e-9 <= v <= hi + 1e-9) or abs(v - exact) > 1e-9 * max(1.0, abs(exact)) or abs(v - ref) > 1e-9 * max(1.0, abs(ref)):
                    ctx.add_failure("C06.range.float32_dtype" if dt == "float32" else "C06.range.integer_dtype", "%s data: pixel %d gets %r; its corner pixels hold %s (s=%r, t=%r): the convex combination is "
                                    "%r, the float64 copy of the same data gives %r" % (dt, i, v, corners, s, t, exact, ref), dict(rp, pixel=i))
            if sur:
                want = c0 + cx * (x - xc) + cy * (y - yc)
                err = abs(vals["affine"] - want) / rng_aff
                if err > 1e-6:
                    cls, bnd = attribute(P, x, y, [d_aff[f] for f in flat], s, t, abs(vals["affine"] - want))
                    ctx.count("affine_alarm:" + (cls or "unexplained"))
                    key = "C06.affine_exact" + ("." + cls if cls else "")
                    ctx.add_failure(key, "%s: target pixel %d at (%r, %r) is surrounded by source pixels %s; the affine field gives %r, the field at the "
                                    "target is %r (error %.3g of the field's range; (t, s) = (%r, %r)) [%s; rounding bound of the documented formulas %.3g of the range]" % (
                                        tpl, i, x, y, P, vals["affine"], want, err, t, s, cls or "not explained by rounding", bnd / rng_aff), dict(rp, pixel=i))
        ctx.case(("resample", json.dumps(c, sort_keys=True)), nontrivial=produced > 0,
                 sample=smp(ctx, "resample_" + tpl, {"resample_" + tpl: {"source": c["source"], "target": c["target"], "radius": c["radius"],
                                                                     "neighbours": c["neighbours"]},
                                              "pixels_with_value": produced, "surrounded": sur_n, "first_values_affine": res["affine"][:4],
                                              "t_s_first": [o["t"][:2], o["s"][:2]]}, 1)
                 if tpl in ("cross_proj", "swath_jitter", "invalid_target", "degree_fan", "integer_data") else None)
        ctx.count("resample:" + tpl)
        # 3-D data = the three 2-D results; one-call API = two-step API
        st = res["stack"]
        for b, k in enumerate(("const", "affine", "random")):
            if not all(same(a, bb) for a, bb in zip(st[b * n:(b + 1) * n], res[k])):
                ctx.add_failure("C06.3d_vs_2d", "band %d of the 3-D result differs from the 2-D result of the %s field" % (b, k), rp)
        if "resample_api" in res and not all(same(a, bb) for a, bb in zip(res["resample_api"], res["random"])):
            ctx.add_failure("C06.resample_api", "NumpyBilinearResampler.resample differs from get_bil_info + get_sample_from_bil_info", rp)
        # memory layout independence: the same logical lon/lat and data arrays as C-contiguous copies give the same result
        lay_ = c["source"].get("layout", "C")
        ctx.count("layout:" + lay_)
        if "np_c" in o:
            for k_ in ("t", "s", "const", "affine", "random"):
                got_ = o[k_] if k_ in ("t", "s") else res[k_]
                bad = [i for i, (a, bb) in enumerate(zip(got_, o["np_c"][k_])) if not same(a, bb)]
                if bad:
                    ctx.add_failure("C06.layout_independence", "%s: source lon/lat and data passed as %s arrays: %s differs from the result for C-contiguous "
                                    "copies of the same arrays at %d of %d entries, e.g. [%d]: %r vs %r" % (
                                        tpl, {"F": "Fortran-ordered", "T": "transposed-view", "strided": "strided-view", "neg": "negative-stride"}[lay_],
                                        "bilinear_" + k_ if k_ in ("t", "s") else "the %s field" % k_, len(bad), len(got_), bad[0], got_[bad[0]],
                                        o["np_c"][k_][bad[0]]), rp)
                    break
        # histories on one object
        for k_, ok_ in o.get("history", {}).items():
            ctx.count("history:" + k_)
            if not ok_:
                ctx.add_failure("C06.history." + k_, "%s: a second get_sample_from_bil_info on the same resampler object: %s is False" % (tpl, k_), rp)
        # legacy (deprecated) entry points give what the class gives
        lg = o.get("legacy")
        if lg is not None:
            ctx.count("legacy_api")
            if "error" in lg:
                ctx.add_failure("C06.legacy_api", "%s: legacy bilinear functions raised %s" % (tpl, lg), rp)
            else:
                if not (all(same(a, bb) for a, bb in zip(lg["t"], o["t"])) and all(same(a, bb) for a, bb in zip(lg["s"], o["s"]))):
                    ctx.add_failure("C06.legacy_api", "%s: get_bil_info returns other (t, s) than NumpyBilinearResampler" % tpl, rp)
                for k_ in ("resample_bilinear", "const", "affine", "random"):
                    ref_ = res["random" if k_ == "resample_bilinear" else k_]
                    bad = [i for i, (a, bb) in enumerate(zip(lg[k_], ref_)) if not same(a, bb)]
                    if bad:
                        clip = k_ == "const" and abs(c["const"]) >= 2.0 ** 33 and all(isnan(lg[k_][i]) for i in bad)
                        ctx.add_failure("C06.legacy_api" + (".range_clip_large_magnitude" if clip else ""),
                                        "%s: legacy %s gives %r at pixel %d, NumpyBilinearResampler %r (%d of %d pixels differ)" % (
                                            tpl, "resample_bilinear" if k_ == "resample_bilinear" else "get_sample_from_bil_info(%s field)" % k_,
                                            lg[k_][bad[0]], bad[0], ref_[bad[0]], len(bad), len(ref_)), rp)
        # end-to-end correspondence: neighbours (kd-tree + PROJ = oracles) -> model pixel, for a sample of pixels
        if "nb_x" in o:
            k = c["neighbours"]
            dtab = o["valid_data_random"]
            for i in c["pixel_sample"]:
                j = o["valid_out"].index(i) if i in o["valid_out"] else None
                if j is None:
                    continue
                nbs = "; ".join("(%s, %s, (%d))" % (fhex(a), fhex(b), ix) for a, b, ix in
                                zip(o["nb_x"][j * k:(j + 1) * k], o["nb_y"][j * k:(j + 1) * k], o["nb_i"][j * k:(j + 1) * k]))
                lines.append("(%d%%nat, [%s], %s, %s, [%s; %s; %s])" % (ci, nbs, fhex(o["ox"][i]), fhex(o["oy"][i]),
                                                                       fhex(o["t"][j]), fhex(o["s"][j]), fhex(res["random"][i])))
            texts_data = "Definition dtab_%d : list float := %s.\n" % (ci, flist(dtab))
            lines.append(("DATA", ci, texts_data))
    # assemble the pixel case files: data tables as separate definitions
    tabs = [l for l in lines if isinstance(l, tuple)]
    pix = [l for l in lines if not isinstance(l, tuple)]
    ctx.traces += len(pix)
    if pix:
        pre = HDR + "".join(t[2] for t in tabs)
        pre += "Definition dtab (i : nat) : list float := match i with %s | _ => [] end.\n" % " | ".join("%d%%nat => dtab_%d" % (t[1], t[1]) for t in tabs)
        pre += ("Definition chkp (c : nat * list (float * float * Z) * float * float * list float) : bool :=\n"
                "  let '(ci, l, ox, oy, exp) := c in\n"
                "  let '(c1, c2, c3, c4) := four_corners F64 ox oy l in\n"
                "  let '(t, s) := fractional_distances F64 (nb_x c1, nb_y c1) (nb_x c2, nb_y c2) (nb_x c3, nb_y c3) (nb_x c4, nb_y c4) ox oy in\n"
                "  fl_eqb [t; s; pixel F64 (fun i => znth PrimFloat.nan (dtab ci) i) l ox oy] exp.\n")
        for kk in range(0, len(pix), 150):
            part = pix[kk:kk + 150]
            texts.append(("c06_pixels_%03d" % (kk // 150), pre + "Definition cases := [%s].\nEval vm_compute in (bad chkp cases).\n" % ";\n".join(part),
                          part, "one pixel end to end (neighbours -> corners -> (t, s) -> value) vs NumpyBilinearResampler"))


def check_xarray(ctx, rcases, robs, xcases, xobs, envs):
    """numpy == xarray/dask, bit for bit incl. the NaN pattern, for every data chunking and PYTROLL_CHUNK_SIZE"""
    # same process as the numpy run: default PYTROLL_CHUNK_SIZE
    runs = [("default", rcases, robs)] + [(e["PYTROLL_CHUNK_SIZE"], xcases, xo) for e, xo in zip(envs, xobs)]
    for env, cases, obs in runs:
        for ci, (c, o) in enumerate(zip(cases, obs)):
            if "error" in o or "xr" not in o:
                if "error" in o and "error" not in robs[ci]:
                    ctx.add_failure("C06.xarray_error", "the xarray resampler raised %s (PYTROLL_CHUNK_SIZE=%s) where numpy succeeds" % (o, env),
                                    {"oracle": "xarray", "case": c, "env": env})
                continue
            ref = robs[ci].get("np")
            for chunks, fields in o["xr"].items():
                ctx.case(("xr", env, chunks, json.dumps(c, sort_keys=True)), sample=smp(ctx, "xarray", {"xarray_chunks": chunks, "PYTROLL_CHUNK_SIZE": env, "template": c["template"]}, 1) if env != "default" else None)
                ctx.count("xarray:chunk_size=%s" % env)
                rpx = {"oracle": "xarray", "case": c, "env": env, "chunks": chunks}
                # every band of the 3-D result is the 2-D result of that band (also on targets with invalid lon/lat pixels)
                n = len(fields["const"])
                for b, k in enumerate(("const", "affine", "random")):
                    band = fields["stack"][b * n:(b + 1) * n]
                    bad = [i for i, (a, bb) in enumerate(zip(band, fields[k])) if not same(a, bb)]
                    if len(fields["stack"]) != 3 * n or bad:
                        ctx.add_failure("C06.3d_vs_2d.xarray", "%s: band %d (%s field) of the 3-D xarray result differs from the 2-D xarray result of that band at "
                                        "%d of %d pixels, e.g. pixel %d: %r vs %r (data chunks %s, PYTROLL_CHUNK_SIZE=%s)" % (
                                            c["template"], b, k, len(bad), n, bad[0] if bad else -1, band[bad[0]] if bad else None,
                                            fields[k][bad[0]] if bad else None, chunks, env), dict(rpx, field="stack"))
                bad = [i for i, v in enumerate(fields["const"]) if not isnan(v) and abs(v - c["const"]) > 8 * 2.0 ** -53 * abs(c["const"])]
                if bad:
                    ctx.add_failure("C06.constant", "xarray: constant field %r resampled to %r at pixel %d" % (c["const"], fields["const"][bad[0]], bad[0]), dict(rpx, field="const"))
                # lazy results evaluated together in one dask.compute equal the stand-alone evaluation of each
                for jk in [k_ for k_ in fields if k_.startswith("joint[")]:
                    v = fields.pop(jk)
                    base = fields[jk.split(":", 1)[1]]
                    bad = [i for i, (a, bb) in enumerate(zip(v, base)) if not same(a, bb)]
                    ctx.count("xarray:joint_compute")
                    if len(v) != len(base) or bad:
                        ctx.add_failure("C06.xarray_joint_compute", "%s: %s field resampled lazily with one XArrayBilinearResampler and evaluated together with "
                                        "the other fields in ONE dask.compute (inputs named %s): %r at pixel %d, evaluated alone %r (%d of %d pixels differ; "
                                        "data chunks %s, PYTROLL_CHUNK_SIZE=%s)" % (
                                            c["template"], jk.split(":", 1)[1], jk[6:jk.index("]")], v[bad[0]] if bad else None, bad[0] if bad else -1,
                                            base[bad[0]] if bad else None, len(bad), len(base), chunks, env), dict(rpx, field=jk))
                reuse = fields.pop("reuse:affine", None)
                if reuse is not None and not all(same(a, bb) for a, bb in zip(reuse, fields["affine"])):
                    ctx.add_failure("C06.history.xarray_reuse", "%s: the same XArrayBilinearResampler object used again (2-D after 3-D data) gives another "
                                    "result than a fresh one" % c["template"], dict(rpx, field="reuse"))
                if ref is None:
                    continue
                for k, v in fields.items():
                    r = ref[k]
                    bad = [i for i, (a, b) in enumerate(zip(v, r)) if not same(a, b)]
                    if len(v) != len(r) or bad:
                        i = bad[0] if bad else -1
                        # attribution: xarray's extra range clip (absolute 1e-6 margin) on data whose ulp exceeds that margin
                        clip = k in ("const", "stack") and abs(c["const"]) >= 2.0 ** 33 and \
                            all(isnan(v[j]) and not isnan(r[j]) and abs(r[j]) >= 2.0 ** 33 for j in bad)
                        ctx.add_failure("C06.numpy_vs_xarray" + (".range_clip_large_magnitude" if clip else ""), "%s field, data chunks %s, PYTROLL_CHUNK_SIZE=%s: xarray gives %r at flat pixel %d, numpy %r (%d of %d differ)" % (
                            k, chunks, env, v[i] if bad else len(v), i, r[i] if bad else len(r), len(bad), len(r)),
                            {"oracle": "xarray", "case": c, "env": env, "chunks": chunks, "field": k})


def replay(ctx, data):
    """Re-run one recorded failing input on the current implementation; True iff it still fails."""
    case = data.get("case", {})
    o = case.get("oracle")
    n0 = len(ctx.failures)
    if o == "kernels":
        q = [float.fromhex(h) for h in case["case"]]
        k = ctx.impl(IMPL, {"kernels": [case["case"]]})["kernels"]
        check_kernels(ctx, [(case.get("kind", "replay"), q)], k, [])
    elif o in ("quadratic", "other", "resample_k"):
        c = tuple(float.fromhex(h) for h in case["case"])
        out = ctx.impl(IMPL, {o: [case["case"]]})[o]
        check_scalar(ctx, o, [c], out, "", [])
    elif o == "corners":
        c = case["case"]
        hx = lambda l: [float(v).hex() for v in l]   # noqa: E731
        out = ctx.impl(IMPL, {"corners": [{"k": c["k"], "in_x": [hx(x) for x in c["in_x"]], "in_y": [hx(x) for x in c["in_y"]],
                                            "out_x": hx(c["out_x"]), "out_y": hx(c["out_y"]), "index": c["index"]}]})["corners"]
        check_corners(ctx, [c], out, [])
    elif o == "slices":
        c = case["case"]
        out = ctx.impl(IMPL, {"slices": [dict(c, fill=float(c["fill"]).hex()) if "fill" in c else c]})["slices"]
        check_slices(ctx, [c], out, [])
    elif o == "limit":
        c = case["case"]
        hx = lambda l: [float(v).hex() for v in l]   # noqa: E731
        out = ctx.impl(IMPL, {"limit": [dict(c, data=hx(c["data"]), res=hx(c["res"]), fill=float(c["fill"]).hex())]})["limit"]
        check_limit(ctx, [c], out, [])
    elif o == "scatter":
        c = case["case"]
        out = ctx.impl(IMPL, {"scatter": [dict(c, bands=[[float(v).hex() for v in b] for b in c["bands"]])]})["scatter"]
        check_scatter(ctx, [c], out, [])
    elif o == "resample":
        c = case["case"]
        out = ctx.impl(IMPL, {"resample": [c]})["resample"]
        check_resamplers(ctx, [c], out, [])
        check_xarray(ctx, [c], out, [], [], [])
    elif o == "xarray":
        c = case["case"]
        ref = ctx.impl(IMPL, {"resample": [dict(c, want_xarray=False)]})["resample"]
        env = case.get("env", "default")
        xo = ctx.impl(IMPL, {"resample": [dict(c, want_numpy=False, chunkings=[json.loads(case["chunks"])] if "chunks" in case else c["chunkings"])]},
                      extra_env=None if env == "default" else {"PYTROLL_CHUNK_SIZE": env})["resample"]
        check_xarray(ctx, [c], ref, [c], [xo], [{"PYTROLL_CHUNK_SIZE": env}])
    return any(f.key == data.get("key") for f in ctx.failures[n0:]) if data.get("key") else len(ctx.failures) > n0
