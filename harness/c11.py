"""C11 — cropping a source to a target never discards a pixel the target needs.

run(ctx):
  1. seeded generator of (source, target) area pairs: CRS pool (laea, stere N/S, longlat, merc, eqc, ortho, lcc, geos full
     and partial disk), scenes (Europe, equator, high north, south, antimeridian side), containment either way, partial
     overlap, disjoint, one-pixel-thick targets (1,n)/(n,1)/(1,1), flipped extents, dyadic same-CRS pairs (exact ties),
     chunked dask swath sources; plus a scalar stream for the kernels (bounds incl. negative / beyond the grid / inf).
  2. the real implementation: harness/impl/c11.py (create_slicer(...).get_slices() instrumented through its own
     methods, resampler.crop_source_area, AreaDefinition.get_area_slices / crop_around, SwathSlicer).
  3. property oracle (this file): EVERY target pixel centre is mapped into the source grid (fractional index as
     reported by the driver = pyproj + the source's own array-coordinate map); a target pixel is "on the source"
     iff -0.5 <= col < W-0.5 and -0.5 <= row < H-0.5 (for geos sources additionally inside the Earth disk shrunk
     by the library's safety margin); the containing (= nearest) source pixel of every such pixel must be inside
     the slices; "non-overlapping" may be reported only if there is no such pixel; any other exception is a crash
     and never counts as "non-overlapping"; same-CRS get_area_slices must cover the target extent and exceed the
     exact cover (exact rationals) by at most one pixel per side.
  4. correspondence: coq/Model/Crop.v (binary64 instance for the grid map, Z for the slices) evaluated by vm_compute
     on the shapely bbox + validity / intersection bits taken from the implementation; exact integers.
"""
import base64
import math
from fractions import Fraction

import numpy as np

from .common import fhex, ints

PROP_FILE = "Properties/C11.v"
GEN = ["GenSubset", "GenC11", "GenC19", "GenC11imp"]
RUN_FILES = ["Model/C11_run.v", "Model/C11_imp_run.v"]

NONOVERLAP = ("IncompatibleAreas", "InvalidArea")
GEOS_H = 35785831.0
GEOS_A = 6378169.0
GEOS_B = 6356583.8
GEOS_MARGIN = 0.00011    # rad: the library's 0.0001 rad safety margin + the chord error of its 360-gon


# ------------------------------------------------------------------ generator
def _proj_centre(proj, lon, lat):
    from pyproj import Proj
    x, y = Proj(proj)(lon, lat)
    return x, y


def crs_of(kind, lon_c, lat_c):
    lon0 = round(lon_c)
    lat0 = round(lat_c)
    if kind == "laea":
        return "+proj=laea +lat_0=%d +lon_0=%d +ellps=WGS84" % (lat0, lon0)
    if kind == "stere_n":
        return "+proj=stere +lat_0=90 +lon_0=%d +lat_ts=60 +ellps=WGS84" % lon0
    if kind == "stere_s":
        return "+proj=stere +lat_0=-90 +lon_0=%d +lat_ts=-60 +ellps=WGS84" % lon0
    if kind == "longlat":
        return "+proj=longlat +datum=WGS84 +no_defs"
    if kind == "merc":
        return "+proj=merc +lon_0=%d +ellps=WGS84" % lon0
    if kind == "eqc":
        return "+proj=eqc +lon_0=%d +ellps=WGS84" % lon0
    if kind == "ortho":
        return "+proj=ortho +lat_0=%d +lon_0=%d +ellps=WGS84" % (lat0, lon0)
    if kind == "lcc":
        s = 1 if lat_c >= 0 else -1
        return "+proj=lcc +lat_1=%d +lat_2=%d +lat_0=%d +lon_0=%d +ellps=WGS84" % (s * 30, s * 60, s * 45, lon0)
    if kind == "geos":
        return "+proj=geos +h=%r +lon_0=%d +a=%r +b=%r +units=m" % (GEOS_H, lon0, GEOS_A, GEOS_B)
    raise KeyError(kind)


def mk_area(r, kind, lon_c, lat_c, span_m, shape, flip=False, crs_centre=None):
    """An area of CRS family `kind` centred on (lon_c, lat_c) spanning about span_m on the ground."""
    cl, ct = crs_centre if crs_centre else (lon_c, lat_c)
    proj = crs_of(kind, cl, ct)
    h, w = shape
    if kind == "longlat":
        cx, cy = lon_c, lat_c
        half = span_m / 111000.0 / 2.0
        half_x = half / max(0.2, math.cos(math.radians(min(abs(lat_c), 80))))
        half_y = half
        half_y = min(half_y, 44.0)
        cy = max(-89.5 + half_y, min(89.5 - half_y, cy))       # a well-formed longlat area stays between the poles
    else:
        cx, cy = _proj_centre(proj, lon_c, lat_c)
        if not (math.isfinite(cx) and math.isfinite(cy)):
            return None
        half_x = half_y = span_m / 2.0
    # non-square pixels now and then
    if r.random() < 0.25:
        half_y *= r.choice([0.5, 0.75, 1.5]) if kind != "longlat" else r.choice([0.5, 0.75])
    ext = [cx - half_x, cy - half_y, cx + half_x, cy + half_y]
    if flip:
        ext = [ext[0], ext[3], ext[2], ext[1]] if flip == "y" else [ext[2], ext[1], ext[0], ext[3]]
    return {"proj": proj, "shape": [h, w], "extent": [float(v) for v in ext], "kind": kind}


def geos_area(r, lon0, part=None, n=None):
    proj = crs_of("geos", lon0, 0)
    full = 5568748.0
    n = n or r.choice([48, 64, 100, 160])
    if part is None:
        ext = [-full, -full, full, full]
        shape = [n, n]
    else:
        # partial disk: a window of the full-disk grid
        fx0, fy0, fx1, fy1 = part
        ext = [-full + 2 * full * fx0, -full + 2 * full * fy0, -full + 2 * full * fx1, -full + 2 * full * fy1]
        shape = [max(2, int(round(n * (fy1 - fy0)))), max(2, int(round(n * (fx1 - fx0))))]
    return {"proj": proj, "shape": shape, "extent": ext, "kind": "geos"}


SCENES = [(10.0, 50.0), (0.0, 0.0), (20.0, 75.0), (-60.0, -30.0), (150.0, 40.0), (-100.0, 60.0), (30.0, -70.0)]
PROJECTED = ["laea", "stere_n", "stere_s", "merc", "eqc", "ortho", "lcc", "longlat"]


def pick_kind(r, lat):
    while True:
        k = r.choice(PROJECTED)
        if k == "stere_n" and lat < 0:
            continue
        if k == "stere_s" and lat > 0:
            continue
        if k == "merc" and abs(lat) > 78:
            continue
        if k == "lcc" and abs(lat) < 15:
            continue
        return k


def well_formed(a):
    """every border point of the extent has finite lon/lat and projects back onto itself (no area beyond the apex of a
    cone, beyond the limb of an orthographic hemisphere, beyond a pole); geos disks are exempt (space corners)"""
    if a is None:
        return False
    if a["kind"] == "geos":
        return True
    from pyproj import Proj
    p = Proj(a["proj"])
    x0, y0, x1, y1 = a["extent"]
    t = np.linspace(0.0, 1.0, 9)
    xs = np.concatenate([x0 + (x1 - x0) * t, x0 + (x1 - x0) * t, np.full(9, x0), np.full(9, x1), [0.5 * (x0 + x1)]])
    ys = np.concatenate([np.full(9, y0), np.full(9, y1), y0 + (y1 - y0) * t, y0 + (y1 - y0) * t, [0.5 * (y0 + y1)]])
    with np.errstate(all="ignore"):
        lon, lat = p(xs, ys, inverse=True)
        if not (np.isfinite(lon).all() and np.isfinite(lat).all()):
            return False
        if a["kind"] == "longlat":
            return bool((np.abs(ys) <= 90).all())
        bx, by = p(lon, lat)
    tol = 1e-6 * max(abs(x1 - x0), abs(y1 - y0))
    return bool(np.isfinite(bx).all() and np.isfinite(by).all() and np.abs(bx - xs).max() <= tol and np.abs(by - ys).max() <= tol)


def thin_shape(r, n=None):
    n = n or r.randint(2, 24)
    return r.choice([(1, n), (n, 1), (1, 1)])


def corpus_cases():
    """fixed inputs replayed on every run: the witnesses of the known findings and of the repaired defect (573b6cd2)"""
    G = "+proj=geos +h=35785831.0 +lon_0=%d +a=6378169.0 +b=6356583.8 +units=m"
    F = 5568748.0
    LL = "+proj=longlat +datum=WGS84 +no_defs"
    LAEA = "+proj=laea +lat_0=50 +lon_0=10 +ellps=WGS84"

    def a(proj, shape, ext, kind):
        return {"proj": proj, "shape": list(shape), "extent": [float(v) for v in ext], "kind": kind}
    out = [
        ("slicer", a(LL, (30, 30), (150, 30, 180, 60), "longlat"),
         a("+proj=laea +lat_0=45 +lon_0=178 +ellps=WGS84", (10, 10), (-5e5, -5e5, 5e5, 5e5), "laea")),
        ("slicer", a(G % 140, (64, 64), (-F, -F, F, F), "geos"), a(LL, (10, 10), (130, -30, 140, -20), "longlat")),
        ("slicer", a(G % 0, (100, 100), (-F, -F, F, F), "geos"),
         a("+proj=ortho +lat_0=40 +lon_0=7 +ellps=WGS84", (12, 12), (-750000, -750000, 750000, 750000), "ortho")),
        ("slicer", a(G % 9, (22, 29), (-3341248.8, 0, 3341248.8, 5011873.2), "geos"),
         a("+proj=stere +lat_0=90 +lon_0=-14 +lat_ts=60 +ellps=WGS84", (16, 16), (-155325, -11333918, 44675, -11133918), "stere_n")),
        ("gas", a("+proj=laea +lat_0=60 +lon_0=10 +ellps=WGS84", (30, 30), (-1.5e6, -1.5e6, 1.5e6, 1.5e6), "laea"),
         a(LL, (15, 40), (0, 55, 40, 70), "longlat")),
    ]
    # one-pixel-thick targets: non-overlap / AttributeError before 573b6cd2
    src = a(LAEA, (100, 100), (-500000, -500000, 500000, 500000), "laea")
    geos = a(G % 0, (128, 128), (-F, -F, F, F), "geos")
    for h, w in ((1, 20), (20, 1), (1, 1)):
        thin = a(LAEA, (h, w), (-100000, -100000, -100000 + w * 10000, -100000 + h * 10000), "laea")
        out.append(("slicer", src, thin))
        out.append(("slicer", geos, thin))
        out.append(("slicer", src, a("+proj=stere +lat_0=90 +lon_0=5 +lat_ts=60 +ellps=WGS84", (h, w),
                                     (200000, -4300000, 200000 + w * 10000, -4300000 + h * 10000), "stere_n")))
        out.append(("slicer", a(LL, (40, 40), (0, 40, 20, 60), "longlat"), thin))    # units differ: no buffer
    return [{"api": api, "src": s_, "tgt": t_, "cls": ("thin_" if min(t_["shape"]) == 1 else "") + "corpus", "crop": True}
            for api, s_, t_ in out]


def gen_pairs(ctx):
    """List of cases for the area APIs."""
    r = ctx.rng
    cases = corpus_cases()

    def add(api, src, tgt, cls, **kw):
        if not (well_formed(src) and well_formed(tgt)):
            ctx.count("generator:ill_formed_area_discarded")
            return
        c = {"api": api, "src": src, "tgt": tgt, "cls": cls}
        c.update(kw)
        c["history"] = (len(cases) % 2 == 0)      # every other request is repeated through the caches at the end
        if api == "gas" and str(src["proj"]) != str(tgt["proj"]):
            # the different-CRS branch is also asked for slices of a length divisible by N (shape_divisible_by)
            c["divisible"] = sorted(r.sample([2, 3, 4, 5, 7, 8, 16], 3))
        cases.append(c)

    n_general = ctx.n(70, 700)
    for i in range(n_general):
        lon, lat = r.choice(SCENES)
        lon += r.uniform(-5, 5)
        lat += r.uniform(-4, 4)
        sk = pick_kind(r, lat)
        tk = pick_kind(r, lat)
        sspan = r.choice([4e5, 1e6, 2e6, 3e6])
        sshape = (r.randint(6, 40), r.randint(6, 40))
        rel = r.choice(["inside", "inside", "partial", "partial", "contains", "disjoint", "corner"])
        if rel == "inside":
            tspan = sspan * r.uniform(0.05, 0.6)
            off = r.uniform(0, 0.3) * sspan
        elif rel == "partial":
            tspan = sspan * r.uniform(0.3, 1.0)
            off = r.uniform(0.4, 0.8) * sspan
        elif rel == "corner":
            tspan = sspan * r.uniform(0.1, 0.5)
            off = r.uniform(0.62, 0.78) * sspan
        elif rel == "contains":
            tspan = sspan * r.uniform(1.2, 2.5)
            off = r.uniform(0, 0.2) * sspan
        else:
            tspan = sspan * r.uniform(0.1, 0.5)
            off = r.uniform(1.2, 3.0) * sspan
        ang = r.uniform(0, 2 * math.pi) if rel != "corner" else (math.pi / 4 + r.choice([0, 1, 2, 3]) * math.pi / 2)
        dlat = off * math.sin(ang) / 111000.0
        dlon = off * math.cos(ang) / 111000.0 / max(0.15, math.cos(math.radians(min(abs(lat), 85))))
        tlat = max(-88.0, min(88.0, lat + dlat))
        tlon = lon + dlon
        thin = r.random() < 0.22
        tshape = thin_shape(r) if thin else (r.randint(2, 30), r.randint(2, 30))
        flip_s = r.choice([False] * 10 + ["y", "x"])
        src = mk_area(r, sk, lon, lat, sspan, sshape, flip=flip_s)
        tgt = mk_area(r, tk, tlon, tlat, tspan, tshape, crs_centre=(lon, lat) if r.random() < 0.5 else None)
        api = r.choice(["slicer", "slicer", "slicer", "gas"])
        add(api, src, tgt, ("thin_" if thin else "") + rel, crop=(r.random() < 0.3))

    # high-curvature reprojections: polar stere <-> longlat, laea, ortho near the pole
    for i in range(ctx.n(24, 240)):
        north = r.random() < 0.6
        s = 1 if north else -1
        lat = s * r.uniform(62, 86)
        lon = r.uniform(-180, 180)
        kinds = ["stere_n" if north else "stere_s", "longlat", "laea", "ortho"]
        sk = r.choice(kinds)
        tk = r.choice([k for k in kinds if k != sk])
        sspan = r.choice([1e6, 2e6, 3e6])
        src = mk_area(r, sk, lon, lat, sspan, (r.randint(10, 40), r.randint(10, 40)))
        thin = r.random() < 0.2
        tshape = thin_shape(r) if thin else (r.randint(2, 30), r.randint(2, 30))
        tgt = mk_area(r, tk, lon + r.uniform(-20, 20), max(-88, min(88, lat + r.uniform(-6, 6))),
                      sspan * r.uniform(0.1, 1.2), tshape)
        add(r.choice(["slicer", "slicer", "gas"]), src, tgt, ("thin_" if thin else "") + "curved")

    # geostationary sources: full and partial disk
    for i in range(ctx.n(40, 400)):
        lon0 = r.choice([0, 0, 9, -75, 140])
        part = None if r.random() < 0.6 else r.choice([(0.2, 0.5, 0.8, 0.95), (0.0, 0.0, 0.5, 0.5), (0.3, 0.3, 0.7, 0.7),
                                                       (0.55, 0.1, 1.0, 0.6), (0.1, 0.6, 0.9, 1.0)])
        src = geos_area(r, lon0, part)
        where = r.choice(["centre", "mid", "limb", "limb", "off"])
        rad = {"centre": r.uniform(0, 15), "mid": r.uniform(15, 50), "limb": r.uniform(55, 80), "off": r.uniform(85, 140)}[where]
        ang = r.uniform(0, 2 * math.pi)
        tlat = max(-88, min(88, rad * math.sin(ang)))
        tlon = lon0 + rad * math.cos(ang)
        tk = pick_kind(r, tlat)
        thin = r.random() < 0.3
        tshape = thin_shape(r) if thin else (r.randint(2, 30), r.randint(2, 30))
        tgt = mk_area(r, tk, tlon, tlat, r.choice([2e5, 6e5, 1.5e6, 4e6]), tshape)
        add(r.choice(["slicer", "slicer", "slicer", "gas"]), src, tgt, ("thin_" if thin else "") + "geos_" + where)

    # same-CRS dyadic pairs (ties exactly on pixel borders / centres): get_area_slices and the slicer
    for i in range(ctx.n(60, 600)):
        kind = r.choice(["laea", "merc", "stere_n", "eqc"])
        proj = crs_of(kind, 10, 50)
        px = r.choice([256.0, 1024.0, 4096.0])
        W, H = r.randint(4, 40), r.randint(4, 40)
        x0 = r.randint(-64, 64) * px
        y0 = r.randint(-64, 64) * px
        flip = r.choice([False] * 8 + ["x", "y"])
        sext = [x0, y0, x0 + W * px, y0 + H * px]
        if flip == "y":
            sext = [sext[0], sext[3], sext[2], sext[1]]
        if flip == "x":
            sext = [sext[2], sext[1], sext[0], sext[3]]
        src = {"proj": proj, "shape": [H, W], "extent": sext, "kind": kind}
        q = px / r.choice([1, 2, 4, 8])          # target pixel border lattice
        tpx = q * r.choice([1, 2, 3, 4, 8])
        thin = r.random() < 0.2
        th, tw = thin_shape(r, r.randint(2, 12)) if thin else (r.randint(1, 16), r.randint(1, 16))
        tx0 = x0 + r.randint(-8, int(W * px / q) + 4) * q
        ty0 = y0 + r.randint(-8, int(H * px / q) + 4) * q
        text = [tx0, ty0, tx0 + tw * tpx, ty0 + th * tpx]
        if r.random() < 0.12:
            text = [text[0], text[3], text[2], text[1]]     # flipped target
        tgt = {"proj": proj, "shape": [th, tw], "extent": text, "kind": kind}
        add(r.choice(["gas", "gas", "slicer"]), src, tgt, ("thin_" if thin else "") + "same_crs_dyadic")
    # same-CRS non-dyadic
    for i in range(ctx.n(30, 300)):
        lon, lat = r.choice(SCENES[:3])
        kind = pick_kind(r, lat)
        sspan = r.choice([5e5, 1e6])
        src = mk_area(r, kind, lon, lat, sspan, (r.randint(5, 40), r.randint(5, 40)), flip=r.choice([False] * 6 + ["y"]))
        thin = r.random() < 0.2
        tshape = thin_shape(r) if thin else (r.randint(1, 20), r.randint(1, 20))
        tgt = mk_area(r, kind, lon + r.uniform(-6, 6), lat + r.uniform(-4, 4), sspan * r.uniform(0.02, 1.6), tshape,
                      crs_centre=(lon, lat))
        add(r.choice(["gas", "gas", "slicer"]), src, tgt, ("thin_" if thin else "") + "same_crs")

    # chunked swath sources (lon/lat arrays of an area, dask chunks)
    for i in range(ctx.n(24, 240)):
        lon, lat = r.choice(SCENES[:4])
        sk = r.choice(["laea", "stere_n" if lat > 0 else "stere_s", "merc" if abs(lat) < 70 else "laea"])
        sshape = (r.randint(8, 36), r.randint(8, 36))
        sspan = r.choice([1e6, 2e6])
        src = mk_area(r, sk, lon, lat, sspan, sshape)
        rel = r.choice(["inside", "partial", "contains", "disjoint"])
        off = {"inside": r.uniform(0, 0.3), "partial": r.uniform(0.4, 0.8), "contains": r.uniform(0, 0.2),
               "disjoint": r.uniform(1.5, 3)}[rel] * sspan
        tspan = {"inside": r.uniform(0.1, 0.5), "partial": r.uniform(0.3, 1.0), "contains": r.uniform(1.2, 2),
                 "disjoint": r.uniform(0.1, 0.5)}[rel] * sspan
        ang = r.uniform(0, 2 * math.pi)
        tlat = max(-88, min(88, lat + off * math.sin(ang) / 111000.0))
        tlon = lon + off * math.cos(ang) / 111000.0 / max(0.15, math.cos(math.radians(min(abs(lat), 85))))
        thin = r.random() < 0.2
        tshape = thin_shape(r) if thin else (r.randint(2, 24), r.randint(2, 24))
        tgt = mk_area(r, pick_kind(r, tlat), tlon, tlat, tspan, tshape)
        chunks = [r.choice([1, 2, 3, 5, 8, 13, 40]), r.choice([1, 2, 3, 5, 8, 13, 40])]
        add("swath", src, tgt, ("thin_" if thin else "") + "swath_" + rel, chunks=chunks)

    # chunked swaths with a target that is small compared with the dask chunks and lies strictly inside ONE chunk, away from
    # the one-pixel-expanded chunk borders (same and different CRS; uniform and ragged chunkings): the chunk must be hit by
    # containment, not by a crossing of outlines
    def ragged(n):
        k = r.randint(3, 7)
        cuts = sorted(r.sample(range(1, n), k - 1))
        return [b - a for a, b in zip([0] + cuts, cuts + [n])]
    for i in range(ctx.n(12, 120)):
        lon, lat = r.choice(SCENES[:4])
        lat = max(-70, min(70, lat))
        sk = r.choice(["laea", "merc" if abs(lat) < 60 else "laea", "stere_n" if lat > 0 else "stere_s"])
        n_r, n_c = r.choice([60, 80, 120]), r.choice([60, 80, 120])
        px = r.choice([5000.0, 10000.0, 20000.0])
        src = mk_area(r, sk, lon, lat, px * 100, (n_r, n_c))
        if src is None:
            continue
        x0, y0, x1, y1 = src["extent"]
        dx, dy = (x1 - x0) / n_c, (y1 - y0) / n_r
        if i % 3 == 2:
            rc, cc = ragged(n_r), ragged(n_c)
        else:
            k = r.choice([20, 30, 40])
            rc = [k] * (n_r // k) + ([n_r % k] if n_r % k else [])
            cc = [k] * (n_c // k) + ([n_c % k] if n_c % k else [])
        big_r = [j for j, v in enumerate(rc) if v >= 14]
        big_c = [j for j, v in enumerate(cc) if v >= 14]
        if not big_r or not big_c:
            continue
        jr, jc = r.choice(big_r), r.choice(big_c)
        r0, c0 = sum(rc[:jr]), sum(cc[:jc])
        # a window of 3..6 source pixels, at least 4 pixels away from the borders of the chosen chunk
        hr, hc = r.randint(3, min(6, rc[jr] - 8)), r.randint(3, min(6, cc[jc] - 8))
        wr = r0 + r.randint(4, rc[jr] - 4 - hr)
        wc = c0 + r.randint(4, cc[jc] - 4 - hc)
        wx0, wx1 = x0 + wc * dx, x0 + (wc + hc) * dx
        wy1, wy0 = y1 - wr * dy, y1 - (wr + hr) * dy
        if i % 2 == 0:
            tgt = {"proj": src["proj"], "shape": [r.randint(2, 12), r.randint(2, 12)],
                   "extent": [min(wx0, wx1), min(wy0, wy1), max(wx0, wx1), max(wy0, wy1)], "kind": src["kind"]}
        else:
            from pyproj import Proj
            clon, clat = Proj(src["proj"])(0.5 * (wx0 + wx1), 0.5 * (wy0 + wy1), inverse=True)
            tgt = mk_area(r, pick_kind(r, clat), clon, clat, 0.6 * min(hr * abs(dy), hc * abs(dx)), (r.randint(2, 12), r.randint(2, 12)))
        add("swath", src, tgt, "swath_inside_chunk", chunks=[rc, cc])

    # CRS spelling: the same geometries with the CRS given as an authority code (string or int), including codes whose
    # authority axis order is (lat, lon) / (northing, easting): EPSG:4326, EPSG:3035; xy-ordered codes for contrast
    def coded_area(code, kind, lon_c, lat_c, span, shape):
        if kind == "longlat":
            half = span / 111000.0 / 2.0
            ext = [lon_c - half / max(0.3, math.cos(math.radians(lat_c))), lat_c - half,
                   lon_c + half / max(0.3, math.cos(math.radians(lat_c))), lat_c + half]
        else:
            cx, cy = _proj_centre(code if isinstance(code, str) else "EPSG:%d" % code, lon_c, lat_c)
            ext = [cx - span / 2, cy - span / 2, cx + span / 2, cy + span / 2]
        return {"proj": code, "shape": list(shape), "extent": [float(v) for v in ext], "kind": kind}
    CODES = [("EPSG:4326", "longlat"), (4326, "longlat"), ("EPSG:3035", "laea"), (3035, "laea"), ("EPSG:32632", "tmerc"),
             ("EPSG:3857", "merc")]
    for i in range(ctx.n(14, 140)):
        lon, lat = 10.0 + r.uniform(-4, 4), 50.0 + r.uniform(-4, 4)
        api = ["swath", "swath", "slicer", "gas"][i % 4]
        tcode, tkind = CODES[i % len(CODES)] if i % 4 < 2 else r.choice(CODES)
        sspan = r.choice([6e5, 1.2e6])
        if r.random() < 0.5:
            scode, skind = r.choice(CODES)
            src = coded_area(scode, skind, lon, lat, sspan, (r.randint(12, 36), r.randint(12, 36)))
        else:
            src = mk_area(r, r.choice(["laea", "stere_n", "merc"]), lon, lat, sspan, (r.randint(12, 36), r.randint(12, 36)))
        tgt = coded_area(tcode, tkind, lon + r.uniform(-1.5, 1.5), lat + r.uniform(-1, 1), sspan * r.uniform(0.15, 0.6),
                         (r.randint(2, 20), r.randint(2, 20)))
        kw = {"chunks": [r.choice([3, 5, 8, 13]), r.choice([3, 5, 8, 13])]} if api == "swath" else {}
        add(api, src, tgt, "crs_code", **kw)

    # swaths chunked along BOTH dimensions with a target oblique to the chunk grid: polar stereographic source and target
    # whose central meridians differ by 30..60 degrees, so the target is a diamond / an oblique strip on the swath and
    # the chunks it hits form a diamond or a staircase (first / last hit chunk do not bound the others)
    def ragged(n):
        k = r.randint(3, 7)
        cuts = sorted(r.sample(range(1, n), k - 1))
        return [b - a for a, b in zip([0] + cuts, cuts + [n])]
    for i in range(ctx.n(14, 140)):
        north = r.random() < 0.7
        lat = (1 if north else -1) * r.uniform(66, 84)
        lon = r.uniform(-180, 180)
        kind = "stere_n" if north else "stere_s"
        n_r, n_c = (120, 120) if i % 3 == 0 else (r.choice([60, 90, 120]), r.choice([60, 90, 120]))
        sspan = r.choice([1.2e6, 2.4e6])
        src = mk_area(r, kind, lon, lat, sspan, (n_r, n_c))
        rot = r.choice([-1, 1]) * r.uniform(30, 60)
        tproj = crs_of(kind, lon + rot, lat)
        cx, cy = _proj_centre(tproj, lon + r.uniform(-1, 1), lat + r.uniform(-0.5, 0.5))
        long_half = sspan * r.uniform(0.28, 0.42)
        short_half = long_half * r.choice([1.0, 1.0, 0.5, 0.25, 0.12])
        hx, hy = (long_half, short_half) if r.random() < 0.5 else (short_half, long_half)
        th, tw = r.randint(6, 20), r.randint(6, 20)
        tgt = {"proj": tproj, "shape": [th, tw], "extent": [cx - hx, cy - hy, cx + hx, cy + hy], "kind": kind}
        if i % 3 == 0:
            chunks = [20, 20]
        elif i % 3 == 1:
            chunks = [r.choice([10, 15, 20, 30]), r.choice([10, 15, 20, 30])]
        else:
            chunks = [ragged(n_r), ragged(n_c)]
        add("swath", src, tgt, "swath_oblique", chunks=chunks)
    return cases


# ------------------------------------------------------------------ property oracle
def decode_frac(b):
    a = np.frombuffer(base64.b64decode(b), dtype=np.float64)
    n = a.size // 2
    return a[:n], a[n:]


def geos_disk_mask(src, cols, rows):
    """True where the source projection coordinates lie inside the Earth disk shrunk by the safety margin."""
    x0, y0, x1, y1 = src["extent"]
    H, W = src["shape"]
    dx = (x1 - x0) / W
    dy = (y1 - y0) / H
    x = x0 + (cols + 0.5) * dx
    y = y1 - (rows + 0.5) * dy
    req = GEOS_A / 1000.0
    rp = GEOS_B / 1000.0
    h = GEOS_H / 1000.0 + req
    ax = (math.acos(math.sqrt(1 - req ** 2 / h ** 2)) - GEOS_MARGIN) * GEOS_H
    ay = (math.acos(math.sqrt(1 - rp ** 2 / h ** 2)) - GEOS_MARGIN) * GEOS_H
    with np.errstate(all="ignore"):
        return (x / ax) ** 2 + (y / ay) ** 2 <= 1.0


def needed(case, cols, rows):
    """(mask of target pixels lying on the source, lo/hi candidate containing pixel per axis)."""
    H, W = case["src"]["shape"]
    with np.errstate(all="ignore"):
        fin = np.isfinite(cols) & np.isfinite(rows)
        if case["api"] == "swath":
            # a SwathDefinition carries pixel CENTRES only (no pixel footprint, no extent): its domain is the hull of
            # its pixel centres; the band between that hull and the extent of the area the test swath was cut from
            # does not belong to the swath
            on = fin & (cols >= 0) & (cols <= W - 1) & (rows >= 0) & (rows <= H - 1)
        else:
            on = fin & (cols >= -0.5) & (cols < W - 0.5) & (rows >= -0.5) & (rows < H - 0.5)
        if case["src"]["kind"] == "geos":
            on &= geos_disk_mask(case["src"], np.where(fin, cols, 0.0), np.where(fin, rows, 0.0))
    return on


def cand(v, n, eps=1e-9):
    """containing pixel(s) of fractional index v: floor(v+0.5), both neighbours on a tie; clipped to the grid"""
    lo = np.ceil(v - 0.5 - eps)
    hi = np.floor(v + 0.5 + eps)
    return np.clip(lo, 0, n - 1), np.clip(hi, 0, n - 1)


def thin_target(case):
    return min(case["tgt"]["shape"]) == 1


def failure_key(clause, api, case, cols):
    """attribution key: failures of the geometric hypothesis H_poly on an input class where the outline handed to shapely is
    known to be torn / lossy are keyed by that class (whatever the clause); everything else by clause + api + thickness"""
    if api == "gas" and not case.get("_same_crs"):
        return "C11.H_poly.gas.different_crs"
    if wraps_source_crs(case, cols):
        return "C11.H_poly.%s.target_wraps_source_crs_antimeridian" % api
    if case.get("cls") == "swath_inside_chunk":
        return "C11.%s.swath.target_inside_one_chunk" % clause
    if case.get("cls") == "crs_code":
        return "C11.crs_spelling.%s.%s" % (api, clause)
    if api == "swath" and clause == "cover" and case.get("cls") == "swath_oblique":
        return "C11.cover.swath.oblique_chunks"
    g = geos_outline_lossy(case)
    if g and api == "slicer":
        return "C11.H_poly.slicer.%s" % g
    geos = case["src"]["kind"] == "geos"
    return "C11.%s.%s.%s" % (clause, api, ("geos_" if geos else "") + ("one_pixel_thick_target" if thin_target(case) else "general"))


def judge_cover(case, out, res, api):
    """The property oracle on one observation. Returns (key, what) or None.
    cover clause (slices returned): every target pixel centre inside the source EXTENT keeps its containing pixel.
    non-overlap clause: may be reported only if no target pixel centre lies on the source grid; the library's own
    convention for "on the grid" is the hull of the source pixel CENTRES (polygon of the area to crop, the
    'all outside' test against 0 and size, the hull test of the gradient search) and is the one applied here: a
    target whose centres all lie in the outer half-pixel band of the border pixels is counted, not flagged."""
    cols, rows = decode_frac(out["frac"])
    H, W = case["src"]["shape"]
    on = needed(case, cols, rows)
    n_on = int(on.sum())
    case["_n_on"] = n_on
    case["_n_total"] = int(cols.size)
    with np.errstate(all="ignore"):
        hull = on & (cols >= 0) & (cols <= W - 1) & (rows >= 0) & (rows <= H - 1)
    n_hull = int(hull.sum())
    case["_n_hull"] = n_hull
    if "err" in res:
        e = res["err"]
        nonoverlap = e in NONOVERLAP or (api == "gas" and e == "NotImplementedError")
        if n_on == 0:
            return None
        if nonoverlap:
            if n_hull == 0:
                case["_outer_band_only"] = True
                return None
            return (failure_key("nonoverlap", api, case, cols),
                    "%s reports %s(%s) although %d of %d target pixel centres fall on the source grid (%d inside the hull of "
                    "the source pixel centres)" % (api, e, res.get("msg", ""), n_on, cols.size, n_hull))
        return (failure_key("crash", api, case, cols),
                "%s raises %s(%s) although %d of %d target pixel centres fall on the source grid" % (
                    api, e, res.get("msg", ""), n_on, cols.size))
    xs, xe, ys, ye = res["sl"]
    if n_on == 0:
        return None
    clo, chi = cand(cols[on], W)
    rlo, rhi = cand(rows[on], H)
    okc = ((clo >= xs) & (clo < xe)) | ((chi >= xs) & (chi < xe))
    okr = ((rlo >= ys) & (rlo < ye)) | ((rhi >= ys) & (rhi < ye))
    bad = ~(okc & okr)
    if bad.any():
        i = int(np.flatnonzero(bad)[0])
        return (failure_key("cover", api, case, cols),
                "%s returns x[%d:%d] y[%d:%d] but %d of %d on-grid target pixel centres have their containing source pixel "
                "outside, e.g. fractional (col,row)=(%.4f,%.4f)" % (api, xs, xe, ys, ye, int(bad.sum()), n_on,
                                                                     float(cols[on][i]), float(rows[on][i])))
    if api == "slicer":
        # statistic only: bilinear neighbours floor / floor+1 (clipped) also inside
        fl = np.clip(np.floor(cols[on]), 0, W - 1)
        fl1 = np.clip(np.floor(cols[on]) + 1, 0, W - 1)
        rl = np.clip(np.floor(rows[on]), 0, H - 1)
        rl1 = np.clip(np.floor(rows[on]) + 1, 0, H - 1)
        case["_bil_ok"] = bool(((fl >= xs) & (fl1 < xe) & (rl >= ys) & (rl1 < ye)).all())
    return None


def judge_divisible(case, res, div):
    """get_area_slices(..., shape_divisible_by=N) against the same call without it, per axis (x limited by the source
    WIDTH, y by its HEIGHT): a proper slice of the axis, of a length divisible by N when the axis is at least N long, and
    still holding the undivided slice whenever its length rounded up to a multiple of N fits on the axis (C19's law,
    C11_gas_divisible_keeps_vertices).  Returns (verdicts, coq lines)."""
    v, lines = [], []
    if "sl" not in res:
        return v, lines
    H, W = case["src"]["shape"]
    for n_txt, r in sorted(div.items(), key=lambda kv: int(kv[0])):
        n = int(n_txt)
        if "sl" not in r:
            v.append(("C11.gas.shape_divisible_by", "get_area_slices(shape_divisible_by=%d) raises %s, without it returns %s" % (n, r, res["sl"])))
            continue
        for name, (a, b), (ra, rb), size in (("x", res["sl"][0:2], r["sl"][0:2], W), ("y", res["sl"][2:4], r["sl"][2:4], H)):
            if not (0 <= a < b <= size):
                continue          # no proper undivided slice along this axis: the law says nothing
            lines.append("(%d, %d, %d, %d, (%d, %d))" % (a, b, size, n, ra, rb))
            need = -(-(b - a) // n) * n
            ok = 0 <= ra < rb <= size and (size < n or (rb - ra) % n == 0) and (need > size or (ra <= a and b <= rb))
            if not ok:
                v.append(("C11.gas.shape_divisible_by",
                          "get_area_slices(shape_divisible_by=%d) turns the %s slice [%d:%d] of an axis of %d into [%d:%d]: %s"
                          % (n, name, a, b, size, ra, rb,
                             "drops needed pixels although %d fit on the axis" % need if need <= size and not (ra <= a and b <= rb)
                             else "not a proper / divisible slice of the axis")))
    return v, lines


def frac_index(src, px, py):
    """exact rational fractional index of projection point (px, py) in the source grid"""
    x0, y0, x1, y1 = [Fraction(v) for v in src["extent"]]
    H, W = src["shape"]
    dx = (x1 - x0) / W
    dy = (y1 - y0) / H
    return (Fraction(px) - x0) / dx - Fraction(1, 2), (y1 - Fraction(py)) / dy - Fraction(1, 2)


def judge_same_crs_tight(case, res):
    """cover the target extent, exceed the exact cover by at most one pixel per side (exact rationals)."""
    if "sl" not in res:
        return None
    H, W = case["src"]["shape"]
    llx, lly, urx, ury = case["tgt"]["extent"]
    c0, r0 = frac_index(case["src"], llx, lly)
    c1, r1 = frac_index(case["src"], urx, ury)
    out = []
    for name, a, b, n, (s, e) in (("x", c0, c1, W, res["sl"][0:2]), ("y", r0, r1, H, res["sl"][2:4])):
        lo, hi = min(a, b), max(a, b)
        half = Fraction(1, 2)
        first = max(0, math.floor(lo + half))
        last = min(n - 1, math.ceil(hi - half))
        if lo == hi or first > last:
            continue       # empty extent or no overlap along this axis: nothing to cover
        tie_lo = (lo + half).denominator == 1
        tie_hi = (hi - half).denominator == 1
        if not (s <= first and e - 1 >= last):
            return ("C11.same_crs.cover", "get_area_slices %s-slice [%d:%d] does not cover the target extent: exact cover is [%d:%d]"
                    % (name, s, e, first, last + 1))
        if not (s >= first - 1 and e - 1 <= last + 1):
            return ("C11.same_crs.tight", "get_area_slices %s-slice [%d:%d] exceeds the exact cover [%d:%d] by more than one pixel"
                    % (name, s, e, first, last + 1))
        out.append((tie_lo, tie_hi))
    case["_ties"] = out
    return None


# ------------------------------------------------------------------ classification of the input (attribution keys)
def _world_half_width(src):
    if src["kind"] == "longlat":
        return 180.0
    return math.pi * 6378137.0


def wraps_source_crs(case, cols):
    """target pixel centres spread over more than half the world width of a cylindrical / longlat source CRS:
    the target straddles the source CRS's antimeridian (its outline is torn in that CRS)"""
    src = case["src"]
    if src["kind"] not in ("longlat", "merc", "eqc"):
        return False
    fin = cols[np.isfinite(cols)]
    if fin.size == 0:
        return False
    x0, _, x1, _ = src["extent"]
    dx = abs(x1 - x0) / src["shape"][0 + 1]
    return float(fin.max() - fin.min()) * dx > _world_half_width(src)


_outline_cache = {}


def geos_outline_lossy(case):
    """geos source: (a) some vertex of the disk outline has no finite image in the target CRS, or (b) the source is a
    partial disk (its straight sector edges are carried into the target CRS by their end points only)"""
    src, tgt = case["src"], case["tgt"]
    if src["kind"] != "geos":
        return None
    key = (src["proj"], tgt["proj"])
    if key not in _outline_cache:
        from pyproj import Transformer
        req = GEOS_A / 1000.0
        rp = GEOS_B / 1000.0
        h = GEOS_H / 1000.0 + req
        ax = (math.acos(math.sqrt(1 - req ** 2 / h ** 2)) - 0.0001) * GEOS_H
        ay = (math.acos(math.sqrt(1 - rp ** 2 / h ** 2)) - 0.0001) * GEOS_H
        ang = np.linspace(-np.pi, np.pi, 360, endpoint=False)
        t = Transformer.from_crs(src["proj"], tgt["proj"], always_xy=True)
        with np.errstate(all="ignore"):
            x, y = t.transform(np.cos(ang) * ax, -np.sin(ang) * ay)
        _outline_cache[key] = bool(np.isfinite(x).all() and np.isfinite(y).all())
        torn = False
        if tgt["kind"] in ("longlat", "merc", "eqc") and np.isfinite(x).any():
            fx = x[np.isfinite(x)]
            torn = float(fx.max() - fx.min()) > (180.0 if tgt["kind"] == "longlat" else math.pi * 6378137.0)
        _outline_cache[key] = (_outline_cache[key], torn)
    finite, torn = _outline_cache[key]
    full = 5568748.0
    x0, y0, x1, y1 = src["extent"]
    partial = not (min(x0, x1) <= -full + 1 and max(x0, x1) >= full - 1 and min(y0, y1) <= -full + 1 and max(y0, y1) >= full - 1)
    if not finite:
        return "geos_outline_without_image_in_target_crs"
    if torn:
        return "geos_outline_torn_by_target_antimeridian"
    if partial:
        return "geos_partial_disk_sector_edges"
    return None


# ------------------------------------------------------------------ histories of near-identical targets on one source
def gen_near_histories(ctx):
    """One fine source (10-20 m pixels) and a sequence of targets of equal shape whose extents differ by a few source
    pixels but by less than what a loose equality / a rounded hash would resolve (degree CRS: < 5e-4 deg on extents that
    sit 5e-5 above a multiple of 1e-3; metre CRS: tens of metres on extents of millions of metres).  Every cached entry
    point sees the whole sequence in order; every call is judged against the cover clause for ITS OWN target."""
    r = ctx.rng
    out = []
    for i in range(ctx.n(6, 40)):
        lat_c = r.choice([35, 48, 56, 60, 64]) * (1 if r.random() < 0.8 else -1)
        lon_c = r.choice([9, 15, 21, -75, 135])
        px = r.choice([10.0, 20.0])
        n = 1200
        src = {"proj": "+proj=laea +lat_0=%d +lon_0=%d +ellps=WGS84" % (lat_c, lon_c), "shape": [n, n],
               "extent": [-px * n / 2, -px * n / 2, px * n / 2, px * n / 2], "kind": "laea"}
        if i % 3 != 2:
            # lon/lat target: pixels of 1e-4 deg (lat) x 2e-4 deg (lon), extents 5e-5 above a multiple of 1e-3
            h, w = r.choice([10, 20, 30]), r.choice([5, 10, 15])
            y0 = lat_c + r.randint(-8, 5) * 1e-3 + 5e-5
            x0 = lon_c + r.randint(-8, 5) * 1e-3 + 5e-5
            a = [x0, y0, x0 + w * 2e-4, y0 + h * 1e-4]
            proj, kind = "+proj=longlat +datum=WGS84 +no_defs", "longlat"
            shifts = [(0, 0), (0, 4e-4), (0, -3.5e-4) if r.random() < 0.5 else (0, 2e-4), (4e-4, 0), (0, 0)]
        else:
            # metre target far from its origin: 30 m shifts on extents of ~3e6 m
            proj, kind = "+proj=laea +lat_0=%d +lon_0=%d +ellps=WGS84" % (lat_c - 25 if lat_c > 0 else lat_c + 25, lon_c - 20), "laea"
            cx, cy = _proj_centre(proj, lon_c, lat_c)
            h, w = r.choice([10, 20]), r.choice([10, 20])
            a = [cx - w * 10.0, cy - h * 10.0, cx + w * 10.0, cy + h * 10.0]
            shifts = [(0, 0), (0, 30.0), (-25.0, 0), (0, 0)]
        tgts = [{"proj": proj, "shape": [h, w], "extent": [a[0] + dx, a[1] + dy, a[2] + dx, a[3] + dy], "kind": kind} for dx, dy in shifts]
        out.append({"api": "near_history", "src": src, "tgts": tgts})
    return out


def judge_near_history(c, o):
    """verdicts for one history: a cached call that fails the cover clause for its own target while the uncached computation
    of the same request passes it is attributed to the history; anything else keeps its ordinary key"""
    v = []
    stale = 0
    n_on = 0
    for i, (t, st) in enumerate(zip(c["tgts"], o.get("steps", []))):
        for fn, api, cached, fresh in (("crop_source_area", "slicer", st["crop_cached"], st["crop_fresh"]),
                                       ("get_area_slices_json_cache", "gas", st["gas_cached"], st["gas_fresh"])):
            sub = {"api": api, "src": c["src"], "tgt": t, "cls": "near_history", "_same_crs": False}
            jc = judge_cover(sub, st, cached, api)
            n_on = max(n_on, sub.get("_n_on", 0))
            sub2 = dict(sub)
            jf = judge_cover(sub2, st, fresh, api)
            stale += cached.get("sl") != fresh.get("sl") or cached.get("err") != fresh.get("err")
            if jc and not jf:
                v.append(("C11.history.near_identical_targets.%s" % fn,
                          "call %d of the history (target extent %s after %s): %s; the uncached computation returns %s"
                          % (i + 1, t["extent"], [u["extent"] for u in c["tgts"][:i]], jc[1], fresh)))
            elif jc:
                v.append(jc)
    c["_stale"] = stale
    c["_n_on"] = n_on
    return v


# ------------------------------------------------------------------ scalar stream for the kernels
def gen_scalar(ctx):
    r = ctx.rng
    out = []
    vals = [-3.0, -1.0, -0.5, -0.25, 0.0, 0.25, 0.5, 1.0, 1.5, 2.0, 7.49, 7.5, 8.0, 39.999999, 40.0, 1e9]
    for _ in range(ctx.n(150, 1500)):
        def one():
            if r.random() < 0.5:
                return r.choice(vals)
            return r.uniform(-6, 60)
        xb = [one(), one()]
        yb = [one(), one()]
        if r.random() < 0.06:
            (xb if r.random() < 0.5 else yb)[r.randint(0, 1)] = r.choice([float("inf"), float("-inf")])
        out.append({"api": "scalar", "kernel": "create_slices", "xb": xb, "yb": yb})
    # _sanitize_polygon_bounds + _create_slices_from_bounds on explicit bounds around / outside a dyadic area
    for _ in range(ctx.n(120, 1200)):
        px = r.choice([0.5, 1.0, 256.0])
        W, H = r.randint(1, 12), r.randint(1, 12)
        x0, y0 = r.randint(-8, 8) * px, r.randint(-8, 8) * px
        ext = [x0, y0, x0 + W * px, y0 + H * px]
        if r.random() < 0.15:
            ext = [ext[0], ext[3], ext[2], ext[1]]
        if r.random() < 0.1:
            ext = [ext[2], ext[1], ext[0], ext[3]]
        def coord(lo, n):
            t = r.random()
            if t < 0.5:
                return lo + r.randint(-6, 2 * n + 6) * px / 2        # pixel borders and centres exactly
            if t < 0.55:
                return r.choice([float("inf"), float("-inf")])
            return lo + r.uniform(-3, n + 3) * px
        bx = sorted([coord(x0, W), coord(x0, W)])
        by = sorted([coord(y0, H), coord(y0, H)])
        out.append({"api": "scalar", "kernel": "sanitize", "src": {"proj": "+proj=laea +lat_0=50 +lon_0=10 +ellps=WGS84", "shape": [H, W], "extent": ext},
                    "bounds": [bx[0], by[0], bx[1], by[1]]})
    for _ in range(ctx.n(80, 600)):
        a = r.choice(vals + [r.uniform(-10, 100)])
        b = r.choice(vals + [r.uniform(-10, 100)])
        out.append({"api": "scalar", "kernel": "ensure_int", "start": a, "stop": b})
    for a in range(-3, 6):
        for b in range(-3, 6):
            out.append({"api": "scalar", "kernel": "orientation", "start": a, "stop": b})
    return out


# ------------------------------------------------------------------ Coq literals
def farea(a):
    x0, y0, x1, y1 = a["extent"]
    return "(%s, %s, %s, %s, %d, %d)" % (fhex(x0), fhex(y0), fhex(x1), fhex(y1), a["shape"][1], a["shape"][0])


def zl(l):
    return "[" + "; ".join("(%d)" % v for v in l) + "]"


def bl(l):
    return "[" + "; ".join("true" if v else "false" for v in l) + "]"


STAGE = {"Area outside of domain.": 1, "Areas not overlapping.": 2, "No slice on area.": 3, "Area not within finite bounds.": 4}
HDR = ("From Coq Require Import ZArith List Bool PrimFloat.\n"
       "From PR Require Import Base.Num Base.F64 Base.ListX Base.Slice Model.Grid Model.Crop Model.C11_run Model.C11_imp_run.\n"
       "Import ListNotations.\nOpen Scope Z_scope.\n")


def finite(*v):
    return all(math.isfinite(x) for x in v)


def public_case(c):
    return {k: v for k, v in c.items() if not k.startswith("_")}


def run_impl(ctx, cases):
    """run the driver on the cases, in parallel batches"""
    from concurrent.futures import ThreadPoolExecutor
    nb = 12
    batches = [cases[i::nb] for i in range(nb)]
    with ThreadPoolExecutor(max_workers=nb) as ex:
        futs = [ex.submit(ctx.impl, "c11", {"cases": [public_case(c) for c in b]}) for b in batches if b]
        res = [f.result()["results"] for f in futs]
    out = [None] * len(cases)
    k = 0
    for i, b in enumerate([b for b in batches if b]):
        idx = list(range(len(cases)))[[j for j, bb in enumerate(batches) if bb][i]::nb]
        for j, o in zip(idx, res[k]):
            out[j] = o
        k += 1
    return out


def judge(case, o):
    """all oracle verdicts for one observed case: list of (key, what)"""
    api = case["api"]
    v = []
    if "setup_err" in o:
        return v
    res = o["res"]
    case["_same_crs"] = bool(o.get("inst", {}).get("same_crs"))
    j = judge_cover(case, o, res, api)
    if j:
        v.append(j)
    if api == "gas" and "div" in o and o.get("inst", {}).get("same_crs"):
        # the generator decides "different CRS" on the spelling (3035 vs "EPSG:3035" differ as text); when pyproj says the
        # two CRSs are equal the same-CRS branch is taken, which returns before the divisible adjustment: C11's same-CRS
        # clause (exceed the exact cover by at most one pixel per side) is what binds there, and growing to a multiple would
        # break it.  No divisibility demand on those pairs (counted).
        case["_div_not_judged_same_crs"] = True
    elif api == "gas" and "div" in o:
        dv, dl = judge_divisible(case, res, o["div"])
        v.extend(dv)
        case["_div_lines"] = dl
    if api == "gas" and o["inst"].get("same_crs") and not j:
        t = judge_same_crs_tight(case, res)
        if t:
            v.append(t)
    if "history_err" in o:
        v.append(("C11.history.driver", "history replay failed: %s" % (o["history_err"],)))
    if "again" in o:
        fresh = o["fresh"]
        case["_history"] = True
        if any(a != fresh for a in o["again"]):
            v.append(("C11.history.%s" % api, "%s through its cache returns %s on repeated calls, the uncached computation %s"
                      % ({"slicer": "crop_source_area (lru_cache)", "gas": "get_area_slices (JSON file cache)",
                          "swath": "SwathSlicer (lru_cache of the chunk boxes)"}[api], o["again"], fresh)))
    if api == "slicer":
        if o.get("res_plain") != res:
            v.append(("C11.slicer.instrumented_path_differs", "get_slices() gives %s but get_slices_from_polygon(get_polygon_to_contain()) gives %s"
                      % (o.get("res_plain"), res)))
        if "crop" in o:
            cr = o["crop"]
            if ("sl" in cr) != ("sl" in res) or ("sl" in cr and cr["sl"] != res["sl"]) or ("err" in cr and cr["err"] != res.get("err")):
                v.append(("C11.crop_source_area.differs", "crop_source_area gives %s, the slicer %s" % (cr, res)))
            elif "sl" in cr:
                xs, xe, ys, ye = cr["sl"]
                H, W = case["src"]["shape"]
                want = [max(0, min(ye, H) - min(ys, H)), max(0, min(xe, W) - min(xs, W))]
                if cr["shape"] != want:
                    v.append(("C11.crop_source_area.shape", "cropped area has shape %s, the slices select %s" % (cr["shape"], want)))
    return v


def judge_scalar(c, res):
    """oracle verdicts for one scalar-kernel case: list of (key, what)"""
    k = c["kernel"]
    v = []
    if k == "create_slices":
        if "sl" not in res and res.get("err") != "IncompatibleAreas":
            v.append(("C11.crash.create_slices", "_create_slices_from_bounds(%s, %s) raises %s" % (c["xb"], c["yb"], res)))
    elif k == "sanitize":
        b = c["bounds"]
        if not ("sl" in res or (res.get("err") == "IncompatibleAreas" and res.get("msg") in STAGE)):
            v.append(("C11.crash.sanitize", "_sanitize_polygon_bounds/_create_slices_from_bounds(%s) on %s raises %s" % (b, c["src"], res)))
        elif finite(*b):
            # independent statement of the 'all outside' rule and of the slices (exact rationals)
            c0, r0 = frac_index(c["src"], b[0], b[1])
            c1, r1 = frac_index(c["src"], b[2], b[3])
            H, W = c["src"]["shape"]
            outside = (max(c0, c1) < 0) or (max(r0, r1) < 0) or (min(c0, c1) >= W) or (min(r0, r1) >= H)
            want = None if outside else [max(math.floor(max(min(c0, c1), 0)) - 1, 0), math.ceil(max(c0, c1)) + 1,
                                         max(math.floor(max(min(r0, r1), 0)) - 1, 0), math.ceil(max(r0, r1)) + 1]
            if res.get("sl") != want:
                v.append(("C11.bounds_to_slices", "bounds %s on %s give %s, required %s" % (b, c["src"], res, want)))
    elif k == "ensure_int":
        if "v" not in res or res["types"][:2] != ["int", "int"] or res["v"][0] > c["start"] or res["v"][1] < c["stop"] \
                or res["v"][0] <= c["start"] - 1 or res["v"][1] >= c["stop"] + 1:
            v.append(("C11.ensure_integer_slice", "_ensure_integer_slice(slice(%r, %r)) -> %s is not the enclosing integer slice"
                      % (c["start"], c["stop"], res)))
    elif k == "orientation":
        if "v" not in res or res["v"][:2] != [c["start"], c["stop"]] or (res["v"][2] not in (None, -1)) \
                or ((res["v"][2] == -1) != (c["start"] > c["stop"])):
            v.append(("C11.check_slice_orientation", "check_slice_orientation(slice(%d, %d)) -> %s" % (c["start"], c["stop"], res)))
    return v


def run(ctx):
    ctx.rule = ("seeded pairs of areas: CRS pool (laea, stere N/S, longlat, merc, eqc, ortho, lcc, geos full/partial disk) x scenes x "
                "relation (inside, partial, corner, contains, disjoint) x target thickness ((1,n),(n,1),(1,1) in ~22%), polar "
                "high-curvature pairs, dyadic same-CRS pairs with exact ties, flipped extents, chunked dask swath sources incl. "
                "60..120-pixel swaths chunked along both dimensions (20x20, other uniform, ragged) under targets turned by 30..60 "
                "degrees (diamond / staircase of hit chunks); scalar "
                "streams for the kernels. A pair is non-trivial when at least one target pixel centre falls on the source grid "
                "(so that the cover / non-overlap clauses say something); a scalar case when a clipping, tie, infinite or "
                "reversed branch is taken; distinct = distinct inputs (sha1 of the canonical input). Fixed corpus first: the "
                "witnesses of the five known findings and of the repaired one-pixel-thick defect. Every other request is "
                "repeated twice at the end of the driver, in reverse order, through the caches (lru_cache of crop_source_area "
                "with fresh equal objects, lru_cache(maxsize=10) of the swath chunk boxes, JSON file cache of "
                "get_area_slices) and compared with the uncached result. Exhaustive sub-space: check_slice_orientation on "
                "all (start, stop) in [-3,5]^2; everything else is sampled")
    cases = gen_pairs(ctx)
    scal = gen_scalar(ctx)
    hist = gen_near_histories(ctx)
    obs = run_impl(ctx, cases + scal + hist)
    obs_pairs, obs_scal, obs_hist = obs[:len(cases)], obs[len(cases):len(cases) + len(scal)], obs[len(cases) + len(scal):]
    for c, o in zip(hist, obs_hist):
        if "setup_err" in o or "steps" not in o:
            ctx.count("setup_error")
            continue
        verdicts = judge_near_history(c, o)
        ctx.count("near_history:%s_targets" % c["tgts"][0]["kind"])
        ctx.count("near_history:cached_calls", 2 * len(c["tgts"]))
        ctx.count("near_history:cached_result_differs_from_fresh", c["_stale"])
        ctx.case(("nh", repr(c["src"]), repr(c["tgts"])), nontrivial=c["_n_on"] > 0,
                 sample={"history/near_identical_targets": {"src": c["src"], "targets": [t["extent"] for t in c["tgts"]],
                                                            "target_crs": c["tgts"][0]["proj"], "target_shape": c["tgts"][0]["shape"]},
                         "impl": [{"crop_source_area": st["crop_cached"].get("sl", st["crop_cached"].get("err")),
                                   "get_area_slices(json cache)": st["gas_cached"].get("sl", st["gas_cached"].get("err"))} for st in o["steps"]]})
        for key, what in verdicts:
            ctx.add_failure(key, what, {"case": public_case(c), "impl": [st["crop_cached"] for st in o["steps"]]})

    # ---- property oracle on the implementation
    L_crop, L_arr, L_create, L_starts, L_gas, L_swath, L_ens, L_ori = [], [], [], [], [], [], [], []
    L_div = []
    sampled = set()       # one evidence sample per (api, input group): varied samples instead of the first few cases
    for c, o in zip(cases, obs_pairs):
        api = c["api"]
        if "setup_err" in o:
            ctx.count("setup_error")
            continue
        res = o["res"]
        verdicts = judge(c, o)
        n_on = c.get("_n_on", 0)
        outcome = ("slices" if "sl" in res else res["err"])
        ctx.count("%s:%s:%s" % (api, c["cls"].replace("thin_", "thin/"), "on_grid" if n_on else "off_grid"))
        ctx.count("outcome:%s:%s" % (api, outcome))
        if c.get("_outer_band_only"):
            ctx.count("nonoverlap_with_centres_only_in_outer_half_pixel_band")
        if c.get("_div_lines"):
            L_div.extend(c["_div_lines"])
            ctx.count("gas:shape_divisible_by_axes", len(c["_div_lines"]))
        if c.get("_div_not_judged_same_crs"):
            ctx.count("gas:shape_divisible_by_not_judged_same_crs")
        if c.get("_history"):
            ctx.count("history:%s_repeated_through_cache" % api)
        if "_bil_ok" in c:
            ctx.count("bilinear_neighbours_inside" if c["_bil_ok"] else "bilinear_neighbours_not_all_inside")
        ctx.count("crs:%s<-%s" % (c["src"]["kind"], c["tgt"]["kind"]))
        group = ("oblique_chunks" if c["cls"] == "swath_oblique" else "inside_one_chunk" if c["cls"] == "swath_inside_chunk" else "crs_code" if c["cls"] == "crs_code" else "corpus" if c["cls"].endswith("corpus") else
                 "one_pixel_thick_target" if thin_target(c) else "geos_source" if c["src"]["kind"] == "geos" else
                 "same_crs" if "same_crs" in c["cls"] else "different_crs")
        kind = "%s/%s" % (api, group)
        first_of_kind = kind not in sampled and n_on > 0
        sampled.add(kind) if first_of_kind else None
        ctx.case((api, repr(c["src"]), repr(c["tgt"]), repr(c.get("chunks"))), nontrivial=n_on > 0,
                 sample=None if not first_of_kind else {kind: {"src": c["src"], "tgt": c["tgt"], "chunks": c.get("chunks"), "class": c["cls"]},
                         "impl": res, "target_pixel_centres": int(c.get("_n_total", 0)), "on_source_grid": n_on,
                         "inside_hull_of_source_centres": c.get("_n_hull", 0)})
        for key, what in verdicts:
            ctx.add_failure(key, what, {"case": public_case(c), "impl": res})
        # ---- correspondence material
        inst = o.get("inst", {})
        if api == "slicer" and "poly_err" not in inst and ("sl" in res or res["err"] == "IncompatibleAreas"):
            valid = inst["valid"]
            inter = "bounds_in" in inst
            b = inst.get("bounds_in", [0.0, 0.0, 0.0, 0.0])
            if "sl" in res:
                exp = [0] + res["sl"]
            else:
                st = STAGE.get(res.get("msg"))
                exp = [st, 0, 0, 0, 0] if st else None
            if exp and all(x == x for x in b):
                L_crop.append("(%s, %s, %s, (%s, %s, %s, %s), %s)" % ("true" if valid else "false", "true" if inter else "false",
                                                                      farea(c["src"]), fhex(b[0]), fhex(b[1]), fhex(b[2]), fhex(b[3]), zl(exp)))
                ctx.count("corr:crop_stage_%d" % exp[0])
            if "xb" in inst and all(x == x for x in b):
                L_arr.append("(%s, (%s, %s, %s, %s), (%s, %s), (%s, %s))" % (
                    farea(c["src"]), fhex(b[0]), fhex(b[1]), fhex(b[2]), fhex(b[3]),
                    fhex(inst["xb"][0]), fhex(inst["xb"][1]), fhex(inst["yb"][0]), fhex(inst["yb"][1])))
                if "created" in inst and all(x == x for x in inst["xb"] + inst["yb"]):
                    L_create.append("((%s, %s), (%s, %s), %s)" % (fhex(inst["xb"][0]), fhex(inst["xb"][1]), fhex(inst["yb"][0]),
                                                                  fhex(inst["yb"][1]), zl([0] + inst["created"])))
        if api == "gas" and inst.get("same_crs") and "starts_stops" in inst:
            L_starts.append("(%s, %s, %s)" % (farea(c["src"]), farea(c["tgt"]), zl(inst["starts_stops"])))
            if "sl" in res:
                sx, sy = [0 if s is None else s for s in res["steps"]]
                xs, xe, ys, ye = res["sl"]
                L_gas.append("(%s, %s, %s)" % (farea(c["src"]), farea(c["tgt"]), zl([xs, xe, sx, ys, ye, sy])))
        if api == "swath" and "chunks" in inst and ("sl" in res or res["err"] == "IncompatibleAreas"):
            boxes = [[b[0][0], b[0][1], b[1][0], b[1][1]] for b in inst["chunks"]]
            hit = [b[2] for b in inst["chunks"]]
            exp = [1] + res["sl"] if "sl" in res else [0, 0, 0, 0, 0]
            L_swath.append("(%s, %s, %s, %s)" % ("[" + "; ".join(zl(ch) for ch in inst["src_chunks"]) + "]", bl(hit),
                                                 "[" + "; ".join(zl(b) for b in boxes) + "]", zl(exp)))
            ctx.count("corr:swath_%s" % ("hit" if any(hit) else "nohit"))

    for c, o in zip(scal, obs_scal):
        k = c["kernel"]
        res = o["res"]
        verdicts = judge_scalar(c, res)
        for key, what in verdicts:
            ctx.add_failure(key, what, {"case": c, "impl": res})
        if k == "create_slices":
            xb, yb = c["xb"], c["yb"]
            inf = not finite(*(xb + yb))
            ctx.case(("cs", repr(xb), repr(yb)), nontrivial=inf or min(xb) < 0 or min(yb) < 0)
            ctx.count("scalar:create_slices")
            if verdicts:
                continue
            exp = [0] + res["sl"] if "sl" in res else [4, 0, 0, 0, 0]
            L_create.append("((%s, %s), (%s, %s), %s)" % (fhex(xb[0]), fhex(xb[1]), fhex(yb[0]), fhex(yb[1]), zl(exp)))
        elif k == "sanitize":
            b = c["bounds"]
            if not ("sl" in res or (res.get("err") == "IncompatibleAreas" and res.get("msg") in STAGE)):
                continue
            exp = [0] + res["sl"] if "sl" in res else [STAGE[res["msg"]], 0, 0, 0, 0]
            ctx.case(("sa", repr(c["src"]), repr(b)), nontrivial=exp[0] != 0 or exp[1] == 0 or exp[3] == 0,
                     sample=None if ("k", exp[0]) in sampled or sampled.add(("k", exp[0])) else {"kernel/bounds_to_slices_stage_%d" % exp[0]: {"area": c["src"], "bounds": [repr(v) for v in b]}, "impl": res})
            ctx.count("scalar:sanitize_stage_%d" % exp[0])
            L_crop.append("(true, true, %s, (%s, %s, %s, %s), %s)" % (farea(c["src"]), fhex(b[0]), fhex(b[1]), fhex(b[2]), fhex(b[3]), zl(exp)))
        elif k == "ensure_int":
            ctx.case(("ei", c["start"], c["stop"]), nontrivial=c["start"] != int(c["start"]) or c["stop"] != int(c["stop"]))
            ctx.count("scalar:ensure_integer_slice")
            if verdicts:
                continue
            L_ens.append("(%s, %s, (%d, %d))" % (fhex(c["start"]), fhex(c["stop"]), res["v"][0], res["v"][1]))
        elif k == "orientation":
            ctx.case(("or", c["start"], c["stop"]), nontrivial=c["start"] > c["stop"])
            ctx.count("scalar:check_slice_orientation")
            if "v" not in res:
                continue
            L_ori.append("(%d, %d, %d)" % (c["start"], c["stop"], res["v"][2] or 0))

    # ---- correspondence: model (binary64 / Z) vs implementation, exact
    groups = [("crop", "chk_crop", L_crop), ("arr", "chk_arr", L_arr), ("create", "chk_create", L_create),
              ("starts", "chk_starts", L_starts), ("gas", "chk_gas", L_gas), ("swath", "chk_swath", L_swath),
              ("ensure", "chk_ensure", L_ens), ("orient", "chk_orient", L_ori), ("gas_divisible", "chk_div", L_div),
              # the definitions regenerated from the SwathSlicer loops (py2coq_imp), run on the same swath cases
              ("imp_swath", "chk_imp_swath", L_swath)]
    texts = []
    for name, chk, L in groups:
        for sh in range(0, max(len(L), 1), 400):
            part = L[sh:sh + 400]
            if not part:
                continue
            texts.append(("c11_%s_%d" % (name, sh // 400),
                          HDR + "Definition cases := [%s].\nEval vm_compute in (bad %s cases).\n" % (";\n".join(part), chk), part, name))
    res = ctx.coq_eval_many([(n, t) for n, t, _, _ in texts])
    for name, _, lines, what in texts:
        out, ok = res[name]
        ctx.count("corr_cases:" + what, len(lines))
        if not ok:
            ctx.broken.append(("correspondence:" + what, "model evaluation failed: " + out[-300:]))
            continue
        bad = ints(out)
        if bad:
            ctx.broken.append(("correspondence:" + what, "model and implementation differ on %d of %d cases, e.g. %s"
                               % (len(bad), len(lines), lines[bad[0]][:300])))
    ctx.traces = len(L_crop) + len(L_swath)
    ctx.notes.append("non-overlap clause judged with the library's convention 'on the source grid' = inside the hull of the source pixel "
                     "centres; targets whose centres all lie in the outer half-pixel band of the border pixels are counted "
                     "(input_distribution: nonoverlap_with_centres_only_in_outer_half_pixel_band), see C11_nonoverlap_outer_half_pixel_refuted")
    ctx.notes.append("same-CRS tightness is required of AreaDefinition.get_area_slices only; the AreaSlicer buffers by one target pixel "
                     "and expands by one source pixel by design")


def replay(ctx, data):
    case = data["case"]["case"]
    o = ctx.impl("c11", {"cases": [public_case(case)]})["results"][0]
    if case["api"] == "scalar":
        return bool(judge_scalar(case, o["res"]))
    if case["api"] == "near_history":
        return bool(judge_near_history(dict(case), o))
    c = dict(case)
    return bool(judge(c, o))
