"""C20 - conversions to and from CF, rasterio (gdal), odc-geo and cartopy preserve the grid."""
import math

from .common import fhex, ints
from . import c20_gen

c20_gen.install()          # GenC20 goes through py2coq + the dict-as-record / statement-slicing front end

PROP_FILE = "Properties/C20.v"
GEN = ["GenC20"]
RUN_FILES = ["Model/C20_run.v"]

HDR = ("From Coq Require Import ZArith List Bool PrimFloat.\n"
       "From PR Require Import Base.Num Base.F64 Base.ListX Model.Grid Model.ConvertBase Gen.GenC20 Model.Convert Model.C20_run.\n"
       "Import ListNotations.\nOpen Scope Z_scope.\n")

# CRSs expressible in CF.  kind: unit of the CRS axes; span: where grids are placed; ps: pixel-size range (log2 for dyadic)
POOL = [
    dict(name="laea", crs="+proj=laea +lat_0=50 +lon_0=10 +datum=WGS84", kind="m", span=3.0e6, lg=(6, 14), ps=(50.0, 20000.0)),
    dict(name="stere_n", crs="+proj=stere +lat_0=90 +lon_0=-45 +lat_ts=70 +datum=WGS84", kind="m", span=3.0e6, lg=(6, 14), ps=(50.0, 20000.0)),
    dict(name="stere_s", crs="+proj=stere +lat_0=-90 +lon_0=0 +lat_ts=-71 +ellps=WGS84", kind="m", span=3.0e6, lg=(6, 14), ps=(50.0, 20000.0)),
    dict(name="merc", crs="+proj=merc +lon_0=0 +lat_ts=0 +datum=WGS84", kind="m", span=6.0e6, lg=(6, 14), ps=(50.0, 20000.0)),
    dict(name="lcc", crs="+proj=lcc +lat_1=25 +lat_2=60 +lat_0=40 +lon_0=-100 +datum=WGS84", kind="m", span=3.0e6, lg=(6, 14), ps=(50.0, 20000.0)),
    dict(name="tmerc", crs="+proj=tmerc +lat_0=0 +lon_0=15 +k=0.9996 +x_0=500000 +y_0=0 +datum=WGS84", kind="m", span=1.0e6, lg=(4, 12), ps=(10.0, 5000.0)),
    dict(name="utm33", crs="EPSG:32633", kind="m", span=1.0e6, lg=(4, 12), ps=(10.0, 5000.0)),
    # Pseudo-Mercator has no CF grid mapping (crs.to_cf() carries crs_wkt only): used for rasters / GeoBox / cartopy only
    dict(name="epsg3857", crs="EPSG:3857", kind="m", span=6.0e6, lg=(6, 14), ps=(50.0, 20000.0), cf=False),
    dict(name="epsg3035", crs="EPSG:3035", kind="m", span=2.0e6, lg=(6, 13), ps=(50.0, 10000.0), origin=(4321000.0, 3210000.0)),
    dict(name="longlat", crs="EPSG:4326", kind="deg", span=60.0, lg=(-6, 0), ps=(0.01, 1.0)),
    dict(name="longlat_proj", crs="+proj=longlat +datum=WGS84 +no_defs", kind="deg", span=60.0, lg=(-6, 0), ps=(0.01, 1.0)),
    dict(name="geos", crs="+proj=geos +h=35785831 +lon_0=0 +a=6378169 +b=6356583.8 +sweep=y", kind="geos", span=3.0e6, lg=(9, 13), ps=(500.0, 9000.0)),
    dict(name="geos_x", crs="+proj=geos +h=35786023 +lon_0=-75 +ellps=GRS80 +sweep=x", kind="geos", span=3.0e6, lg=(9, 13), ps=(500.0, 9000.0)),
    dict(name="stere_km", crs="+proj=stere +lat_0=90 +lon_0=0 +lat_ts=60 +datum=WGS84 +units=km", kind="km", span=3.0e3, lg=(-4, 4), ps=(0.05, 20.0)),
]


def ulp(x):
    return math.ulp(abs(float(x)))


# ------------------------------------------------------------------------------------------------ generation
def gen_area(r, minpix, maxpix=24, fam=None):
    """One area; returns (spec, tags).  Half of the grids are dyadic (every intermediate exactly representable)."""
    f = fam or r.choice(POOL)
    w = r.choice([minpix, minpix + 1, 2, 3, 5, 8]) if r.random() < 0.35 else r.randint(minpix, maxpix)
    h = r.choice([minpix, minpix + 1, 2, 3, 5, 8]) if r.random() < 0.35 else r.randint(minpix, maxpix)
    w, h = max(w, minpix), max(h, minpix)
    dyadic = r.random() < 0.5
    ox, oy = f.get("origin", (0.0, 0.0))
    if dyadic:
        jx = r.randint(*f["lg"])
        jy = jx if r.random() < 0.6 else r.randint(*f["lg"])
        psx, psy = 2.0 ** jx, 2.0 ** jy
        q = 2.0 ** min(jx, jy)
        n = int(f["span"] / q)
        xmin = ox + r.randint(-n, n) * q
        ymin = oy + r.randint(-n, n) * q
        xmax, ymax = xmin + w * psx, ymin + h * psy
    else:
        psx = r.uniform(*f["ps"])
        psy = psx if r.random() < 0.5 else r.uniform(*f["ps"])
        xmin = ox + r.uniform(-f["span"], f["span"])
        ymin = oy + r.uniform(-f["span"], f["span"])
        xmax, ymax = xmin + w * psx, ymin + h * psy
    if f["kind"] == "deg":
        # keep inside the geographic domain
        sh = max(0.0, xmax - 180.0)
        xmin, xmax = xmin - sh, xmax - sh
        sh = max(0.0, ymax - 90.0)
        ymin, ymax = ymin - sh, ymax - sh
        if dyadic:
            xmin, xmax, ymin, ymax = (math.floor(v * 64) / 64 for v in (xmin, xmax, ymin, ymax))
            xmax, ymax = xmin + w * psx, ymin + h * psy
    upside_down = r.random() < 0.12
    ext = [xmin, ymax, xmax, ymin] if upside_down else [xmin, ymin, xmax, ymax]
    spec = {"crs": f["crs"], "extent": ext, "w": w, "h": h}
    return spec, {"fam": f["name"], "kind": f["kind"], "dyadic": dyadic, "upside_down": upside_down}


CF_POOL = [f for f in POOL if f.get("cf", True)]

# narrow storage dtypes of the coordinate variables: (dtype, largest magnitude of an exactly stored integer centre)
DTYPES = [("float32", 2 ** 24 - 1), ("int32", 2 ** 31 - 1), ("int16", 2 ** 15 - 1)]


def gen_cf_dtype_case(r, dtype=None):
    """Pixel centres on integers that the stored dtype holds exactly, odd pixel sizes: the corners sit on half-integers, which
    the stored dtype cannot hold (int) or cannot hold at that magnitude (float32 above 2^23).  Everything is exact in binary64."""
    dtype, top = r.choice(DTYPES) if dtype is None else [d for d in DTYPES if d[0] == dtype][0]
    fam = r.choice([f for f in CF_POOL if f["kind"] == "m"] + ([f for f in CF_POOL if f["kind"] == "deg"] if dtype == "int16" else []))
    w, h = r.randint(2, 12), r.randint(2, 12)

    def axis(n, geographic_limit=None):
        if geographic_limit is not None:
            ps = r.choice([1, 3])
            lo = r.randint(-geographic_limit, geographic_limit - (n - 1) * ps)
            return lo, ps
        if dtype == "float32":
            ps = r.choice([1, 1, 3, 5])
            if r.random() < 0.7:      # at least 2^23: float32 has no half-integers there
                lo = r.randint(2 ** 23, 2 ** 24 - 1 - (n - 1) * ps)
                if r.random() < 0.3:
                    lo = -lo - (n - 1) * ps
            else:
                lo = r.randint(-(2 ** 20), 2 ** 20)
            return lo, ps
        if dtype == "int32":
            ps = r.choice([1, 3, 5, 25, 1001])
            return r.randint(-9000000, 9000000), ps
        # int16: small grids and grids spanning more than the dtype's range (last - first does not fit)
        ps = r.choice([1, 3, 5]) if r.random() < 0.5 else 2 * r.randint(500, (60000 // (n - 1) - 1) // 2) + 1
        span = (n - 1) * ps
        lo = r.randint(-top, top - span)
        return lo, ps
    geo = fam["kind"] == "deg"
    x_lo, psx = axis(w, 170 if geo else None)
    y_lo, psy = axis(h, 80 if geo else None)
    xmin, ymin = x_lo - psx / 2.0, y_lo - psy / 2.0
    spec = {"crs": fam["crs"], "extent": [xmin, ymin, xmin + w * psx, ymin + h * psy], "w": w, "h": h}
    c = {"area": spec, "flipx": r.random() < 0.3, "flipy": r.random() < 0.5, "mode": 0, "k": None,
         "lookup": r.choice(["var", "none", "gm", "xy", "from_cf"]), "dims": ["y", "x"], "time": False, "drop_wkt": False,
         "future": False, "dtype": dtype}
    if geo:
        c["xname"], c["yname"], c["xunit"], c["yunit"] = "longitude", "latitude", "degrees_east", "degrees_north"
    else:
        c["xname"], c["yname"], c["xunit"], c["yunit"] = "projection_x_coordinate", "projection_y_coordinate", "m", "m"
    tags = {"fam": fam["name"], "kind": fam["kind"], "dyadic": True, "upside_down": False, "unit": "deg" if geo else "m",
            "one_pixel": False, "dtype": dtype}
    return c, tags


def gen_cf_case(r, one_pixel=False, fam=None):
    spec, tags = gen_area(r, 1 if one_pixel else 2, fam=fam or r.choice(CF_POOL))
    if one_pixel:
        if r.random() < 0.5:
            spec["w"] = 1
        else:
            spec["h"] = 1
        ps = 1.0 if tags["kind"] in ("deg", "km") else 1000.0
        x0, y0 = spec["extent"][0], min(spec["extent"][1], spec["extent"][3])
        if tags["kind"] == "deg":
            x0, y0 = 3.0, 40.0
        spec["extent"] = [x0, y0, x0 + spec["w"] * ps, y0 + spec["h"] * ps]
        tags["upside_down"] = False
        tags["dyadic"] = False
    kind = tags["kind"]
    c = {"area": spec, "flipx": r.random() < 0.2, "flipy": r.random() < 0.4, "mode": 0, "k": None,
         "lookup": r.choice(["var", "var", "none", "gm", "xy", "from_cf"]),
         "dims": r.choice([["y", "x"], ["yc", "xc"], ["row", "col"]]), "time": r.random() < 0.25,
         "drop_wkt": False, "future": r.random() < 0.15}
    if kind == "deg":
        c["xname"], c["yname"] = "longitude", "latitude"
        c["xunit"], c["yunit"] = r.choice([("degrees_east", "degrees_north"), ("degrees", "degrees"), ("degree_east", "degree_north")])
        c["dims"] = r.choice([["lat", "lon"], ["y", "x"]])
        tags["unit"] = "deg"
    elif kind == "km":
        c["xname"], c["yname"] = "projection_x_coordinate", "projection_y_coordinate"
        c["xunit"] = c["yunit"] = "km"
        tags["unit"] = "crs_km"
    else:
        c["xname"], c["yname"] = "projection_x_coordinate", "projection_y_coordinate"
        u = r.random()
        if kind == "geos" and u < 0.5:
            c["mode"] = 2
            c["xunit"] = c["yunit"] = r.choice(["radians", "rad", "radian"])
            if r.random() < 0.6:
                c["xname"], c["yname"] = "projection_x_angular_coordinate", "projection_y_angular_coordinate"
            tags["unit"] = "rad"
        elif u < 0.75 or (kind == "geos" and u < 0.8):
            c["xunit"] = c["yunit"] = r.choice(["m", "m", "meters", "metres"])
            tags["unit"] = "m"
        else:
            c["mode"], c["k"] = 1, 1000.0
            c["xunit"] = c["yunit"] = "km"
            tags["unit"] = "km"
        if kind == "m" and r.random() < 0.12:
            c["drop_wkt"] = True
    tags["one_pixel"] = one_pixel
    return c, tags


# ------------------------------------------------------------------------------------------------ property oracle
def expected_extent(spec, flipx=False, flipy=False):
    x0, y0, x1, y1 = spec["extent"]
    if flipx:
        x0, x1 = x1, x0
    if flipy:
        y0, y1 = y1, y0
    return [x0, y0, x1, y1]


def centres(spec):
    """Pixel-centre coordinates of the area by the canonical map, in exact rational arithmetic rounded once."""
    from fractions import Fraction as F
    x0, y0, x1, y1 = (F(v) for v in spec["extent"])
    w, h = spec["w"], spec["h"]
    xs = [float(x0 + (c + F(1, 2)) * (x1 - x0) / w) for c in range(w)]
    ys = [float(y1 - (r_ + F(1, 2)) * (y1 - y0) / h) for r_ in range(h)]
    return xs, ys


def tolerances(spec, n_ulp=12):
    """Acceptance band: 1e-9 pixel (the property's tolerance) plus the a-priori binary64 rounding bound of the conversion
    chain, in ulps of the largest coordinate M of the axis (every intermediate is a coordinate inside the extent or a
    pixel size, so each rounding is <= 0.5 ulp(M)):
      centres      upl = xmin + ps/2 (<= 1), first = 0*ps + upl (<= 1.5), last = (n-1)*ps + upl (<= 3.5)
      unit factor  v/k on write, *k on read (km, geostationary angles): <= 2 more on first/last/extent
      spacing      ((last - first)/(n-1))/2: <= 2.5          extent = first -/+ half, last +/- half: <= 4.5 / 6.5 (+2 with a unit factor)
      => n_ulp = 12 covers every extent; the loaded area's own centre vector adds (err(xmin') + err(xmax')) + 1.5 + 1 <= 24."""
    x0, y0, x1, y1 = spec["extent"]
    psx, psy = abs(x1 - x0) / spec["w"], abs(y1 - y0) / spec["h"]
    tx = 1e-9 * psx + n_ulp * max(ulp(x0), ulp(x1))
    ty = 1e-9 * psy + n_ulp * max(ulp(y0), ulp(y1))
    return tx, ty


def close4(got, want, tx, ty):
    return abs(got[0] - want[0]) <= tx and abs(got[2] - want[2]) <= tx and abs(got[1] - want[1]) <= ty and abs(got[3] - want[3]) <= ty


def vec_close(got, want, tol):
    return len(got) == len(want) and all(abs(a - b) <= tol for a, b in zip(got, want))


def judge_cf(c, tags, o):
    """Property oracle for one CF case: list of (key, what)."""
    bad = []
    spec = c["area"]
    cls = ("xrev" if c["flipx"] else "") + ("sn" if c["flipy"] else "ns") + "." + tags["unit"] + ("." + c["dtype"] if c.get("dtype") else "")
    if "setup_error" in o:
        return [("C20.cf.setup", "could not build the CF dataset: " + o["setup_error"])]
    if spec["w"] < 2 or spec["h"] < 2:
        # a CF coordinate variable holds centres only: a 1-pixel axis has no spacing, an area must not be invented
        if o["error"] is None:
            bad.append(("C20.cf.one_pixel_axis", "load_cf_area returned extent %s for a %dx%d grid whose 1-pixel axis has no defined spacing"
                        % (o["extent"], spec["h"], spec["w"])))
        return bad
    if o["error"] is not None:
        return [("C20.cf.error." + cls, "load_cf_area raised %s (%s) on a valid CF grid" % (o["error"], o.get("message", "")))]
    want = expected_extent(spec, c["flipx"], c["flipy"])
    tx, ty = tolerances(spec)
    exact = tags["dyadic"] and c["mode"] == 0
    if o["shape"] != [spec["h"], spec["w"]]:
        bad.append(("C20.cf.shape", "shape %s, stored array is %s" % (o["shape"], [spec["h"], spec["w"]])))
    if (exact and o["extent"] != want) or not close4(o["extent"], want, tx, ty):
        bad.append(("C20.cf.extent." + cls, "extent %s, required %s%s" % (o["extent"], want, " exactly (dyadic grid)" if exact else "")))
    if c.get("dtype") and not o.get("cast_exact"):
        bad.append(("C20.cf.setup", "generator: the %s cast of the centre vectors was not exact" % c["dtype"]))
    # the extent is a function of the STORED centre values alone, whatever their storage dtype: exact rational arithmetic
    from fractions import Fraction as F
    kf = F(o["k"]) if o["k"] else F(1)
    fx, lx, fy, ly = F(o["stored_x"][0]), F(o["stored_x"][-1]), F(o["stored_y"][0]), F(o["stored_y"][-1])
    dx, dy = (lx - fx) / (spec["w"] - 1), (ly - fy) / (spec["h"] - 1)
    from_stored = [float((fx - dx / 2) * kf), float((ly + dy / 2) * kf), float((lx + dx / 2) * kf), float((fy - dy / 2) * kf)]
    if not bad and ((exact and o["extent"] != from_stored) or not close4(o["extent"], from_stored, tx, ty)):
        bad.append(("C20.cf.extent_from_stored." + cls, "extent %s, but the stored centre vectors (first/last %r..%r, %r..%r) determine %s"
                    % (o["extent"], o["stored_x"][0], o["stored_x"][-1], o["stored_y"][0], o["stored_y"][-1], from_stored)))
    xs, ys = centres(spec)
    if c["flipx"]:
        xs = xs[::-1]
    if c["flipy"]:
        ys = ys[::-1]
    vx, vy = tolerances(spec, 24)
    if not bad and not (vec_close(o["xvec"], xs, vx) and vec_close(o["yvec"], ys, vy)):
        bad.append(("C20.cf.pixel_location." + cls, "pixel centres of the loaded area differ from the stored element positions"))
    # the stored vectors themselves (times the unit factor) are where the elements are
    k = o["k"] or 1.0
    if not bad and not (vec_close([v * k for v in o["stored_x"]], o["xvec"], vx) and vec_close([v * k for v in o["stored_y"]], o["yvec"], vy)):
        bad.append(("C20.cf.pixel_location." + cls, "pixel (r, c) of the loaded area is not where element (r, c) of the stored array is"))
    if c["mode"] == 1:
        # named hypothesis of C20_cf_units, on the implementation: the conversion applied to an extent corner is multiplication
        # by k (PROJ: a single unitconvert step; <= 2 roundings), with x and y kept in place
        for xi, yi, xo, yo in o.get("tab", []):
            if abs(xo - xi * c["k"]) > 2 * ulp(xo) or abs(yo - yi * c["k"]) > 2 * ulp(yo):
                bad.append(("C20.cf.units.uconv", "unit conversion of corner (%r, %r) %s gave (%r, %r), not the corner times %g"
                            % (xi, yi, c["xunit"], xo, yo, c["k"])))
                break
    if o.get("repeat_same") is False:
        bad.append(("C20.cf.history", "a second load_cf_area of the same dataset gave a different area or the dataset was modified"))
    if not c["flipx"] and not c["flipy"] and o["crs_eq"] and o["eq"] is not True:
        bad.append(("C20.cf.eq." + cls, "north-to-south round trip: loaded area != original (== gives %s)" % o["eq"]))
    if not (o["crs_eq"] or o["crs_op"]):
        bad.append(("C20.cf.crs", "CRS of the loaded area differs from the original beyond normalisation"))
    return bad


def raster_tag_class(c):
    t = (c.get("tags") or {})
    if "AREA_OR_POINT" in t:
        return ".tag_" + t["AREA_OR_POINT"].lower()
    return ".tag_other" if t else ""


RASTER_TAGS = [None, None, {"AREA_OR_POINT": "Area"}, {"AREA_OR_POINT": "Point"}, {"AREA_OR_POINT": "Point"}, {"AREA_OR_POINT": "point"},
               {"TIFFTAG_SOFTWARE": "verif", "units": "K"}, {"AREA_OR_POINT": "Point", "scale_factor": "0.5"}]


def gen_geo_beyond(r):
    """Geographic areas whose extent reaches beyond +-90 / +-180 degrees (node-registered global grids with pixel centres on the
    poles and on the antimeridian, polar caps ending half a pixel past the pole, 0..360 longitudes), regular and flipped."""
    fam = r.choice([f for f in POOL if f["kind"] == "deg"])
    ps = r.choice([10.0, 5.0, 2.5, 2.0, 1.0, 0.5, 0.25])
    kind = r.choice(["global_node", "arctic", "antarctic", "lon_0_360", "lon_past_180", "both"])
    if kind == "global_node":
        ext, w, h = [-180 - ps / 2, -90 - ps / 2, 180 + ps / 2, 90 + ps / 2], int(360 / ps) + 1, int(180 / ps) + 1
    elif kind == "arctic":
        h, w = r.randint(1, 12), r.randint(1, 12)
        ext = [r.randint(-17, 10) * 10.0, 90 + ps / 2 - h * ps, 0, 90 + ps / 2]
        ext[2] = ext[0] + w * ps
    elif kind == "antarctic":
        h, w = r.randint(1, 12), r.randint(1, 12)
        ext = [r.randint(-17, 10) * 10.0, -90 - ps / 2, 0, -90 - ps / 2 + h * ps]
        ext[2] = ext[0] + w * ps
    elif kind == "lon_0_360":
        h, w = r.randint(1, 12), int(360 / ps)
        ext = [0.0, 10.0, 360.0, 10.0 + h * ps]
    elif kind == "lon_past_180":
        h, w = r.randint(1, 12), r.randint(2, 12)
        ext = [180 + ps / 2 - (w - 1) * ps, -20.0, 180 + ps / 2 + ps, -20.0 + h * ps]
    else:
        w, h = r.randint(1, 8), r.randint(1, 8)
        ext = [-200.0, -100.0, 200.0, 100.0]
    flip = r.choice(["no", "no", "y", "x", "xy"])
    x0, y0, x1, y1 = ext
    if "y" in flip:
        y0, y1 = y1, y0
    if "x" in flip:
        x0, x1 = x1, x0
    spec = {"crs": fam["crs"], "extent": [x0, y0, x1, y1], "w": w, "h": h}
    return {"area": spec}, {"fam": fam["name"], "kind": "deg", "dyadic": True, "upside_down": "y" in flip, "beyond": True, "beyond_kind": kind}


def judge_raster(c, tags, o):
    bad = []
    spec = c["area"]
    if "error" in o:
        return [("C20.raster.error", "raster round trip failed: " + o["error"])]
    want = expected_extent(spec, False, c["sn"])
    tx, ty = tolerances(spec)
    vx, vy = tolerances(spec, 24)
    xs, ys = centres(spec)
    if c["sn"]:
        ys = ys[::-1]
    for path in ("rio", "gdal"):
        p = o[path]
        cls = path + (".sn" if c["sn"] else ".ns") + raster_tag_class(c)
        if p["shape"] != [spec["h"], spec["w"]]:
            bad.append(("C20.raster.shape." + cls, "shape %s, raster is %s" % (p["shape"], [spec["h"], spec["w"]])))
        if (tags["dyadic"] and p["extent"] != want) or not close4(p["extent"], want, tx, ty):
            bad.append(("C20.raster.extent." + cls, "extent %s, required %s" % (p["extent"], want)))
        elif not (vec_close(p["xvec"], xs, vx) and vec_close(p["yvec"], ys, vy)):
            bad.append(("C20.raster.pixel_location." + cls, "pixel centres differ from the raster's cell centres"))
        if not c["sn"] and p["crs_eq"] and p["eq"] is not True:
            bad.append(("C20.raster.eq." + cls, "north-up round trip: area != original (== gives %s)" % p["eq"]))
        if not (p["crs_eq"] or p["crs_op"]):
            bad.append(("C20.raster.crs." + path, "CRS differs from the original beyond normalisation"))
    return bad


def judge_geobox(c, tags, o):
    bad = []
    spec = c["area"]
    if "error" in o:
        return [("C20.geobox.error", "to_odc_geobox failed: " + o["error"])]
    x0, y0, x1, y1 = spec["extent"]
    cls = ".flipped_extent" if (x0 > x1 or y0 > y1) else ""
    tx, ty = tolerances(spec)
    if o["shape"] != [spec["h"], spec["w"]]:
        bad.append(("C20.geobox.shape" + cls, "GeoBox shape %s, area shape %s" % (o["shape"], [spec["h"], spec["w"]])))
    if not (abs(o["c00"][0] - x0) <= tx and abs(o["c00"][1] - y1) <= ty and abs(o["cwh"][0] - x1) <= tx and abs(o["cwh"][1] - y0) <= ty):
        bad.append(("C20.geobox.corners" + cls, "affine maps (0,0)->%s, (w,h)->%s; required (%r, %r) and (%r, %r)"
                    % (o["c00"], o["cwh"], x0, y1, x1, y0)))
    if tags["dyadic"] and (o["c00"] != [x0, y1] or o["cwh"] != [x1, y0]):
        bad.append(("C20.geobox.corners" + cls, "dyadic grid: corners not mapped exactly"))
    if not (abs(o["centre00"][0] - o["area_c00"][0]) <= tx and abs(o["centre00"][1] - o["area_c00"][1]) <= ty):
        bad.append(("C20.geobox.pixel_location" + cls, "centre of cell (0,0) %s is not the area's pixel (0,0) %s" % (o["centre00"], o["area_c00"])))
    if not (o["crs_eq"] or o["crs_op"]):
        bad.append(("C20.geobox.crs", "GeoBox CRS differs from the area's"))
    if o.get("repeat_same") is False:
        bad.append(("C20.geobox.history", "a second to_odc_geobox() of the same area gave a different GeoBox"))
    return bad


def judge_cartopy(c, tags, o):
    cls = ".geographic_beyond_domain" if tags.get("beyond") else ""
    if "error" in o:
        if tags.get("beyond"):
            return []          # an extent outside +-90 / +-180 may be refused loudly; it must not be altered silently
        return [("C20.cartopy.error", "to_cartopy_crs failed: " + o["error"])]
    x0, y0, x1, y1 = c["area"]["extent"]
    bad = []
    if o["bounds"] != [x0, x1, y0, y1]:
        bad.append(("C20.cartopy.bounds" + cls, "bounds %s, required the extent reordered %s" % (o["bounds"], [x0, x1, y0, y1])))
    elif o.get("x_limits") != [x0, x1] or o.get("y_limits") != [y0, y1]:
        bad.append(("C20.cartopy.limits" + cls, "x_limits %s / y_limits %s do not carry the extent %s" % (o.get("x_limits"), o.get("y_limits"), [x0, y0, x1, y1])))
    if not (o["crs_eq"] or o["crs_op"]):
        bad.append(("C20.cartopy.crs", "cartopy CRS differs from the area's"))
    if o.get("repeat_same") is False:
        bad.append(("C20.cartopy.history", "a second to_cartopy_crs() gave different bounds or the area's extent changed"))
    return bad


JUDGES = {"cf": judge_cf, "raster": judge_raster, "geobox": judge_geobox, "cartopy": judge_cartopy}


# ------------------------------------------------------------------------------------------------ Coq case text
def f4(v):
    return "(%s, %s, %s, %s)" % tuple(fhex(x) for x in v)


def f6(v):
    return "(%s, %s, %s, %s, %s, %s)" % tuple(fhex(x) for x in v)


def flist(v):
    return "[" + "; ".join(fhex(x) for x in v) + "]"


def bl(b):
    return "true" if b else "false"


def coq_cf(c, o):
    spec = c["area"]
    raises = o["error"] == "ZeroDivisionError"
    tab = "[" + "; ".join("(%s, %s, (%s, %s))" % tuple(fhex(x) for x in t) for t in o.get("tab", [])) + "]"
    k = o["k"] if o["k"] is not None else 1.0
    if raises:
        ext, w, h, xv, yv = [0.0] * 4, 0, 0, [], []
    else:
        ext, (h, w), xv, yv = o["extent"], o["shape"], o["xvec"], o["yvec"]
    return "mk_cf_case %s %d %d %d %s %s %s %s %s %s %s %d %d %s %s" % (
        f4(spec["extent"]), spec["w"], spec["h"], c["mode"], bl(c["flipx"]), bl(c["flipy"]), fhex(k), tab,
        f4(o["stored"]), bl(raises), f4(ext), w, h, flist(xv), flist(yv))


def coq_raster(c, o):
    spec = c["area"]
    return "mk_raster_case %s %d %d %s %s %s %s %s %s %d %d %s %s" % (
        f4(spec["extent"]), spec["w"], spec["h"], bl(c["sn"]), f6(o["written_transform"]), f6(o["transform"]), f4(o["bounds"]), f4(o["rio"]["extent"]), f4(o["gdal"]["extent"]),
        o["rio"]["shape"][1], o["rio"]["shape"][0], flist(o["rio"]["xvec"]), flist(o["rio"]["yvec"]))


def coq_geobox(c, o):
    spec = c["area"]
    return "mk_geobox_case %s %d %d %s (%d, %d) (%s, %s) (%s, %s)" % (
        f4(spec["extent"]), spec["w"], spec["h"], f6(o["affine"]), o["shape"][0], o["shape"][1],
        fhex(o["c00"][0]), fhex(o["c00"][1]), fhex(o["cwh"][0]), fhex(o["cwh"][1]))


def coq_cartopy(c, o):
    spec = c["area"]
    return "(%s, %d, %d, %s)" % (f4(spec["extent"]), spec["w"], spec["h"], f4(o["bounds"]))


def shards(name, chk, lines, per=250):
    out = []
    for i in range(0, len(lines), per):
        part = lines[i:i + per]
        text = HDR + "Definition cases := [\n%s\n].\nEval vm_compute in (bad %s cases).\n" % (";\n".join(part), chk)
        out.append(("c20_%s_%03d" % (name, i // per), text, part, name))
    return out


# ------------------------------------------------------------------------------------------------ run
def build_payload(ctx):
    r = ctx.rng
    cf = [gen_cf_case(r) for _ in range(ctx.n(420, 5000))]
    cf += [gen_cf_case(r, one_pixel=True) for _ in range(ctx.n(24, 200))]
    cf += [gen_cf_dtype_case(r, dt) for dt, _ in DTYPES for _ in range(ctx.n(20, 300))]
    # every family x orientation at least once
    for fam in CF_POOL:
        for flipx, flipy in ((False, False), (False, True), (True, False), (True, True)):
            c, t = gen_cf_case(r, fam=fam)
            c["flipx"], c["flipy"] = flipx, flipy
            cf.append((c, t))
    # exhaustive small scope: every shape up to the tier bound x every orientation x metre/kilometre units, one dyadic laea grid
    top = ctx.n(4, 7)
    for w in range(2, top + 1):
        for h in range(2, top + 1):
            for flipx in (False, True):
                for flipy in (False, True):
                    for unit in ("m", "km"):
                        spec = {"crs": POOL[0]["crs"], "extent": [-8192.0, 4096.0, -8192.0 + 1024.0 * w, 4096.0 + 512.0 * h], "w": w, "h": h}
                        c = {"area": spec, "flipx": flipx, "flipy": flipy, "mode": 1 if unit == "km" else 0, "k": 1000.0 if unit == "km" else None,
                             "lookup": "var", "dims": ["y", "x"], "time": False, "drop_wkt": False,
                             "xname": "projection_x_coordinate", "yname": "projection_y_coordinate", "xunit": unit, "yunit": unit}
                        cf.append((c, {"fam": "laea", "kind": "m", "dyadic": True, "upside_down": False, "unit": unit, "one_pixel": False, "small_scope": True}))
    raster = []
    for w in range(1, top + 1):
        for h in range(1, top + 1):
            for sn in (False, True):
                spec = {"crs": POOL[0]["crs"], "extent": [-8192.0, 4096.0, -8192.0 + 1024.0 * w, 4096.0 + 512.0 * h], "w": w, "h": h}
                for rtags in (None, {"AREA_OR_POINT": "Point"}):
                    raster.append(({"area": spec, "sn": sn, "by_name": False, "tags": rtags},
                                   {"fam": "laea", "kind": "m", "dyadic": True, "upside_down": False, "small_scope": True}))
    for _ in range(ctx.n(160, 1600)):
        spec, tags = gen_area(r, 1, 20)
        raster.append(({"area": spec, "sn": r.random() < 0.35, "by_name": r.random() < 0.25, "future": r.random() < 0.15,
                        "tags": r.choice(RASTER_TAGS)}, tags))
    geobox = []
    for _ in range(ctx.n(260, 3000)):
        spec, tags = gen_area(r, 1)
        if r.random() < 0.25:      # the areas load_cf_area returns for south-to-north / descending-x data
            x0, y0, x1, y1 = spec["extent"]
            spec["extent"] = r.choice([[x0, y1, x1, y0], [x1, y0, x0, y1], [x1, y1, x0, y0]])
        geobox.append(({"area": spec}, tags))
    geobox += [gen_geo_beyond(r) for _ in range(ctx.n(20, 200))]
    cartopy = []
    for _ in range(ctx.n(100, 800)):
        spec, tags = gen_area(r, 1)
        cartopy.append(({"area": spec}, tags))
    cartopy += [gen_geo_beyond(r) for _ in range(ctx.n(30, 300))]
    rotated = []
    for _ in range(ctx.n(16, 100)):
        b = r.choice([0.0, 0.0, 0.5, -2.0, 1e-9])
        d = r.choice([0.0, 0.0, 0.25, -1.0, b])
        rotated.append({"tr": [r.choice([1.0, 30.0, 1000.0]), b, r.uniform(-1e6, 1e6), d, -r.choice([1.0, 30.0, 1000.0]), r.uniform(-1e6, 1e6)],
                        "w": r.randint(1, 9), "h": r.randint(1, 9)})
    return {"cf": cf, "raster": raster, "geobox": geobox, "cartopy": cartopy, "rotated": rotated}


def run(ctx):
    ctx.rule = ("PRNG areas over 14 CF-expressible CRSs (laea, stere N/S, merc, lcc, tmerc, UTM/3857/3035 EPSG, longlat x2, geos sweep x/y, "
                "stere in km), shapes 1..24 (CF: 2..24 plus a 1-pixel-axis stream), half of the grids dyadic (extent multiples of 2^k, power-of-two "
                "pixel sizes: every intermediate exact), ~12% upside-down originals; CF variants: ascending/descending y and x, units "
                "m/meters/metres/km/degrees*/radians, coordinate vectors stored as float32 / int32 / int16 (integer centres the dtype holds exactly, "
                "odd pixel sizes so the half-integer corners are not storable; float32 above 2^23, int16 also with spans beyond the dtype's range), variable-, search-, grid-mapping- and from_cf-based lookup, extra time dimension, "
                "grid mapping with or without crs_wkt; plus every shape 2..4 (quick) / 2..7 (thorough) squared x 4 orientations x m/km on one dyadic "
                "laea grid and every raster shape from 1x1; rasters north-up and south-up, with no tags / AREA_OR_POINT=Area / =Point / unrelated tags, through rasterio MemoryFile GeoTIFFs and a duck-typed gdal "
                "dataset; rotated transforms; GeoBox and cartopy additionally on geographic areas reaching beyond +-90 / +-180 degrees (node-registered "
                "global grids, polar caps half a pixel past the pole, 0..360 and past-180 longitudes; regular and flipped; a loud refusal is "
                "accepted there, an altered extent is not); ~15% of CF/raster cases with features.future_geometries on; every CF load, "
                "GeoBox and cartopy conversion is repeated once on the same object (history: same result, inputs untouched). Oracle tolerances: "
                "1e-9 pixel + the derived binary64 bound of the chain (12 ulp of the largest coordinate for extents, 24 for pixel-centre "
                "vectors, derivation in harness/c20.tolerances), also where PROJ converts km (checked to be multiplication by 1000 within 2 ulp); "
                "exact equality on dyadic grids with coordinates in CRS units. "
                "A case is non-trivial when the conversion ran end to end (or took the modelled raise path); distinct = distinct inputs")
    ctx.exhaustive = True      # the small-scope part: all shapes <= 4x4 (quick) / 7x7 (thorough) x orientations x m/km, rasters from 1x1
    pl = build_payload(ctx)
    payload = {k: [c for c, _ in v] if k != "rotated" else v for k, v in pl.items()}
    obs = ctx.impl("c20", payload, timeout=ctx.n(600, 3000))
    for lib, ok in sorted(obs["libs"].items()):
        ctx.count("lib_%s_%s" % (lib, "present" if ok else "MISSING"))
    texts = []
    sampled = set()
    worst = {}
    coqers = {"cf": ("chk_cf", coq_cf), "raster": ("chk_raster", coq_raster), "geobox": ("chk_geobox", coq_geobox),
              "cartopy": ("chk_cartopy", coq_cartopy)}
    needs = {"cf": "xarray", "raster": "rasterio", "geobox": "odc-geo", "cartopy": "cartopy"}
    for sect in ("cf", "raster", "geobox", "cartopy"):
        if obs[sect] is None:
            ctx.notes.append("C20: %s is not importable in /venv: the %s clause rests on the arithmetic theorems only (correspondence and "
                             "oracle skipped)" % (needs[sect], sect))
            ctx.count("skipped_" + sect, len(pl[sect]))
            continue
        lines = []
        for (c, tags), o in zip(pl[sect], obs[sect]):
            fails = JUDGES[sect](c, tags, o)
            ran = not ("setup_error" in o or "error" in o and sect != "cf")
            x0_, y0_, x1_, y1_ = c["area"]["extent"]
            kind = {"cf": "cf." + ("one_pixel_axis" if tags.get("one_pixel") else "stored_" + c["dtype"] if c.get("dtype") else "unit_" + tags.get("unit", "?")),
                    "raster": "raster." + ("south_up" if c.get("sn") else "north_up"),
                    "geobox": "geobox." + ("flipped_extent" if (x0_ > x1_ or y0_ > y1_) else "regular"),
                    "cartopy": "cartopy"}[sect]
            sample = None
            if ran and kind not in sampled and (sect != "cf" or kind in ("cf.unit_m", "cf.unit_km", "cf.one_pixel_axis", "cf.stored_float32", "cf.stored_int16")):
                sampled.add(kind)
                sample = {kind: {"area": c["area"], "variant": {k: v for k, v in c.items() if k != "area"},
                                 "impl": {k: o.get(k) for k in ("extent", "shape", "error", "affine", "bounds") if k in o}
                                 or {p: o[p]["extent"] for p in ("rio", "gdal") if p in o}}}
            ctx.case((sect, repr(sorted(c.items(), key=str))), nontrivial=ran, sample=sample)
            if tags.get("small_scope"):
                ctx.count(sect + ".small_scope_enumeration")
            label = sect + "." + tags["fam"]
            ctx.count(label)
            if sect == "cf":
                ctx.count("cf.unit_" + tags["unit"])
                ctx.count("cf.%s%s" % ("xrev_" if c["flipx"] else "", "south_to_north" if c["flipy"] else "north_to_south"))
                ctx.count("cf.lookup_" + c["lookup"])
                if tags["one_pixel"]:
                    ctx.count("cf.one_pixel_axis_" + ("raised" if o.get("error") else "RETURNED"))
                if o.get("error") is None and "extent" in o:
                    ctx.count("cf.crs_%s" % ("equal" if o["crs_eq"] else "same_grid_only" if o["crs_op"] else "DIFFERENT"))
                    if c.get("drop_wkt"):
                        ctx.count("cf.grid_mapping_without_crs_wkt")
                    want = expected_extent(c["area"], c["flipx"], c["flipy"])
                    ps = min(abs(want[2] - want[0]) / c["area"]["w"], abs(want[3] - want[1]) / c["area"]["h"])
                    err = max(abs(a - b) for a, b in zip(o["extent"], want)) / ps
                    cls = "PROJ unit conversion" if c["mode"] == 1 else "dyadic, CRS units" if (tags["dyadic"] and c["mode"] == 0) else "other"
                    worst[cls] = max(worst.get(cls, 0.0), err)
            if tags.get("beyond"):
                ctx.count("%s.geographic_beyond_domain_%s" % (sect, tags["beyond_kind"]))
            if sect == "raster":
                ctx.count("raster.file" + (raster_tag_class(c) or ".no_tags"))
                ctx.count("raster." + ("south_up" if c["sn"] else "north_up"))
                if "rio" in o:
                    ctx.count("raster.crs_%s" % ("equal" if o["rio"]["crs_eq"] else "same_grid_only" if o["rio"]["crs_op"] else "DIFFERENT"))
            ctx.count("%s.%s" % (sect, "dyadic" if tags["dyadic"] else "nondyadic"))
            x0_, y0_, x1_, y1_ = c["area"]["extent"]
            ctx.count("%s.%s" % (sect, "extent_flipped" if (x0_ > x1_ or y0_ > y1_) else "extent_regular"))
            if min(c["area"]["w"], c["area"]["h"]) == 1:
                ctx.count(sect + ".one_pixel_axis")
            if c.get("dtype"):
                ctx.count("cf.stored_dtype_" + c["dtype"])
            for flag in ("future", "time", "by_name"):
                if c.get(flag):
                    ctx.count("%s.variant_%s" % (sect, flag))
            if sect == "cf" and c["mode"] == 1:
                ctx.count("cf.uconv_rows_checked", len(o.get("tab", [])))
            for key, what in fails:
                ctx.add_failure(key, "%s [%s %s %dx%d extent %s]" % (what, sect, tags["fam"], c["area"]["h"], c["area"]["w"], c["area"]["extent"]),
                                {"oracle": sect, "case": c, "tags": tags, "impl": o})
            # correspondence: every case whose observation has the modelled form
            if sect == "cf":
                if "setup_error" in o or (o["error"] is not None and o["error"] != "ZeroDivisionError"):
                    continue
            elif "error" in o:
                continue
            lines.append(coqers[sect][1](c, o))
        texts += shards(sect, coqers[sect][0], lines)
    if obs.get("rotated") is not None:
        lines = []
        for c, o in zip(pl["rotated"], obs["rotated"]):
            rot = not (c["tr"][1] == c["tr"][3] == 0)
            ctx.case(("rot", repr(c)), nontrivial=True, sample=None)
            if rot:
                sampled.add("rotated")
            ctx.count("rotated." + ("rotated" if rot else "unrotated"))
            for path in ("gdal", "rio"):
                got = o.get(path)
                if isinstance(got, str) and got.startswith("setup:"):
                    continue
                if rot and got is None:
                    ctx.add_failure("C20.raster.rotated_accepted." + path, "rotated transform %s accepted: the area cannot represent it" % (c["tr"],),
                                    {"oracle": "rotated", "case": c, "impl": o})
                if not rot and got is not None:
                    ctx.add_failure("C20.raster.error." + path, "unrotated transform %s refused with %s" % (c["tr"], got),
                                    {"oracle": "rotated", "case": c, "impl": o})
            if o.get("gdal") in (None, "ValueError") and o.get("rio") in (None, "ValueError") and o.get("transform") == c["tr"]:
                lines.append("(%s, %s, %s)" % (f6(c["tr"]), bl(o.get("gdal") == "ValueError"), bl(o.get("rio") == "ValueError")))
            else:
                ctx.count("rotated.transform_not_kept_by_geotiff")
        texts += shards("rotated", "chk_rotated", lines)

    if worst:
        ctx.notes.append("C20 measured: largest CF extent error in pixels by class: " + ", ".join("%s %.3g" % kv for kv in sorted(worst.items())))
    res = ctx.coq_eval_many([(n, t) for n, t, _, _ in texts])
    for name, _, lines, what in texts:
        out, ok = res[name]
        if not ok:
            ctx.broken.append(("correspondence:" + what, "model evaluation failed: " + out[-300:]))
            continue
        bad = ints(out)
        if bad:
            ctx.broken.append(("correspondence:" + what, "model and implementation differ on %d of %d cases, e.g. %s"
                               % (len(bad), len(lines), lines[bad[0]][:400])))


def replay(ctx, data):
    case = data["case"]
    sect = case["oracle"]
    if sect == "rotated":
        o = ctx.impl("c20", {"rotated": [case["case"]]})["rotated"][0]
        rot = not (case["case"]["tr"][1] == case["case"]["tr"][3] == 0)
        return any((rot and o.get(p) is None) or (not rot and o.get(p) is not None) for p in ("gdal", "rio"))
    o = ctx.impl("c20", {sect: [case["case"]]})[sect]
    if o is None:
        return False
    fails = JUDGES[sect](case["case"], case["tags"], o[0])
    return any(k == data["key"] for k, _ in fails) or bool(fails)
